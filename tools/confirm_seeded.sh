#!/bin/bash
# confirm_seeded.sh <src-dir-with-patch.diff,demo/,meta.json> <name>
# Confirms a seeded breaking change in a scratch worktree (outside /repo and /verif):
#  1. demo passes on the unchanged tree, 2. patch applies and the workspace builds,
#  3. the 61 pinned tests pass with the patch, 4. demo fails with the patch.
# On success stores /verif/seeded/<name>/{patch.diff,demo,meta.json}.
set -u
SRC=$1; NAME=$2
WT=/tmp/confirm/wt
export CARGO_NET_OFFLINE=true
mkdir -p /tmp/confirm
if [ ! -d $WT ]; then git -C /repo worktree add -q --detach $WT HEAD || exit 2; fi
rm -f $WT/ascent_macro/examples/scratchpad.rs; cd $WT && git checkout -q --detach $(git -C /repo rev-parse HEAD) && git checkout -- . && rm -rf demo && cp /repo/Cargo.lock .
cp -r $SRC/demo $WT/demo && rm -rf $WT/demo/target && cp /repo/Cargo.lock $WT/demo/Cargo.lock
LOG=/tmp/confirm/$NAME.log; : > $LOG
run_demo() { (cd $WT/demo && CARGO_TARGET_DIR=/tmp/confirm/demo-target timeout 1200 cargo run --offline -q >>$LOG 2>&1); }
echo "== demo on unchanged tree" >>$LOG; run_demo; RC0=$?
git apply $SRC/patch.diff >>$LOG 2>&1 || { echo "FAIL: patch does not apply"; exit 1; }
echo "== tests with patch" >>$LOG
timeout 3000 cargo test --workspace --no-fail-fast --offline >>$LOG 2>&1; RCT=$?
NPASS=$(grep -E '^test result: ' $LOG | sed -E 's/.* ([0-9]+) passed.*/\1/' | paste -sd+ | bc)
NFAIL=$(grep -E '^test result: ' $LOG | sed -E 's/.* ([0-9]+) failed.*/\1/' | paste -sd+ | bc)
echo "== demo with patch" >>$LOG; run_demo; RC1=$?
git checkout -- . ; rm -rf $WT/demo
echo "demo unchanged rc=$RC0; tests rc=$RCT passed=$NPASS failed=$NFAIL; demo patched rc=$RC1"
if [ $RC0 -eq 0 ] && [ $RCT -eq 0 ] && [ $RC1 -ne 0 ]; then
  D=/verif/seeded/$NAME; rm -rf $D; mkdir -p $D
  cp $SRC/patch.diff $D/; cp -r $SRC/demo $D/demo; rm -rf $D/demo/target $D/demo/Cargo.lock
  python3 - "$SRC/meta.json" "$D/meta.json" "$RC0" "$RCT" "$NPASS" "$NFAIL" "$RC1" <<'PY'
import json, sys
src, dst, rc0, rct, npass, nfail, rc1 = sys.argv[1:]
try: m = json.load(open(src))
except Exception as e: m = {"meta_error": str(e)}
m["confirmed"] = {"demo_unchanged_rc": int(rc0), "tests_with_patch_rc": int(rct), "tests_passed": int(npass or 0), "tests_failed": int(nfail or 0),
                  "demo_patched_rc": int(rc1), "how": "tools/confirm_seeded.sh in scratch worktree /tmp/confirm/wt: cargo test --workspace --no-fail-fast --offline; cargo run --offline in demo/"}
json.dump(m, open(dst, "w"), indent=1)
PY
  echo CONFIRMED $NAME; exit 0
else echo "NOT CONFIRMED (see $LOG)"; exit 1; fi
