#!/bin/bash
# wave_queue.sh — background worker: reads lines "<ID> <name> [source dir]" appended to /tmp/wave_queue, confirms each seeded change
# (tools/confirm_seeded.sh) and then runs the property's quick check against the patched worktree from the clone in /tmp/vm.
# Results are appended to /tmp/wave_results. Stop with: touch /tmp/wave_stop
Q=/tmp/wave_queue; R=/tmp/wave_results; DONE=/tmp/wave_done
touch $Q $R $DONE
while [ ! -e /tmp/wave_stop ]; do
  LINE=$(grep -vxFf $DONE $Q | head -1)
  if [ -z "$LINE" ]; then sleep 20; continue; fi
  set -- $LINE; ID=$1; NAME=$2; SRC=${3:-/tmp/mut4/$ID}
  echo "== $(date +%H:%M:%S) $ID $NAME" >> $R
  if [ ! -d /verif/seeded/$NAME ]; then
    /verif/tools/confirm_seeded.sh $SRC $NAME 2>&1 | tail -2 >> $R
  fi
  if [ -d /verif/seeded/$NAME ]; then
    while [ ! -e /tmp/vm/setup.out ] || ! grep -q '^done' /tmp/vm/setup.out; do sleep 10; done
    /verif/tools/wave_try.sh $NAME 2>&1 | tail -5 >> $R
  fi
  echo "$LINE" >> $DONE
done
