#!/bin/bash
# try_seeded.sh <worktree-with-patch-applied> <check ids...>
# Runs the given checks against a mutated worktree (VERIF_REPO_DIR) without touching /repo;
# evidence files of /verif are saved and restored. Prints rc and VIOLATION lines per check.
WT=$1; shift
cd /verif
mkdir -p work/ev_backup work/logs; cp evidence/*.json work/ev_backup/
for id in "$@"; do
  VERIF_REPO_DIR=$WT ./check $id --tier quick > work/logs/mut_$(basename $WT)_$id.log 2>&1; rc=$?
  echo "$id on $(basename $WT): rc=$rc  violations=$(grep -c '^VIOLATION' work/logs/mut_$(basename $WT)_$id.log)"
  grep '^VIOLATION' work/logs/mut_$(basename $WT)_$id.log | head -3
done
cp work/ev_backup/*.json evidence/
