#!/bin/bash
# run_seeded.sh [name-prefix]  — replays every confirmed seeded change under /verif/seeded against the check of its property.
# Uses a scratch worktree of /repo (outside /repo and /verif), never touches /repo itself; evidence files are restored afterwards.
# Writes seeded/RESULTS.json: {name: {"applies": bool, "check": id, "rc": int, "violations": int, "no_failing_input": bool}}
set -u
cd "$(dirname "$0")/.."
V=$(pwd)
export V
WT=${SEEDED_WT:-/tmp/seeded_wt}
[ -d $WT ] || git -C /repo worktree add -q --detach $WT HEAD || exit 2
(cd $WT && git checkout -q --detach $(git -C /repo rev-parse HEAD) && git checkout -q -- . && cp /repo/Cargo.lock .)
mkdir -p work/ev_backup work/logs; cp evidence/*.json work/ev_backup/
python3 - "$@" <<'PY'
import json, os, subprocess, sys, glob
pref = sys.argv[1] if len(sys.argv) > 1 else ""
WT = os.environ.get("SEEDED_WT", "/tmp/seeded_wt")
V = os.environ["V"]
res_path = V + "/seeded/RESULTS.json"
res = json.load(open(res_path)) if os.path.exists(res_path) else {}
for d in sorted(glob.glob(V + "/seeded/*/")):
    name = os.path.basename(d.rstrip("/"))
    if not name.startswith(pref) or not os.path.exists(d + "patch.diff"): continue
    prop = name.split("_")[0]
    subprocess.run(["git", "checkout", "-q", "--", "."], cwd=WT)
    ok = subprocess.run(["git", "apply", d + "patch.diff"], cwd=WT, capture_output=True).returncode == 0
    entry = {"applies": ok, "check": prop, "repo_head": subprocess.run(["git", "-C", "/repo", "rev-parse", "--short", "HEAD"], capture_output=True, text=True).stdout.strip()}
    if ok:
        env = dict(os.environ, VERIF_REPO_DIR=WT)
        log = f"{V}/work/logs/seeded_{name}.log"
        p = subprocess.run(["./check", prop, "--tier", "quick"], cwd=V, env=env, stdout=open(log, "w"), stderr=subprocess.STDOUT)
        lines = [l for l in open(log) if l.startswith("VIOLATION")]
        entry.update(rc=p.returncode, violations=len(lines), no_failing_input=any("no-failing-input-found" in l for l in lines))
    res[name] = entry
    print(name, entry, flush=True)
    json.dump(res, open(res_path, "w"), indent=1, sort_keys=True)
subprocess.run(["git", "checkout", "-q", "--", "."], cwd=WT)
PY
cp work/ev_backup/*.json evidence/
