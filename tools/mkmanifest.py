#!/usr/bin/env python3
"""Regenerates /verif/MANIFEST.json from the table below (kept valid at all times)."""
import json, os
V = os.path.dirname(os.path.dirname(os.path.abspath(__file__)))
ALL = [f"C{i:02d}" for i in range(1, 21)]

ENGINE_NOTE = ("Lean kernel; axioms propext/Classical.choice/Quot.sound; the engine model (Model/Engine.lean) is hand-written at MIR level after "
               "ascent_mir.rs/ascent_codegen.rs and tied on every run by compiling generated programs with the real macros (tie B) and diffing against the "
               "Lean driver and an independent naive least-model oracle; rustc, syn/quote, hash maps (C19), petgraph (validated by validOrder) and the "
               "evaluation of embedded Rust expressions (theorems hold for every interpretation) are modelled, not verified.")
CLAIMS = {
 "C07": dict(
   engine="tie-B-engine",
   technique="Lean 4 proof that the implemented desugaring pipeline preserves the documented meaning of every sugar form + three-way compiled-program "
             "correspondence (sugared text / printed documented expansion / Lean desugar+engine model) + in-process acceptance sweep (tie A)",
   text="Lean 4 theorems for every interpretation of the embedded Rust fragments: a surface body means the union over one disjunct per disjunction at any "
        "nesting (products_correct); the pipeline pattern-args -> wildcards -> negation -> repeated-vars with its gensyms has exactly the documented one-step "
        "consequences (desugar_correct, desugarRules_correct) hence the same least model (derivable_desugar), for rules that mention no generated name and whose "
        "expression arguments refer to earlier columns (NoReservedNames, WellScoped; instances stdOps_sugarSound / stdOps_varsSound); several heads = one rule per "
        "head, no body = fact (cons_split_heads, consS_fact). Tie: every generated surface program (every sugar form and nesting forced by quota) is compiled twice "
        "with the real macros - sugared text and printed documented expansion - and run on the same inputs; both must equal the naive least model of the expansion "
        "and the Lean desugar+engine model (driver op `eng sprog`); 150/1500 more programs through the in-process pipeline. F10 (typeable gensym `x_` captures a user "
        "variable) is a kernel-checked witness of why NoReservedNames is needed; F9 (a lattice clause with every column bound reads an index head updates skip) is a "
        "known finding of the generated code below the desugaring, predicted by a Python bug model.",
   design_ref="DESIGN.md §8 C07",
   note=ENGINE_NOTE + " expand_spec (Python) is the oracle's reading of the documentation; the Lean engine model is not bug-faithful for F9."),
 "C08": dict(
   engine="tie-B-engine",
   technique="Lean 4 proof of macro hygiene (implemented expansion = ideal expansion up to an injective renaming that fixes call-site variables; same "
             "consequences), of rejection of recursive macros and of termination + compiled correspondence program-with-macros / printed ideal expansion / Lean "
             "model + in-process rejection tie (tie A)",
   text="Lean 4 theorems: expand_hygienic_partial / expand_hygienic_sem (any nesting and body position: implemented expansion equals the ideal expansion up to a "
        "renaming fixing every call-site variable and injective on the ideal's variables, errors coincide, same one-step consequences), tagVar_inj / "
        "gensyms_disjoint (two invocations share no macro-local name, nothing is captured), recursive_rejected(_msg,_heads) (a reachable cycle is never accepted, "
        "for any budget), expandBody_total / expandBody_mono (termination; the budget is only a cut-off). Hypotheses (decidable, with non-vacuity examples): "
        "macro bodies without agg (conditions may be attached to clauses since fix 3a6dc9a), at most 100 parameters, call-site aggregations list their bound variables; the first drafts without the "
        "last two were false as artefacts of the encoding (counterexamples CE.* kept). Tie: generated programs with macros (same macro twice in a rule, call-site "
        "variable spelled like a macro-local one, nested invocations incl. locals bound only through nested arguments, attached conditions, head macros) compiled and compared with the printed ideal expansion, the naive oracle and "
        "the Lean model; 11 recursive-macro shapes through the in-process pipeline. Known findings: F26 (expr parameter pasted as raw tokens), F27 (`?None` "
        "in a macro body renamed into a binding), each with a coded class predicate and a matched prediction; F25 (attached conditions escaped the renaming) is "
        "fixed by 3a6dc9a: theorems f25_fixed / f25_hygienic / f25_by_theorem; FM8 (self-reference through a disjunction expanded exponentially) is fixed by deae510: FM8.branching_*_rejected.",
   design_ref="DESIGN.md §8 C08",
   note=ENGINE_NOTE + " Token spans (hygiene marks) are modelled by per-invocation tags; F26 (token level) and F27 are not modelled in Lean."),
 "C11": dict(
   engine="tie-B-engine",
   technique="Lean 4 proof that the least model of the explicit-closure twin restricted to t is the (per-key) transitive closure of the inserted tuples + "
             "Lean 4 simulation proof of the binary trrel provider model against its set-level contract + compiled-program (tie B) and op-history (tie C) correspondence",
   text="Lean 4 theorems: for every rule program, input and key, the least model of `rules + t(x,z) <-- t(x,y), t(y,z)` holds in t exactly the transitive "
        "closure of the tuples inserted by the input and the other rules, incl. (x,x) on cycles (twin_closure_bin/tern, twin_cycle_reflexive_*, rule form = "
        "path form), hence so does the engine model on the twin (engine_twin_closure_*, via C01). For the binary provider (TrRelIndCommon) every history of "
        "head updates and merges keeps new/delta/total equal to the set-level contract total'=total+delta, delta'=(new + {x!=y connected}) - total' "
        "(provider_contract_bin, views view0/1/None_spec); this equals the closure contract on acyclic inputs and differs by the derived (x,x) otherwise - "
        "finding F7, kernel-checked witness. The ternary provider is PARTIAL: model tied by correspondence only; its delta views [1],[2],[1,2] lose tuples "
        "(F23, kernel-checked witnesses); len_estimate of view [1,2] divided by zero on a key-less version (F24: repaired by a fix: commit, now proved total). Tie B: generated programs with one "
        "trrel relation (binary/ternary, static / scheduled-arrival / demand-driven recursion, several keys with pauses, every access pattern read inside and "
        "outside the stratum) compiled and compared with the Lean engine model and the naive oracle on the twin; tie C: exhaustive and PRNG op histories on "
        "the real provider types through the traits generated code uses vs the Lean model vs an independent closure oracle. F7/F23 are attributed only "
        "inside their class predicates and only when the output is what the defect explains.",
   design_ref="DESIGN.md §8 C11",
   note=ENGINE_NOTE + " Provider model (Model/TrRelInd.lean) hand-written after trrel_binary_ind.rs / binary_rel.rs / trrel_ternary_ind.rs / utils.rs; hash "
        "collections, iteration order, f32 sqrt and the merge loop's termination are modelled, not verified."),
 "C10": dict(
   engine="tie-B-engine",
   technique="Lean 4 theorems (least model of the explicit-closure twin = equivalence closure; binary eqrel provider meets its new/delta/total contract for every op "
             "sequence) + compiled-program correspondence against the twin (tie B) + provider op-sequence correspondence (tie C)",
   text="Lean 4 theorems: for EVERY program, interpretation and input, the least model of the explicit-closure twin restricted to the tagged relation is exactly "
        "the equivalence closure (reflexive on mentioned elements, symmetric, transitive; per key for r(K,T,T)) of the tuples the other rules insert "
        "(eqrel_twin_binary, eqrel_twin_ternary). For the BINARY provider (model of union_find.rs EqRel + eqrel_ind.rs EqRelIndCommon, serial and parallel "
        "types tied to it): every history of inserts into `new` and merges runs without panic and keeps total = T, delta = D \\ T, D := closure(D u N) "
        "(provider_run_contract, provider_all_inserted); contains_key / index_get / iter_all of every view read exactly the content, except iter_all of view "
        "[0], which is proved to yield total u delta on delta (provider_iter_all_0_overapprox). Tied by compiled programs with the tagged relation in head and "
        "body positions, non-recursive and recursive strata (facts arriving one per iteration, several keys, keys pausing and resuming), every access "
        "pattern bound by probes / constants / two-clause joins in both directions, serial and ascent_par!, compared with the explicit-closure twin under "
        "the Lean engine model and the naive oracle; and by exhaustive + random provider op sequences. The TERNARY provider is NOT correct: known findings "
        "F6 (merge drops per-key delta), F21 (merged twice per iteration: delta always empty), F22 (view [1,2] iter_all yields tuples outside the relation), "
        "F13 (index [2] does not compile); F20: parallel binary full-index read does not compile. Failures are attributed to them only inside coded class "
        "predicates with the finding's signature.",
   design_ref="DESIGN.md §8 C10",
   note=ENGINE_NOTE + " Provider model hand-written statement by statement, tied by op-history diffing through the traits generated code calls; "
        "hashbrown collections, Rc sharing and the Mutex are modelled as values; parallel interleavings exercised, not proved; ternary provider not modelled."),
 "C15": dict(
   engine="tie-A-macro",
   technique="Lean 4 theorems over a model of the macro front end's static checks (each ill-formedness class is rejected at any position; accepted <-> well-formed core) "
             "+ outcome-by-outcome correspondence with the real macro pipeline run in process (tie A) and under rustc (tie B, thorough)",
   text="Model Check.check of the macro front end's static checks (parse-level, macro expansion with the depth budget, HIR shadowing/undefined/arity, attributes, ds on "
        "lattice, MIR stratification, the reachable code-generation panics) is tied outcome-by-outcome to the real pipeline on ~8k (quick) / ~35k (thorough) generated "
        "programs per run (one planted violation at every position, two-violation programs, token corruptions, well-formed controls) under all four macros and "
        "ascent_source!; Lean theorems: for each violation class IllFormed_K -> rejected for a violation at any position, WellFormedCore <-> check = ok, the model's "
        "stratification test is equivalent to the declarative condition (two rules on a dependency cycle lie in one SCC), every macro reaching itself from an invocation "
        "is rejected for any budget, an aggregation over a missing bound argument / a struct-impl signature mismatch / an empty disjunction at any depth is rejected, and no stage panics. The thorough tier compiles ~285 programs "
        "with rustc (the diagnostic must point into the program). Every full-strength statement that is false of the real code has a decide-d witness and a known "
        "finding (FM10: the depth budget also counts parenthesis nesting / non-recursive chains; low severity); FM1-FM9, FM11, FM12 were repaired by fix "
        "commits, their witnesses must pass, and the model's pipeline provably never panics (check_never_panics).",
   design_ref="DESIGN.md §8 C15",
   note="Lean kernel; axioms propext/Classical.choice/Quot.sound; trusted: the text->summary printer of the generator, syn, rustc diagnostics, in-process spans "
        "(span-dependent cases go to rustc in the thorough tier); FM3 (token level) and FM11 (span-dependent hygiene) are not modelled."),
 "C12": dict(
   engine="tie-B-engine",
   technique="Lean 4 theorems (explicit-closure twin = reflexive transitive closure of the inserted tuples, all programs) + bug-faithful Lean models of the "
             "trrel_uf provider and of the generated code over it, tied by compiled programs (tie B) and provider op sequences on the real types (tie C)",
   text="Lean 4, kernel-checked for EVERY program, interpretation and input: in the least model of the explicit-closure twin the tagged relation is exactly the "
        "reflexive (on mentioned elements) transitive closure, per key for the ternary form, of the tuples inserted by input and other rules, and other relations "
        "are untouched (twin_binary_iff_closure, twin_ternary_iff_closure, twin_other_relations_untouched); with C01 this is what run() of the twin computes. "
        "The real provider does NOT meet this in general: findings F8, F11, F12, F14, F18 (panics and lost tuples for ternary relations and for reads inside a "
        "looping stratum), each with a compiled witness and a decide-d witness on the provider model (F17, the division by zero in len_estimate, is repaired by a fix: commit). PARTIAL: proved for the provider model only for a first batch "
        "(provider_first_batch_contract_partial, provider_merge_never_new). Tie B: generated programs x inputs - one tagged relation in head and body positions, "
        "non-recursive / multi-stratum / looping strata with scheduled arrivals, pausing keys, every access pattern - plain relations compared with the naive least "
        "model of the twin, the Lean engine model on the twin, and the bug-faithful Lean model (exact agreement incl. panics). Tie C: two-batch histories over 3 "
        "elements + PRNG histories on the real rel_ind_common types through the traits generated code uses, every view of delta and total after every merge, vs the "
        "Lean provider model and a Floyd-Warshall contract oracle. A failure is attributed to a known finding only inside its class predicate and only when the "
        "output equals the bug-faithful model's.",
   design_ref="DESIGN.md §8 C12",
   note="Lean kernel; axioms propext/Classical.choice/Quot.sound; provider and generated-code models hand-written statement by statement; hash iteration order "
        "modelled as insertion order, the single order-dependent observation bracketed by two model runs; len_estimate modelled only where it panics."),
 "C02": dict(
   engine="tie-B-engine",
   technique="Lean 4 proof that the parallel iteration under EVERY schedule computes the least model (= the serial result) + perturbed parallel runs of compiled programs",
   text="Lean 4 theorems over the parallel engine model (all rule-variant tasks of an iteration evaluated against frozen total/delta, their head updates applied "
        "in an arbitrary permutation = any interleaving of the workers' atomic steps, with or without inter-rule parallelism): for every relational program, "
        "interpretation, input, valid SCC order, fuel and EVERY schedule the result is exactly the least model, rows are sets (runPar_eq_leastModel), hence equal "
        "to the serial engine's result (par_eq_serial) and independent of the schedule (par_schedule_independent). Props/C02ND.lean generalises the schedule to a "
        "RELATION: a pass may apply the head update to any list of head rows that is set-equal to the rows of all rule-variant instances (any order, any "
        "multiplicity - hash order, index choice, swapped simple joins, duplicate hits, worker interleavings); every such execution computes the least model "
        "(nd_eq_leastModel, nd_runs_agree) and every schedule of the parallel engine is one (par_is_nd). Tied by ascent_par! twins of generated "
        "relational / lattice / aggregation programs, with and without #![inter_rule_parallelism], in pools of 1..16 threads under seeded perturbation of every "
        "concurrent index insert (hook), vs the serial model and the naive oracle. PARTIAL: lattices and aggregation in parallel mode are covered by the tie "
        "only (finding F5, aggregates over a lattice in parallel mode, was repaired by fix 058163a and its witness must pass); deadlock-freedom, DashMap/boxcar/RwLock/Mutex atomicity, rayon completion and memory ordering are assumptions, exercised not proved. Physical level (Props/C02Phys.lean over Model/EnginePhysPar.lean): the generated ascent_par! code over its concurrent hash indices - frozen / unfrozen protocol with panics, per-thread CRelNoIndex, parallel update_indices, head updates of all workers interleaved - never panics and computes exactly the least model for EVERY schedule and pool size (runPhysPar_eq_leastModel); the relational cases of the tie are compared with this model (eng runpp). Props/C02PhysLat.lean: ascent_par! WITH lattice relations over its concurrent indices - for every schedule, pool and rule-scheduling mode no panic and the least fixed point (runPhysParLat_spec; the flag law of join_mut is a hypothesis, shown necessary by runPhysParLat_needs_flag_law); tied by `eng runppl`. Props/C02PhysAgg.lean: ascent_par! on stratified programs with aggregation / negation - every schedule and pool, no panic, the stratified model (runPhysPar_agg_eq_model), schedule and pool independence; tied by `eng runpp`.",
   design_ref="DESIGN.md §8 C02, §13", note=ENGINE_NOTE),
 "C20": dict(
   engine="tie-B-engine",
   technique="Lean 4 invariants of the per-thread-sharded index across pool sizes + compiled programs across construction/run pools and concurrent instances",
   text="Lean 4 theorems about where the rayon pool enters the code (CRelNoIndex: one shard per thread of the constructing pool, insert into shard "
        "thread_index % shards, zip-merge): whatever pool sizes the three versions were constructed in, if every insert is made by a thread of the current pool "
        "of m threads and `total` has at least m shards (it is constructed in the running pool), all content stays within the first m shards and the merge step "
        "loses nothing and re-establishes the invariant (insert_within, moveContents_within, mergeStep_pool_independent); the engine model itself is a pure "
        "function of one program value (instances share no model state). Tied by parallel programs constructed / run / re-run after pushes in pools (a,b,c) "
        "from {1,2,3,8,16}^3 and by groups of instances of the same and of different generated types running at the same time on OS threads. PARTIAL: data "
        "races on the `static mut` timing counters are UB that neither model nor run can exhibit; they are read by no evaluation step. Physical level (Props/C20Phys.lean over Model/EnginePhysPar.lean, the ascent_par! code with its concurrent indices, the frozen / unfrozen protocol and the per-thread CRelNoIndex shards): construct_pool_irrelevant, pool_independent, rerun_other_pool - for every schedule, whatever the pool sizes at construction, first run and re-run, the facts are the same and no run panics (corollaries of runPhysPar_eq_leastModel).",
   design_ref="DESIGN.md §8 C20, §13", note=ENGINE_NOTE),
 "C06": dict(
   engine="tie-B-engine",
   technique="Lean 4 invariance theorems for the least model (permutations, renamings of relations / variables / constants, swaps of independent items) transferred to run() by C01 + metamorphic compiled-program correspondence",
   text="Lean 4 theorems: the least model is invariant under permuting rules, head clauses and input rows (derivable_perm_rules/heads, inputDB_perm), "
        "under injective renaming of relations (derivable_rename_rels), of variables (derivable_rename_vars, any interpretation whose expressions are renamed "
        "soundly), under swapping adjacent body items neither of which binds a variable the other mentions (sat_swap_indep / derivable_swap_indep, decidable "
        "syntactic criterion relative to the variables already bound) and commutes with every injective map on the constant domain for interpretations that "
        "commute with it - i.e. programs without interpreted functions (derivable_rename_consts); all transferred to what run() computes (run_perm_invariant "
        "and friends, via run_eq_leastModel). Tied metamorphically: each base program is compiled in permuted / renamed / re-typed (i64 -> i32 -> String) "
        "variants that must all equal the base's naive least model (mapped). Props/C06Phys.lean: the same invariances for the physical engines (ascent! and ascent_par!, any schedules / pools / SCC orders): permuted rules, permuted heads, renamed relations, permuted input vectors give the same facts.",
   design_ref="DESIGN.md §8 C06", note=ENGINE_NOTE + " Names starting with two underscores and `_self` are reserved by the generated code; a user variable named like the repeated-variable gensym (`x_`) is finding F10 (see C07)."),
 "C09": dict(
   engine="tie-B-engine",
   technique="Lean 4 theorems for the parts with logical content (re-declaration resolution, initialised relations) + compiled-variant correspondence for everything the model erases",
   text="Lean 4 theorems: dedup_all_keep_last_by and the reverse name lookup select the same (last) declaration, so a later re-declaration wins consistently "
        "(redeclaration_last_wins, redeclaration_unique, all declaration lists); `relation r(..) = e` starts from exactly the tuples of e: run() on the Default "
        "value computes the least model over the initialisers with the initialiser as row prefix (init_starts_from_initialiser), and with aggregation every "
        "tuple of an initialiser is handed to aggregators once (init_agg_view_each_once; finding F3, fixed by 8b2e261). measure_rule_times, generate_run_timeout, generic struct "
        "signatures, ascent_run!/ascent_run_par! capture, include_source! at first/middle/last position, ascent_par! and (thorough) segment-codegen are erased by "
        "the model: every variant of every base program is compiled and must equal the base's model and naive oracle.",
   design_ref="DESIGN.md §8 C09", note=ENGINE_NOTE + " For the erased configuration dimensions the claim rests on the correspondence (partial); rustc's macro_rules expansion of ascent_source!/include_source! is trusted."),
 "C03": dict(
   engine="tie-B-engine",
   technique="Lean 4 proof: lattice programs reach the least closed database (one row per key, closed, below every closed database) + compiled lattice-program correspondence",
   text="Lean 4 theorems for every aggregation-free program mixing relations and lattice relations, every interpretation whose join_mut satisfies LatOrder "
        "(upper bound, least, flag false => nothing to change; instantiated for the i64 / Dual<i64> columns via the C16 model), every input with one row per key, "
        "serial mode: after run() every lattice relation has exactly one row per key (run_lattice_key_unique), the result is closed - every rule instance over the "
        "FINAL values has its head dominated, i.e. every increase was propagated (run_lattice_closed) - and for programs using lattice values monotonically it "
        "is below every key-unique closed database: the least fixed point (run_lattice_least); relation rows stay sets (run_lattice_rel_rows_set). Tied by "
        "compiled generated programs over i64 / Dual<i64> / Set<i64> / Option<i64> lattices (seeded, recursive through the lattice, saturating increments) vs "
        "the model (rows with multiplicities) and a Kleene-iteration oracle. Props/C03ND.lean: the lattice engine as a relation (any processing order; every micro-step reads the row values of any state the pass has already been through - snapshot, live, in between; complete on the rows unchanged during the pass): every such execution reaches the least fixed point (ndl_least_fixed_point), the deterministic model is one (deterministic_is_ndl); tie B has BoundedSet lattice columns too. Props/C03Phys.lean: the generated code with lattices over its physical indices (key index, set-valued row-number indices, in-place join, re-queue into every new index) reaches the least fixed point (runPhysLat_spec, forward simulation onto the relation), tied by `eng runpl` on every second input; re-use histories (run(); rows removed from the lattice's vector; run()) on both sides.",
   design_ref="DESIGN.md §8 C03, §13.4", note=ENGINE_NOTE + " The executable model reads lattice rows as a snapshot at rule-variant start; the real code reads live values: both are executions of the nondeterministic lattice engine of Props/C03ND.lean, which is proved to reach the least fixed point; parallel lattices: C02."),
 "C04": dict(
   engine="tie-B-engine",
   technique="Lean 4 proof that run() of a stratified program = least model with every agg/negation evaluated on the FINAL relation, each tuple once + compiled-program correspondence",
   text="Lean 4 theorems for every stratified program with aggregation/negation (no lattices), every interpretation incl. arbitrary user aggregators, every "
        "duplicate-free input: the list handed to an aggregator is a duplicate-free enumeration of exactly the relation's rows (agg_view_each_once); when the SCC "
        "of an aggregating rule runs, the aggregated relation already has its final content (agg_sees_final); and run() computes exactly the least model in which "
        "every agg / negation is evaluated against the final relation (run_agg_eq_model; from any well-formed value: run_agg_from_eq_model). Since fix 8b2e261 "
        "these hold from ANY program value with duplicate-free rows: second and later runs, runs after pushes or an initialiser (agg_view_each_once_from, "
        "run_agg_eq_model_from, second_run_agg_view_each_once). Tied by compiled generated programs with count/sum/min/max/not at "
        "stratum depth 1-3 over every mix of bound / wildcard / aggregated columns, vs model and stratified naive oracle; F15 (caller duplicates) is a known finding whose "
        "bug-faithful model prediction is matched exactly; F2/F3 are fixed and their witnesses must pass. Props/C04Phys.lean: the generated code over its PHYSICAL indices with aggregation / negation items (index_get with the evaluated key arguments on the index the plan chose, stored version of the aggregated relation) computes the stratified model, every aggregation over the final rows, each tuple once (runPhys_agg_eq_model, via runND_agg_spec: every execution of the nondeterministic engine does); tied by `eng runp` on every fourth input. Props/C04Lat.lean: an aggregate / negation over a LATTICE of a lower stratum sees one row per key with the final value (agg_over_lattice_one_row_per_key; abstract engine, serial). Props/C04LatSem.lean: the final database of a stratified program with lattices AND aggregation is closed under the rules with aggregates evaluated on the final rows, and least for monotone programs (run_mixed_closed, run_mixed_least).",
   design_ref="DESIGN.md §8 C04", note=ENGINE_NOTE + " Aggregation over lattices (serial: tie of this check; parallel: tie of C02, F5 fixed) is outside the theorems."),
 "C18": dict(
   engine="tie-C-ds",
   technique="Lean 4 theorems over models of uf.rs / trrel_union_find.rs + exhaustive and random op-history correspondence (tie C) + closure/partition oracle",
   text="Lean 4 theorems: for UnionFind, EVERY history of add/find/find_item/union (on arbitrary existing ids)/union_add runs without panic, keeps the "
        "well-formedness invariant (parents in range, ranks increase to the root, next pointers form one cycle per class, items/elems agree; find's "
        "path halving never exhausts its fuel) and two items are in the same class iff connected by the unions performed (uf_run_ok, uf_same_class_iff). "
        "For TrRelUnionFind, for EVERY history of add (including the back-edge collapse through merge_multiple): no unwrap/assert fails, the fuel of "
        "get_dominant_id always suffices, both self-checks hold, contains <-> reflexive transitive closure of the added pairs restricted to mentioned "
        "elements (tr_contains_iff, tr_run_inv, tr_collapse_run), set_of/rev_set_of/iter_all enumerate exactly the closure without duplicates and count_exact "
        "is its size (tr_set_of, tr_rev_set_of, tr_iter_all, tr_count_exact). "
        "Tie: every `tr add` history of length <= 4 over 4 elements (canonical to 5/6), all uf histories "
        "of length <= 3/4, PRNG histories to length 60, all queries and consistency checks after each op, real code vs Lean model vs Floyd-Warshall/partition oracle.",
   design_ref="DESIGN.md §8 C18",
   note="Lean kernel; axioms propext/Classical.choice/Quot.sound; models hand-written statement by statement, tied by op-history diffing; "
        "hashbrown/std collections and Cell mutation are modelled as state threading; UnionFind::ok() itself is exercised (hook verif_ok), not proved."),
 "C01": dict(
   engine="tie-B-engine",
   technique="Lean 4 proof of semi-naive evaluation = least model (all programs, inputs, interpretations, fuels) + compiled-program correspondence (tie B)",
   text="Lean 4 theorems, kernel-checked for EVERY aggregation-free relational program, every interpretation of its embedded Rust expressions, every input "
        "database, every valid SCC order and every fuel: if the engine model returns, each relation holds exactly the least model (run_sound, run_complete, "
        "run_eq_leastModel, run_exit_closed), proved via the version-vector coverage lemma (versionsBase_covers, all n) and SCC/stratum invariants, from any "
        "well-formed start value. The model is tied to the code on every run: PRNG-generated programs (forced recursion shapes, simple-join special cases, "
        "size-skewed inputs) are compiled with the real ascent! macro and their relations (with multiplicities) and iteration counts diffed against the model "
        "and a naive least-model oracle. Tie D: versions_base is re-translated from ascent_mir.rs on every run and proved equal to the model's versionsBase for all n "
        "(Props/TieD.lean versionsBase_eq). Plan level (Model/Plan.lean, Props/C01Plan.lean): the index look-ups on the columns chosen by the compiler, the "
        "nested loops of a simple join and the swapped copy of a reorderable rule enumerate the same environments as the filter semantics, for every rule "
        "(index_selection_sound_complete, reordering_sound; guard_needed shows the reorderable flag is necessary). Physical level (Model/EnginePhys.lean, "
        "Props/C01Phys.lean): the generated code as it really runs - a full index and one value-keyed hash index per column set, three versions of each inside an SCC, "
        "update_indices, the head update through insert_if_not_present, the merges with their size-based swaps (C19's index models), plan-directed index_get / iter_all, "
        "the 'some body relation is empty' guard and the len_estimate choice between the two copies of a reorderable simple join - computes exactly the least model "
        "(runPhys_eq_leastModel; forward simulation onto the nondeterministic engine of Proofs/NDEngine.lean, which allows ANY enumeration of an iteration's head rows). "
        "Its hypotheses (desugared, well-scoped rules; planOk) are decidable and evaluated by the driver on every generated program; every tie-B case is also run "
        "through this model (`eng runp`); re-use histories (run(); rows removed from relation vectors; run() again) are replayed on both sides.",
   design_ref="DESIGN.md §8 C01, §3.1, §13.4", note=ENGINE_NOTE),
 "C05": dict(
   engine="tie-B-engine",
   technique="Lean 4 invariant proof (rows = previous rows ++ distinct new tuples) + one-winner race theorem + compiled-program multiplicity correspondence",
   text="Lean 4 theorems: after run() from any well-formed value every row vector is the previous vector followed by pairwise distinct tuples none of which "
        "was present (rows_set, inputs_kept, rows_count), for all programs/inputs/interpretations; for the parallel head update, exactly one of the workers "
        "racing on a tuple wins insert_if_not_present in every interleaving of the atomic steps (par_exactly_one_push, from C19). Tied by compiled serial and "
        "ascent_par! twins of generated programs: row multiplicities of every relation are compared with the model and checked against the input's own "
        "multiplicities, incl. a many-workers-same-tuple stress program. Props/C05Phys.lean: the statement over the physical engines (generated code of ascent! incl. aggregation, and of ascent_par! for every schedule / pool): result vector = start vector ++ pairwise distinct new rows, each derivable fact stored exactly once, a duplicate in the result is a duplicate the caller supplied.",
   design_ref="DESIGN.md §8 C05", note=ENGINE_NOTE + " Partial for the parallel half: shard-lock atomicity is an assumption; real interleavings are exercised, not proved."),
 "C13": dict(
   engine="tie-B-engine",
   technique="Lean 4 restart lemma + idempotence/monotone re-run theorems over histories + compiled-program history correspondence",
   text="Lean 4 theorems for every aggregation-free serial program and every history run;run and run;push;run from any well-formed value: a second run() appends "
        "nothing (rerun_idempotent: row vectors literally unchanged) and a re-run after pushing facts into any relations equals the least model of the union "
        "of all inputs (monotone_rerun, via lfp(lfp I ∪ J) = lfp(I ∪ J)). For EVERY stratified program with aggregation / negation: the stratified restart theorem "
        "(restart_agg: a completed run from any value between the inputs and the stratified model ends in the stratified model) and its corollary rerun_idempotent_agg "
        "(Props/C13Agg.lean; aggregators insensitive to input order, proved for the library ones: std_aggPermInvariant). Tied by driving compiled programs through generated histories of run/push/dump. Physical level (Props/C13Phys.lean): rerun_idempotent_phys, monotone_rerun_phys over the generated code's hash indices (Model/EnginePhys.lean). Props/C13PhysAgg.lean: over the physical indices also for stratified programs with aggregation / negation (restart_phys_agg, rerun_idempotent_phys_agg). Props/C13PhysLat.lean: the physical engine with lattices from any legal value (runPhysLat_from) and idempotence of run() (rerun_idempotent_physLat). Props/C13PhysPar.lean: the same for ascent_par! over its concurrent indices, the two runs in ANY two pools under ANY two schedules (rerun_idempotent_physPar, monotone_rerun_physPar, history_pool_irrelevant_physPar); tie `eng runpp` on parallel histories; Props/C13PhysParAgg.lean: with stratified aggregation / negation (rerun_idempotent_physPar_agg, restart_physPar_agg); BYODS relations (trrel, eqrel, trrel_uf) in run; run; push; run histories against the explicit-closure twin.",
   design_ref="DESIGN.md §8 C13", note=ENGINE_NOTE + " Parallel re-runs are tied (compiled histories), not proved; F2 and F4 are fixed."),
 "C14": dict(
   engine="tie-B-engine",
   technique="Lean 4 theorems over an arbitrary deadline oracle (all crash points, repeated interruptions) + exhaustive crash-point correspondence under a virtual clock",
   text="Lean 4 theorems for an ARBITRARY deadline oracle over the clock readings: run_timeout=true leaves the full fixed point (timeout_true_complete); "
        "run_timeout=false leaves only derivable tuples, keeps every input and a well-formed value (timeout_false_sound); after any number of interruptions "
        "at any points a completing call leaves exactly the least model of the original inputs (resume_complete); the same for every stratified program with "
        "aggregation / negation relative to an uninterrupted reference run (timeout_false_sound_agg, resume_complete_agg, Props/C13Agg.lean). Tied by compiled programs with "
        "#![generate_run_timeout] under the virtual-clock hook, for EVERY crash point k of every case plus repeated interruptions. Physical level (Props/C13Phys.lean over Model/EnginePhysTimeout.lean): timeout_sound_phys, timeout_true_complete_phys, resume_complete_phys (any number of interruptions: the indices dropped by early returns are rebuilt). Props/C13PhysAgg.lean: over the physical indices also for stratified programs with aggregation / negation, relative to an uninterrupted reference run (timeout_false_sound_phys_agg, timeout_true_complete_phys_agg, resume_complete_phys_agg). Props/C13PhysLat.lean: run_timeout of the physical engine with lattices (timeout_sound_physLat, resume_complete_physLat); tie `eng runtopl`. Props/C14PhysPar.lean (Model/EnginePhysParTimeout.lean): run_timeout of ascent_par! programs over the concurrent indices - every schedule, pool and deadline: no panic, sound, `true` = least model, resumable in any pool (timeout_never_panics_physPar, timeout_sound_physPar, timeout_true_complete_physPar, resume_complete_physPar); tie `eng runtopp`. Props/C14PhysParLat.lean (Model/EnginePhysParLatTimeout.lean): the same for ascent_par! programs WITH lattices (timeout_sound_physParLat, timeout_true_complete_physParLat, resume_complete_physParLat); tie `eng runtoppl`. Props/C14PhysParAgg.lean: ascent_par! with stratified aggregation / negation (timeout_never_panics_physPar_agg, timeout_true_model_physPar_agg, timeout_false_sound_physPar_agg, resume_complete_physPar_agg).",
   design_ref="DESIGN.md §8 C14", note=ENGINE_NOTE + " The wall clock is replaced by the hook (ascent::internal::verif); lattice programs: Props/C13L."),
 "C19": dict(
   engine="tie-C-ds",
   technique="Lean 4 refinement theorems (index model -> abstract multimap, all op sequences, all interleavings of atomic steps) + op-sequence correspondence (tie C)",
   text="Lean 4 theorems, kernel-checked for all operation sequences: the model of every index type (hash-vector, full, lattice, no-index, "
        "their DashMap-based concurrent counterparts, the combined view) refines an abstract multimap/set/map: lookups after any insert sequence, "
        "iteration returns every entry once, the merge law total'=total+delta, delta'=new, new'=empty through both swap branches, freeze/unfreeze "
        "preserve contents and exactly the wrong-state operations panic, concurrent inserts are order-independent (every interleaving of the atomic "
        "shard-locked steps), insert-if-absent has exactly one winner per absent key in every interleaving, and CRelNoIndex's zip-merge keeps everything "
        "iff `from` has no more shards than `to` (counter-witness proved). The hand-written model is tied to the real code on every run by running "
        "hundreds of generated op scenarios (incl. forced </=/> merges, wrong-state panics, rayon iterators, multi-threaded phases and racing "
        "insert-if-absent rounds) through the real index types and the Lean driver and diffing, with an independent multimap oracle.",
   design_ref="DESIGN.md §8 C19",
   note="Lean kernel; axioms propext/Classical.choice/Quot.sound; partial for the concurrent half: DashMap shard-lock atomicity, real memory "
        "ordering and the unsafe shard access are assumptions of the interleaving theorems, exercised by multi-threaded runs but not proved."),
 "C16": dict(
   engine="tie-C-ds",
   technique="Lean 4 theorems (LawfulLat for every shipped lattice type, compositional over nesting) + model parts regenerated from the Rust source by a translator and proved equal to the hand model (tie D) + exhaustive pair correspondence (tie C)",
   text="Lean 4 theorems, kernel-checked for ALL values and every nesting depth: a structure LawfulLat (partial order, join/meet are lub/glb "
        "of the type's PartialOrd, join_mut/meet_mut leave the same value and return true exactly when the receiver changed, bounds extremal) is "
        "proved for the model of every shipped Lattice impl (primitives, bool, Option, Box, Rc/Arc, Reverse, Dual, OrdLattice, lexicographic tuples, "
        "Product of tuples of any arity and of arrays, Set, BoundedSet incl. its size invariant, ConstPropagation) compositionally, and the algebraic "
        "laws of the statement (commutative, associative, idempotent, absorbing, a<=b iff join=b iff meet=a) are derived generically. The hand-written "
        "model is tied to ascent_base on every run by evaluating every operation on every ordered pair of small-carrier values of 52 registered types "
        "(incl. nested compositions) on both sides and diffing; the laws are also checked on the implementation's own answer table. Tie D: ConstPropagation "
        "(partial_cmp, meet, join, meet_mut, join_mut), combine_orderings and Option's meet_mut / join_mut are RE-TRANSLATED from the Rust source on every run "
        "(tools/rs2lean.py) and proved equal to the hand-written model (Props/TieD.lean), so a changed match arm breaks a proof.",
   design_ref="DESIGN.md §8 C16",
   note="Lean kernel; axioms propext/Classical.choice/Quot.sound; model hand-written arm by arm after lattice*.rs, tied by exhaustive pair "
        "correspondence; std's derived PartialOrd/Ord, BTreeSet and Rc/Arc::make_mut are modelled by their value semantics."),
 "C17": dict(
   engine="tie-C-ds",
   technique="Lean 4 theorems over a model of aggregators.rs + differential correspondence (tie C) against the real aggregators",
   text="Lean 4 theorems (kernel-checked, all lists / all honest size hints / all rational p in [0,100]) about a hand-written model of "
        "ascent/src/aggregators.rs: min/max are members and bounds, sum = List.sum, count = length for every honest size_hint, mean = "
        "exact fraction, not, percentile total with the prescribed rank and permutation-invariant; the model is tied to the code on every "
        "run by running model and real aggregators on the same op file (exhaustive small lists + PRNG lists, columns up to 20 001 rows, one "
        "aggregator value applied to several groups in turn) and diffing.",
   design_ref="DESIGN.md §8 C17",
   note="Lean kernel; axioms propext/Classical.choice/Quot.sound; model hand-written, tied by correspondence (harness/ds, Lean driver, "
        "Python oracle); f64 rounding in mean/percentile and integer overflow in sum are outside the model."),
}

def main():
    checks = []
    for pid in ALL:
        if pid not in CLAIMS:
            continue
        c = CLAIMS[pid]
        checks.append({
            "property_id": pid,
            "quick_cmd": f"./check {pid} --tier quick",
            "thorough_cmd": f"./check {pid} --tier thorough",
            "evidence_file": f"evidence/{pid}.json",
            "replay_cmd_template": f"./check {pid} --replay {{path}}",
            "engine": c["engine"],
            "level_claimed": {"category": "proof", "text": c["text"], "design_ref": c["design_ref"]},
            "level_note": c["note"],
            "technique": c["technique"],
        })
    na = [{"property_id": p, "reason": "no check registered yet: the Lean model and correspondence for this property are still being built (see DESIGN.md §12 work order); nothing is claimed"} for p in ALL if p not in CLAIMS]
    m = {
        "version": 1,
        "setup_cmd": "./setup.sh",
        "hooks": {
            "guard": "cargo feature verif-hooks (crates ascent, ascent_macro, ascent-byods-rels)",
            "enable": "harness crates depend on /repo by path with features=[\"verif-hooks\"]; cargo test -p ascent_macro --features verif-hooks for the in-process macro driver",
            "baseline_off_cmd": "cd /repo && cargo test --workspace --no-fail-fast --offline",
            "source_commits": HOOK_COMMITS,
            "add_only": True,
        },
        "engines": [
            {"name": "lean-model", "path": "lean/", "serves_properties": sorted(CLAIMS), "kind_free_text": "Lean 4 model, specs and theorems (lake project, core Lean; proofs may import single Mathlib modules)"},
            {"name": "tie-B-engine", "path": "harness/engine", "serves_properties": [p for p in sorted(CLAIMS) if CLAIMS[p]["engine"] == "tie-B-engine"], "kind_free_text": "generated Ascent programs compiled by rustc against /repo (several binaries) + Lean engine driver + naive oracle; outputs diffed"},
            {"name": "tie-C-ds", "path": "harness/ds", "serves_properties": [p for p in sorted(CLAIMS) if CLAIMS[p]["engine"] == "tie-C-ds"], "kind_free_text": "Rust op-sequence harness linking the real ascent crates + Lean driver executable; outputs diffed"},
            {"name": "tie-A-macro", "path": "tools/vlib/tiea.py", "serves_properties": sorted(set([p for p in CLAIMS if CLAIMS[p]["engine"] == "tie-A-macro"] + ["C01"])), "kind_free_text": "generated programs fed in process to the real macro pipeline (hook test verif_driver in ascent_macro, feature verif-hooks): outcome / MIR plan summary diffed against the Lean model"},
        ],
        "checks": checks,
        "not_applicable": na,
        "notes": "Technique family: machine-checked proof in Lean 4 over a hand-written model, tied to the code by differential correspondence on every run. Known findings: KNOWN_FINDINGS.json. Seeded breaking changes: seeded/.",
    }
    json.dump(m, open(os.path.join(V, "MANIFEST.json"), "w"), indent=1)

HOOK_COMMITS = ["a8c1e7a", "86ba386", "5c8fcf4", "f309c9e"]
if __name__ == "__main__":
    main()
