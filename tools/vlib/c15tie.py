"""C15 tie A plumbing: the in-process driver of the real macro pipeline (ascent_macro/src/verif_driver.rs, cargo feature
verif-hooks) is built once as a test binary and then run directly, sharded over the CPUs; programs of a shape that once did not
terminate (macros invoking themselves twice per level: 2^100 expansions before fix deae510) are run one per process under a generous
time limit — a safety net: exceeding it is the outcome `hang`, which the check counts as a failure.  Error messages are mapped to kinds by regular expressions."""
import json, os, re, subprocess, tempfile, threading, time
from . import core

KIND_RE = [
    ("undefRel", r"relation `[^`]*` is not defined"),
    ("arity", r"wrong arity for relation"),
    ("shadow", r"shadows another variable with the same name"),
    ("strat", r"use of aggregated relation `[^`]*` cannot be stratified"),
    ("recMacro", r"recursively defined Ascent macro"),
    ("undefMacro", r"undefined macro"),
    ("macroArgs", r"expected more arguments"),
    ("includeInSource", r"`ascent_source`s cannot contain `include_source!`"),
    ("dsLattice", r"`lattice`s cannot have custom data structure providers"),
    ("multiDs", r"multiple `ds` attributes specified"),
    ("unknownAttr", r"unrecognized attribute\. recognized attributes are"),
    ("parOnlyAttr", r"attribute only allowed in parallel Ascent"),
    ("attrOnItem", r"unexpected attribute\(s\)"),
    ("sourceAttr", r"unexpected attribute\. Only `doc` attribute is allowed"),
    ("attrShape", r"unexpected token in attribute|expected attribute arguments in parentheses|expected `\(`"),
    ("emptyLattice", r"empty lattice is not allowed"),
    ("aggBoundArg", r"aggregated variable `[^`]*` must be an argument of the aggregated relation"),      # fix 5862f99 (was FM5)
    ("sigName", r"the identifiers of struct and impl must match"),                                       # fix dfbe0be (was FM6)
    ("sigGenerics", r"the generic parameters of struct \(.*\) and impl \(.*\) must match"),
    ("emptyDisj", r"empty disjunction"),                                                                 # fix 361e42e (was FM4)
    ("unexpectedToken", r"^unexpected token$"),
    ("lex", r"^lex: "),
]
# former panic sites (FM5, FM6, FM7: all fixed). The model never answers `panic`, so any of these is a violation; the names only make the report readable.
PANIC_RE = [
    ("unwrapNone", r"called `Option::unwrap\(\)` on a `None` value"),
    ("assertSigName", r"The identifiers of struct and impl must match"),
    ("assertSigGenerics", r"The generic parameters of struct"),
    ("panicFlatten", r"Punctuated::push_punct: cannot push punctuation"),
]


def classify(outcome):
    """'ok' | 'err <Kind>' | 'panic <Site>' | 'hang'"""
    if outcome == "ok" or outcome == "hang": return outcome
    if outcome.startswith("err "):
        msg = outcome[4:]
        for k, rx in KIND_RE:
            if re.search(rx, msg): return "err " + k
        return "err parse"
    if outcome.startswith("panic"):
        msg = outcome[6:]
        for k, rx in PANIC_RE:
            if re.search(rx, msg): return "panic " + k
        return "panic other"
    return "none"


def target_dir():
    return core.target_dir() + "-macro"


def build_driver():
    """-> (path of the test binary | None, log, wall)"""
    e = core.env_offline(); e["CARGO_TARGET_DIR"] = target_dir()
    t0 = time.time()
    p = subprocess.run(["cargo", "test", "--offline", "-p", "ascent_macro", "--features", "verif-hooks", "--no-run", "--message-format=json"],
                       cwd=core.repo_dir(), env=e, stdout=subprocess.PIPE, stderr=subprocess.PIPE, text=True, timeout=3600)
    exe = None
    for line in p.stdout.splitlines():
        if not line.startswith("{"): continue
        try: m = json.loads(line)
        except ValueError: continue
        if m.get("reason") == "compiler-artifact" and m.get("executable") and m.get("profile", {}).get("test") and m.get("target", {}).get("name") == "ascent_macro":
            exe = m["executable"]
    return (exe if p.returncode == 0 else None), p.stderr[-3000:], time.time() - t0


_libdir = None
def libdir():
    global _libdir
    if _libdir is None:
        _libdir = subprocess.run(["rustc", "--print", "target-libdir"], stdout=subprocess.PIPE, text=True).stdout.strip()
    return _libdir


def run_file(exe, lines, timeout):
    """one process over a list of `id\\tkind\\ttext` lines -> {id: (outcome, mir)} ; ids without a record were not reached"""
    d = tempfile.mkdtemp(prefix="c15_", dir=os.path.join(core.VERIF, "harness"))
    inp, outp = os.path.join(d, "in.txt"), os.path.join(d, "out.txt")
    open(inp, "w").write("\n".join(lines) + "\n")
    e = dict(os.environ); e["VERIF_PROGRAMS"] = inp; e["VERIF_OUT"] = outp
    e["LD_LIBRARY_PATH"] = libdir() + (":" + e["LD_LIBRARY_PATH"] if e.get("LD_LIBRARY_PATH") else "")
    res, timed_out = {}, False
    try:
        subprocess.run([exe, "verif_driver::verif_driver", "--exact", "--test-threads", "1"], env=e, stdout=subprocess.DEVNULL, stderr=subprocess.DEVNULL, timeout=timeout)
    except subprocess.TimeoutExpired:
        timed_out = True
    if os.path.exists(outp):
        cur = None
        for l in open(outp, errors="replace").read().split("\n"):
            if l.startswith("== "): cur = l[3:]; res[cur] = [None, None]
            elif cur is not None and l.startswith("outcome "): res[cur][0] = l[8:]
            elif cur is not None and l.startswith("mir "): res[cur][1] = l[4:]
    for f in (inp, outp):
        if os.path.exists(f): os.remove(f)
    os.rmdir(d)
    return res, timed_out


def run_programs(exe, progs, alone=(), shard_timeout=600, alone_timeout=30):
    """progs / alone: [(id, kind, text)] -> {id: outcome string}; `alone`: one process per program, exceeding the time limit is reported as 'hang'"""
    n = max(1, min(core.NCPU, (len(progs) + 199) // 200))
    shards = [progs[k::n] for k in range(n)]
    out, lock, ths = {}, threading.Lock(), []
    def work(sh):
        todo = list(sh)
        while todo:
            res, to = run_file(exe, [f"{i}\t{k}\t{t}" for i, k, t in todo], shard_timeout)
            with lock:
                for i, (o, _) in res.items():
                    if o is not None: out[i] = o
            done = [i for i, (o, _) in res.items() if o is not None]
            rest = [x for x in todo if x[0] not in done]
            if not rest: break
            # the first unanswered program made the process die or hang: record it, continue behind it
            with lock: out[rest[0][0]] = "hang" if to else "panic process died (abort / stack overflow)"
            todo = rest[1:]
    def hz(x):
        res, to = run_file(exe, [f"{x[0]}\t{x[1]}\t{x[2]}"], alone_timeout)
        o = res.get(x[0], [None])[0]
        with lock: out[x[0]] = o if o is not None else ("hang" if to else "panic process died (abort / stack overflow)")
    for sh in shards:
        if sh: ths.append(threading.Thread(target=work, args=(sh,)))
    sem = threading.Semaphore(max(2, core.NCPU // 2))
    def hz_lim(x):
        with sem: hz(x)
    for x in alone: ths.append(threading.Thread(target=hz_lim, args=(x,)))
    for t in ths: t.start()
    for t in ths: t.join()
    return out
