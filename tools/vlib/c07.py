"""C07 — every surface form means exactly its documented core expansion."""
import copy
from . import core, eng, engcheck, sgen, surfcheck, surface as S

THEOREMS = ["products_correct", "desugarFlat_correct", "desugar_correct", "desugarRule_isSome", "cons_split_heads", "consS_fact", "desugarRules_correct", "derivable_desugar",
            "stdOps_sugarSound", "stdOps_varsSound", "documented", "f10_capture",
            "surface_to_physical", "desugarRule_desugared", "desugarRules_desugared", "surface_to_physical'", "surface_to_physical_agg"]
TRUSTED = ["Lean 4.33.0 kernel", "axioms: propext, Classical.choice, Quot.sound only (audited per theorem)",
           "statement: Props/C07.lean; Props/C07Phys.lean + Props/C07Desugared.lean compose it with the physical-index engine theorem of C01: the code generated for the desugared rules, "
           "run over its hash indices, ends with the least model of the DOCUMENTED meaning of the surface rules (surface_to_physical'); the output of the desugaring model is a fixed "
           "point of rule_desugar_repeated_vars (desugarRules_desugared), so that hypothesis of the engine theorems is discharged for programs coming out of the front-end model",
           "tools/vlib/surface.py expand_spec is the reading of the documentation the oracle uses (written against README.MD / the statement, not against ascent_syntax.rs)",
           "tie B: each generated surface program is compiled twice with the real macros (sugared text, printed documented expansion) and run on the same inputs; "
           "both must equal the naive least model of the expansion; the Lean model of the implemented desugaring pipeline + engine model runs the same histories",
           "identifiers reserved by the generated code (two leading underscores) are exempt; `x_`-style capture is finding F10; all-columns-bound lattice clauses are finding F9"]

RESERVED = 1000      # Lean model: generated names are >= RESERVED; gsRep k = RESERVED + 8 k


# ------------------------------------------------------------------ class predicates of the known findings (code, not prose)

def flat_bodies(p, rule):
    fresh = S.Fresh(10 ** 6)
    body = S.expand_macros_body(rule["body"], p.get("macros", []), fresh)
    return S.products(body)


def f9_sites(p):
    """(rule index, flat body index, item index) of clauses on a LATTICE relation whose every column is an index column after the real
    desugaring: a variable bound before the clause, or an expression that mentions no variable first bound in the same clause"""
    out = []
    for ri, rule in enumerate(p["rules"]):
        for fi, flat in enumerate(flat_bodies(p, rule)):
            bound = set()
            for ii, it in enumerate(flat):
                if it[0] == "cl":
                    if p["rels"][it[1]].get("lat"):
                        same, allb = set(), True
                        for a in it[2]:
                            if a[0] == "v":
                                if a[1] in bound: continue
                                allb = False; same.add(a[1])
                            elif a[0] == "e":
                                if sgen.gen_vars(a[1]) & same: allb = False
                            else: allb = False
                        if allb: out.append((ri, fi, ii))
                    for a in it[2]:
                        if a[0] in ("v", "some"): bound.add(a[1])
                    for c in it[3]:
                        if c[0] in ("let", "iflet"): bound.add(c[1])
                elif it[0] in ("let", "iflet", "for"): bound.add(it[1])
                elif it[0] == "agg": bound.update(it[1])
    return out


def f9_bugspec(p, inp):
    """what the generated code computes for programs of the F9 class: an all-columns-bound clause on a lattice reads the all-columns index, which
    holds exactly the rows the relation had when run() started (head updates skip it), keyed by their values at that time"""
    q = copy.deepcopy(p)
    n = len(q["rels"])
    shadow = {}
    sites = {(ri, ii) for ri, fi, ii in f9_sites(p)}
    for ri, rule in enumerate(q["rules"]):
        if any(it[0] == "or" for it in rule["body"]): continue        # the targeted stream has no disjunctions around F9 sites
        for ii, it in enumerate(rule["body"]):
            if (ri, ii) in sites:
                m = it[1]
                if m not in shadow:
                    shadow[m] = len(q["rels"]); q["rels"].append({"arity": q["rels"][m]["arity"]})
                rule["body"][ii] = ("cl", shadow[m], it[2], it[3])
    inp2 = dict(inp)
    for m, s in shadow.items(): inp2[s] = list(inp.get(m, []))
    sets = surfcheck.spec_sets(S.expand_spec(q), inp2)
    return {r: sets[r] for r in range(n)}


def f10_class(p, names):
    """a user variable is spelled like the name the repeated-variable desugaring generates (`<var>_`, `<var>_<k>`, `expr_replaced_<k>`)"""
    import re
    for rule in p["rules"]:
        for flat in flat_bodies(p, rule):
            user = {names(v) for it in flat for v in item_vars(it)}
            for it in flat:
                if it[0] != "cl": continue
                same = set()
                for a in it[2]:
                    pref = None
                    if a[0] == "v":
                        if a[1] in same: pref = names(a[1])
                        same.add(a[1])
                    elif a[0] == "e" and sgen.gen_vars(a[1]) & same: pref = "expr_replaced"
                    if pref and any(re.fullmatch(re.escape(pref) + r"_\d*", u) for u in user): return True
    return False


def item_vars(it):
    out = set()
    def walk(x):
        if isinstance(x, tuple) and len(x) == 2 and x[0] in ("v", "var", "some") and isinstance(x[1], int): out.add(x[1])
        if isinstance(x, tuple) and len(x) == 3 and x[0] in ("let", "iflet", "for") and isinstance(x[1], int): out.add(x[1])
        if isinstance(x, (tuple, list)):
            for y in x: walk(y)
    walk(it)
    return out


# ------------------------------------------------------------------ targeted witness streams

def f9_programs(rng, n):
    """lattice m filled by a rule from s (and optionally given rows up front); later strata read m with every column bound"""
    out = []
    for i in range(n):
        r = rng.fork(f"f9_{i}")
        p = {"rels": [{"arity": 2}, {"arity": 1}, {"arity": 2, "lat": "max"}, {"arity": 1}, {"arity": 1}, {"arity": 2}], "macros": [], "rules": []}
        p["rules"].append({"heads": [(2, [("var", 0), ("var", 1)])], "body": [("cl", 0, [("v", 0), ("v", 1)], [])]})
        if r.chance(1, 2):
            p["rules"].append({"heads": [(2, [("var", 0), ("add", ("var", 1), 1)])], "body": [("cl", 2, [("v", 0), ("v", 1)], []), ("cl", 1, [("v", 1)], []), ("if", ("lt", ("var", 1), sgen.BOUND))]})
        shapes = r.shuffle(["const", "boundvar", "both", "expr", "samerep", "control"])[: r.range(2, 4)]
        if i == 0: shapes = ["const", "boundvar"]          # the hand witness of DESIGN.md §9
        for k, sh in enumerate(shapes):
            h = 3 + (k % 2)
            c = r.range(0, sgen.BOUND)
            if sh == "const": body = [("cl", 0, [("v", 0), ("_",)], []), ("cl", 2, [("v", 0), ("e", c)], [])]
            elif sh == "boundvar": body = [("cl", 0, [("v", 0), ("v", 1)], []), ("cl", 2, [("v", 0), ("v", 1)], [])]
            elif sh == "both": body = [("cl", 1, [("v", 0)], []), ("cl", 2, [("v", 0), ("v", 0)], [])]
            elif sh == "expr": body = [("cl", 1, [("v", 0)], []), ("cl", 2, [("v", 0), ("e", ("add", ("var", 0), r.range(0, 2)))], [])]
            elif sh == "samerep": body = [("cl", 2, [("v", 0), ("v", 0)], [])]                  # desugars to a condition: NOT in the class
            else: body = [("cl", 1, [("v", 0)], []), ("cl", 2, [("v", 0), ("v", 1)], [("if", ("le", ("var", 1), c))])]     # control: a free column
            p["rules"].append({"heads": [(h, [("var", 0)])], "body": body})
        out.append(p)
    return out


def f10_programs(rng, n):
    """user variables spelled like the generated repeated-variable names; variable RESERVED + 8k is the k-th name the Lean model generates"""
    out = []
    for i in range(n):
        r = rng.fork(f"f10_{i}")
        p = {"rels": [{"arity": 2}, {"arity": 1}, {"arity": 2}, {"arity": 2}], "macros": [], "rules": []}
        shape = ["var", "expr", "control"][i % 3] if i else "var"
        clash = RESERVED
        if shape == "var":
            p["rules"].append({"heads": [(2, [("var", 0), ("var", clash)])], "body": [("cl", 0, [("v", 0), ("v", 0)], []), ("cl", 1, [("v", clash)], [])]})
            names = {0: f"w{i}", clash: f"w{i}_"}
        elif shape == "expr":
            p["rules"].append({"heads": [(2, [("var", 0), ("var", clash)])], "body": [("cl", 0, [("v", 0), ("e", ("add", ("var", 0), 1))], []), ("cl", 1, [("v", clash)], [])]})
            names = {0: f"w{i}", clash: "expr_replaced_"}
        else:   # control: the clashing spelling exists but nothing in the rule is desugared
            p["rules"].append({"heads": [(2, [("var", 0), ("var", clash)])], "body": [("cl", 0, [("v", 0), ("v", 1)], []), ("cl", 1, [("v", clash)], [])]})
            names = {0: f"w{i}", clash: f"w{i}_"}
        p["rules"].append({"heads": [(3, [("var", 0), ("var", 1)])], "body": [("cl", 2, [("v", 0), ("v", 1)], []), ("cl", 0, [("v", 1), ("_",)], [])]})
        out.append((p, names, shape))
    return out


def bj_programs(rng, n):
    """a binder (`for` / `let` / `if let`) BEFORE the first two clauses, the second clause repeating the binder's variable: `for z in [..], foo(x, y), bar(y, z)`.
    The repeated variable is an equality test against bar's column; the two clauses look like a simple join, which must NOT be evaluated in swapped order
    (bar iterated first would re-bind z).  Inputs make foo's join index larger than bar (the swapped branch is chosen by len_estimate at run time)."""
    out = []
    for i in range(n):
        r = rng.fork(f"bj_{i}")
        p = {"rels": [{"arity": 2}, {"arity": 2}, {"arity": 3}, {"arity": 2}], "macros": [], "rules": []}
        c = r.range(0, 3)
        # (the fifth kind of binder: an aggregation whose RESULT variable the second clause repeats - `agg z = max(w) in foo(_, w), foo(x, y), bar(y, z)`)
        binder = [("for", 9, ("list", [c, c + 1])), ("let", 9, c), ("iflet", 9, ("somex", c)), ("for", 9, ("range", 0, 2)),
                  ("agg", [9], r.choice(["max", "min"]), [20], 1, ["_", ("b", 20)] if i % 2 else [("b", 20), "_"])][i % 5]
        second = [("v", 1), ("v", 9)] if i % 3 else [("v", 9), ("v", 1)]
        p["rules"].append({"heads": [(2, [("var", 0), ("var", 1), ("var", 9)])], "body": [binder, ("cl", 0, [("v", 0), ("v", 1)], []), ("cl", 1, second, [])]})
        p["rules"].append({"heads": [(3, [("var", 0), ("var", 2)])], "body": [("cl", 2, [("v", 0), ("_",), ("v", 2)], [])]})
        out.append(p)
    return out


def mh_programs(rng, n):
    """a recursive rule with SEVERAL head clauses one of which is read only by a later stratum: `reach(y), used(x, y) <-- reach(x), edge(x, y)` and
    `out(x, y) <-- used(x, y)`, `entered(y, x) <-- reach(y), used(x, y)`.  By the documented meaning (one rule per head clause) `used` lives in a stratum of its
    own; compiled as one rule it is written inside the loop of `reach`'s stratum although nothing there reads it.  On graphs with back edges the last productive
    iteration derives rows of `used` only."""
    out = []
    for i in range(n):
        p = {"rels": [{"arity": 2}, {"arity": 1}, {"arity": 2}, {"arity": 2}, {"arity": 2}, {"arity": 1}], "macros": [], "rules": []}
        heads = [(1, [("var", 1)]), (2, [("var", 0), ("var", 1)])]
        if i % 3 == 1: heads = heads[::-1]
        if i % 3 == 2: heads.append((5, [("add", ("var", 1), 0)]))                       # a third head, read by nobody
        p["rules"].append({"heads": heads, "body": [("cl", 1, [("v", 0)], []), ("cl", 0, [("v", 0), ("v", 1)], [])]})
        p["rules"].append({"heads": [(3, [("var", 0), ("var", 1)])], "body": [("cl", 2, [("v", 0), ("v", 1)], [])]})
        p["rules"].append({"heads": [(4, [("var", 1), ("var", 0)])], "body": [("cl", 1, [("v", 1)], []), ("cl", 2, [("v", 0), ("v", 1)], [])]})
        out.append(p)
    return out


def nw_programs(rng, n):
    """a negation whose arguments are ALL wildcards, `ok(x) <-- a(x), !err(_, _)`: by the documented expansion `agg () = not() in err(_, _)` it holds iff `err` is
    EMPTY; the look-up goes through the relation's empty-key index (in ascent_par! the `CRelNoIndex`, whose `index_get` answers Some(empty iterator) for an empty
    relation).  `err` is an input relation (i % 2 == 0) or derived in an earlier stratum; compiled as ascent! AND as ascent_par!"""
    out = []
    for i in range(n):
        p = {"rels": [{"arity": 1}, {"arity": 2}, {"arity": 1}, {"arity": 2}, {"arity": 1}], "macros": [], "rules": []}
        neg = ("neg", 1, [("_",), ("_",)]) if i % 2 == 0 else ("neg", 3, [("_",), ("_",)])
        body = [("cl", 0, [("v", 0)], []), neg]
        if i % 3 == 2: body = [neg, ("cl", 0, [("v", 0)], [])]
        p["rules"].append({"heads": [(3, [("var", 0), ("var", 1)])], "body": [("cl", 1, [("v", 0), ("v", 1)], [("if", ("lt", ("var", 0), ("var", 1)))])]})
        p["rules"].append({"heads": [(2, [("var", 0)])], "body": body})
        p["rules"].append({"heads": [(4, [("var", 0)])], "body": [("cl", 2, [("v", 0)], []), ("neg", 3, [("e", ("var", 0)), ("_",)])]})
        out.append(p)
    return out


def rh_programs(n):
    """a multi-head rule whose head list REPEATS a relation and then names another one - `node(x), node(y), src(x) <-- edge(x, y)` - with the readers of `src` (a positive clause, a
    negation, an aggregation) written ABOVE it: by the documented meaning (one rule per head clause) `src` is defined by that rule, so its readers belong to later strata
    wherever they stand in the text"""
    out = []
    for i in range(n):
        p = {"rels": [{"arity": 2}, {"arity": 1}, {"arity": 1}, {"arity": 1}, {"arity": 1}, {"arity": 1}], "macros": [], "rules": []}
        # readers of `src` with NO other dependency on the multi-head rule (positive / negated), and one that also reads `node`
        r_pos = {"heads": [(3, [("var", 0)])], "body": [("cl", 2, [("v", 0)], [])]}
        r_neg = {"heads": [(4, [("var", 0)])], "body": [("cl", 0, [("v", 0), ("_",)], []), ("neg", 2, [("e", ("var", 0))])]}
        r_both = {"heads": [(5, [("var", 0)])], "body": [("cl", 1, [("v", 0)], []), ("cl", 2, [("v", 0)], [])]}
        heads = [[(1, [("var", 0)]), (1, [("var", 1)]), (2, [("var", 0)])], [(1, [("var", 1)]), (1, [("var", 0)]), (2, [("var", 0)]), (1, [("add", ("var", 0), 0)])],
                 [(1, [("var", 0)]), (1, [("var", 1)]), (2, [("var", 0)]), (2, [("add", ("var", 0), 0)])]][i % 3]
        mh = {"heads": heads, "body": [("cl", 0, [("v", 0), ("v", 1)], [])]}
        p["rules"] = [[r_pos, mh], [r_neg, mh], [r_pos, r_neg, mh], [r_neg, r_pos, r_both, mh], [mh, r_pos, r_neg], [r_both, r_pos, mh, r_neg]][i % 6]
        out.append(p)
    return out


def rh_input(rng):
    n = rng.range(4, 8)
    e = list(dict.fromkeys((rng.below(n), rng.below(n)) for _ in range(rng.range(2, 6))))
    return {0: e, 1: [(rng.below(n + 2),)] if rng.chance(1, 2) else [], 2: [], 3: [], 4: [], 5: []}


def md_programs(n):
    """macro invocations with a PRIVATE variable inside a disjunction and again after it:  out(c) <-- start(a), (two!(a, b) | sc(a), let b = a), two!(b, c)  with
    macro two($x, $y) { e($x, mid), e(mid, $y) }  - by the documented expansion every invocation gets its own copy of `mid`, whichever alternative it sits in and
    however many invocations the OTHER alternatives contain (i % 4: alternatives swapped / two invocations in the first alternative / invocation before the disjunction)"""
    out = []
    for i in range(n):
        two = {"params": ["ident", "ident"], "body": [("cl", 0, [("v", ("p", 0)), ("v", 7)], []), ("cl", 0, [("v", 7), ("v", ("p", 1))], [])]}
        p = {"rels": [{"arity": 2}, {"arity": 1}, {"arity": 1}, {"arity": 1}], "macros": [two], "rules": []}
        inv = lambda a, b: ("mac", 0, [("id", a), ("id", b)])
        alt_m = [inv(0, 1)] if i % 4 != 2 else [inv(0, 5), inv(5, 1)]
        alt_s = [("cl", 2, [("v", 0)], []), ("let", 1, ("var", 0))]
        alts = [alt_m, alt_s] if i % 4 != 1 else [alt_s, alt_m]
        body = [("cl", 1, [("v", 0)], []), ("or", alts), inv(1, 2)]
        if i % 4 == 3: body = [("cl", 1, [("v", 0)], []), inv(0, 1), ("or", [[inv(1, 2)], [("cl", 2, [("v", 1)], []), ("let", 2, ("var", 1))]])]
        p["rules"].append({"heads": [(3, [("var", 2)])], "body": body})
        out.append(p)
    return out


def md_input(rng):
    n = rng.range(5, 8)
    e = [(k, k + 1) for k in range(n)] + [(rng.below(n), rng.below(n + 1)) for _ in range(rng.below(3))]
    return {0: list(dict.fromkeys(rng.shuffle(e))), 1: [(0,)] + ([(rng.below(3),)] if rng.chance(1, 2) else []), 2: [(x,) for x in range(n) if rng.chance(1, 3)], 3: []}


def nw_input(rng, j):
    a = [(x,) for x in rng.shuffle(list(range(rng.range(1, 5))))]
    err = [] if j % 2 == 0 else [(rng.below(4), rng.below(4)) for _ in range(rng.range(1, 3))]
    if j % 4 == 3: err = [(x, x - rng.below(2)) for x, _ in err]          # rows present, none passes `x < y`: r3 stays empty while r1 is not
    return {0: a, 1: list(dict.fromkeys(err)), 2: [], 3: [], 4: []}


def mh_input(rng):
    n = rng.range(3, 6)
    edges = [(i, (i + 1) % n) for i in range(n)]                                       # a cycle through the start node: the last edge leads back to a reached node
    if rng.chance(1, 2): edges += [(rng.below(n), rng.below(n)) for _ in range(rng.below(3))]
    if rng.chance(1, 3): edges.append((n - 1, n + 1))
    return {0: list(dict.fromkeys(rng.shuffle(edges))), 1: [(0,)], 2: [], 3: [], 4: [], 5: []}


def bj_input(rng):
    n = rng.range(5, 9)
    foo = [(rng.range(0, 5), y) for y in range(n)]                       # many distinct join keys
    bar = [(rng.range(0, n - 1), rng.range(0, 5)) for _ in range(rng.range(1, 3))]
    if rng.chance(1, 2): bar = [(b, a) for a, b in bar]
    return {0: foo, 1: list(dict.fromkeys(bar)), 2: [], 3: []}


def build(rng, tier):
    quick = tier == "quick"
    sel, have = sgen.select(rng.fork("c07"), sgen.gen_c07_program, sgen.C07_TAGS, 3 if quick else 12, 14 if quick else 70)
    units, cases = [], []
    build.coverage = {"tags": have, "general_programs": len(sel)}
    def add(pid, p, q, kind, inputs, nm=None, cls=None, bug=None, par=False):
        us = surfcheck.Unit(f"{pid}s", S.rs_module(f"{pid}s", p, nm), p, q, kind, {"class": cls})
        ux = surfcheck.Unit(f"{pid}x", S.rs_module(f"{pid}x", q, nm), None, q, kind + "-expanded")
        us_all = [us, ux]
        if par: us_all.append(surfcheck.Unit(f"{pid}p", S.rs_module(f"{pid}p", p, nm, macro="ascent_par"), p, q, kind + "-par", {"class": cls}))
        units.extend(us_all)
        for j, inp in enumerate(inputs):
            exp = surfcheck.spec_sets(q, inp)
            for u in us_all:
                inst = f"{u.pid}_{j}"
                meta = {"inp": inp, "kind": u.kind, "expected": exp}
                if u is us and cls:
                    meta["class"] = cls
                    if bug: meta["bugspec"] = bug(inp)
                cases.append(engcheck.Case(u.pid, inst, engcheck.std_history(inst, u.pid, inp), meta))
    for i, (p, q, tags) in enumerate(sel):
        inputs = [sgen.gen_input(rng.fork(f"g{i}i{j}"), p) for j in range(4 if quick else 12)]
        add(f"g{i}", p, q, "general", inputs)
    for i, p in enumerate(f9_programs(rng.fork("f9"), 4 if quick else 16)):
        q = S.expand_spec(p)
        inputs = []
        for j in range(4 if quick else 10):
            inp = sgen.gen_input(rng.fork(f"f9_{i}i{j}"), p)
            if i == 0 and j == 0: inp = {0: [(1, 5), (2, 7)], 1: [(1,), (5,)], 2: [], 3: [], 4: [], 5: []}
            if j % 2 == 0: inp[2] = []                          # lattice rows only derived / also given up front
            inp[3] = []; inp[4] = []
            inputs.append(inp)
        add(f"n{i}", p, q, "f9-stream", inputs, cls="F9" if f9_sites(p) else None, bug=lambda inp, p=p: f9_bugspec(p, inp))
    for i, p in enumerate(bj_programs(rng.fork("bj"), 5 if quick else 15)):
        q = S.expand_spec(p)
        inputs = [bj_input(rng.fork(f"bj_{i}i{j}")) for j in range(6 if quick else 16)]
        add(f"b{i}", p, q, "binder-join-stream", inputs)
    for i, p in enumerate(mh_programs(rng.fork("mh"), 3 if quick else 9)):
        q = S.expand_spec(p)
        inputs = [mh_input(rng.fork(f"mh_{i}i{j}")) for j in range(5 if quick else 14)]
        add(f"m{i}", p, q, "multi-head-side-stream", inputs)
    for i, p in enumerate(rh_programs(6 if quick else 18)):
        q = S.expand_spec(p)
        inputs = [rh_input(rng.fork(f"rh_{i}i{j}")) for j in range(4 if quick else 10)]
        add(f"r{i}", p, q, "repeated-head-relation-stream", inputs)
    for i, p in enumerate(md_programs(4 if quick else 8)):
        q = S.expand_spec(p)
        inputs = [md_input(rng.fork(f"md_{i}i{j}")) for j in range(4 if quick else 10)]
        add(f"d{i}", p, q, "macro-in-disjunction-stream", inputs)
    for i, p in enumerate(nw_programs(rng.fork("nw"), 3 if quick else 9)):
        q = S.expand_spec(p)
        inputs = [nw_input(rng.fork(f"nw_{i}i{j}"), j) for j in range(4 if quick else 12)]
        add(f"w{i}", p, q, "neg-all-wildcards-stream", inputs, par=True)
    for i, (p, names, shape) in enumerate(f10_programs(rng.fork("f10"), 3 if quick else 9)):
        q = S.expand_spec(p)
        nm = eng.Names(var=lambda n, names=names: names.get(n, f"v{n}"))
        inputs = [sgen.gen_input(rng.fork(f"f10_{i}i{j}"), p) for j in range(3 if quick else 8)]
        if i == 0: inputs[0] = {0: [(1, 1), (2, 2), (3, 4)], 1: [(1,), (2,), (7,)], 2: [], 3: []}
        add(f"c{i}", p, q, "f10-stream", inputs, nm=nm, cls="F10" if f10_class(p, nm.var) else None)
    return units, cases


def known(c, u, impl, model):
    """a failure is attributed to a listed finding only inside its class AND when the bug-faithful prediction is exactly what was observed"""
    cl = c.meta.get("class")
    if u.surface is None or not cl: return None
    if cl == "F9" and f9_sites(u.surface):
        got, _ = engcheck.dump_sets(impl[-1]) if impl[-1].startswith("r0:") else ({}, None)
        if got and all(got.get(r, set()) == s for r, s in c.meta["bugspec"].items()):
            return ("F9", "a clause on a lattice relation with every column bound reads the all-columns index, which head updates skip: `m(x, 5)` finds nothing "
                          "while the documented expansion `m(x, c), if c == 5` does")
    if cl == "F10" and model is not None and impl == model:
        return ("F10", "the repeated-variable desugaring names its fresh variable `<var>_` (typeable, process-wide counter): a user variable of that spelling is captured")
    return None


def check(tier, replay=None):
    def rule_text():
        return ("surface programs (disjunctions nested to depth 2, ?Some / ?None arguments, repeated variables, constant and expression arguments incl. ones mentioning "
                "earlier columns of the same clause, wildcards, negation, attached conditions, several head clauses, facts; every feature tag and combination forced by quota: "
                + ", ".join(sgen.C07_TAGS) + ") x inputs; sugared text and printed documented expansion both compiled by the real macros; targeted streams for F9 (lattice clause "
                "with every column bound) and F10 (user variable spelled like a generated name) with in-class / out-of-class controls")
    def extra(r, d, rng, tier):
        r.cov.update(getattr(build, "coverage", {}))
        # tie A (in-process pipeline, hundreds of programs): the sugared program, its documented expansion and the Lean desugaring model
        # must all be accepted (the quantifier is over programs the front end accepts; a rejection of one side only is a failing input)
        n = 150 if tier == "quick" else 1500
        progs, i = [], 0
        r2 = rng.fork("tieA")
        while len(progs) < n and i < n * 20:
            i += 1
            p, tags = sgen.gen_c07_program(r2.fork(f"a{i}"))
            q = sgen.usable(p)
            if q is not None: progs.append((p, q))
        batch = []
        for k, (p, q) in enumerate(progs):
            batch.append((f"s{k}", "ascent", surfcheck.tie_a_body(p))); batch.append((f"x{k}", "ascent", surfcheck.tie_a_body(q)))
        outs, timed_out, wall, log = surfcheck.tie_a(batch, timeout=900)
        model = None
        if surfcheck.lean_has_sprog() and os.path.exists(core.lean_driver()):
            model = core.run_model([f"eng sprog s{k} {S.sx_sprog(p)}" for k, (p, q) in enumerate(progs)])
        r.cov["tie_a_programs"] = len(progs); r.cov["tie_a_wall_s"] = round(wall, 1)
        for k, (p, q) in enumerate(progs):
            got = f"{outs.get(f's{k}', 'no-record')} / {outs.get(f'x{k}', 'no-record')}"
            mo = None if model is None else ("ok / ok" if model[k] == "ok" else f"{model[k]} / ok")
            d.case(f"tie-A acceptance: {S.s_program(p)}", got, mo, lambda _l, out: None if out == "ok / ok" else f"sugared / expanded program not both accepted: {out}")
    return surfcheck.run_surface_property("C07", tier, modules=MODULES, theorems=THEOREMS, trusted=TRUSTED, group="c07", build=build, known=known,
                                          what="sugared programs vs their documented expansion", rule=rule_text(), extra=extra)


import os
MODULES = ["AscentVerif.Props.C07", "AscentVerif.Props.C07Phys", "AscentVerif.Props.C07Desugared", "AscentVerif.Props.C07PhysAgg"] if os.path.exists(os.path.join(core.LEAN, "AscentVerif", "Props", "C07.lean")) else []
