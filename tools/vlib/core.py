"""Shared machinery of the check driver: building the Lean development and auditing it,
building the Rust harnesses against the *current* working tree of the repository, running
model and implementation on the same op files, evidence and violation reporting."""
import hashlib, json, os, re, subprocess, sys, time

VERIF = os.path.dirname(os.path.dirname(os.path.dirname(os.path.abspath(__file__))))
LEAN = os.environ.get("VERIF_LEAN_DIR") or os.path.join(VERIF, "lean")      # (VERIF_LEAN_DIR: development only, a private copy of the Lean project)
ALLOWED_AXIOMS = {"propext", "Classical.choice", "Quot.sound"}
FORBIDDEN = re.compile(r"\b(sorry|admit|native_decide|bv_decide|implemented_by|unsafe)\b|^\s*axiom\s|maxHeartbeats\s+0\b", re.M)
NCPU = os.cpu_count() or 4


def repo_dir():
    return os.path.abspath(os.environ.get("VERIF_REPO_DIR", "/repo"))


def seed():
    try:
        return int(os.environ.get("VERIF_SEED", "1"))
    except ValueError:
        return 1


def env_offline():
    e = dict(os.environ)
    e["CARGO_NET_OFFLINE"] = "true"
    e.setdefault("CARGO_TERM_COLOR", "never")
    return e


def run(cmd, cwd=None, env=None, timeout=None, inp=None):
    p = subprocess.run(cmd, cwd=cwd, env=env or env_offline(), stdout=subprocess.PIPE, stderr=subprocess.STDOUT,
                       timeout=timeout, input=inp, text=True, errors="replace")
    return p.returncode, p.stdout


class SplitMix:
    """The one PRNG every random choice derives from (replayable from VERIF_SEED)."""
    M = (1 << 64) - 1

    def __init__(self, s):
        self.s = s & self.M

    def next(self):
        self.s = (self.s + 0x9E3779B97F4A7C15) & self.M
        z = self.s
        z = ((z ^ (z >> 30)) * 0xBF58476D1CE4E5B9) & self.M
        z = ((z ^ (z >> 27)) * 0x94D049BB133111EB) & self.M
        return z ^ (z >> 31)

    def below(self, n):
        return self.next() % n if n > 0 else 0

    def range(self, lo, hi):
        return lo + self.below(hi - lo + 1)

    def choice(self, xs):
        return xs[self.below(len(xs))]

    def chance(self, num, den):
        return self.below(den) < num

    def shuffle(self, xs):
        xs = list(xs)
        for i in range(len(xs) - 1, 0, -1):
            j = self.below(i + 1)
            xs[i], xs[j] = xs[j], xs[i]
        return xs

    def fork(self, tag):
        h = int.from_bytes(hashlib.sha256(f"{self.s}:{tag}".encode()).digest()[:8], "big")
        return SplitMix(h)


# ---------------------------------------------------------------- Lean side

def strip_comments(src):
    """remove Lean block comments (nested) and line comments"""
    out, i, depth, n = [], 0, 0, len(src)
    while i < n:
        if src.startswith("/-", i):
            depth += 1
            i += 2
        elif depth and src.startswith("-/", i):
            depth -= 1
            i += 2
        elif depth:
            if src[i] == "\n":
                out.append("\n")
            i += 1
        elif src.startswith("--", i):
            while i < n and src[i] != "\n":
                i += 1
        else:
            out.append(src[i])
            i += 1
    return "".join(out)


def lean_module_closure(mod):
    """AscentVerif modules reachable from `mod` through imports (file paths)."""
    seen, todo = {}, [mod]
    while todo:
        m = todo.pop()
        if m in seen or not m.startswith("AscentVerif"):
            continue
        path = os.path.join(LEAN, *m.split(".")) + ".lean"
        if not os.path.exists(path):
            continue
        seen[m] = path
        for line in open(path):
            mm = re.match(r"\s*import\s+(\S+)", line)
            if mm:
                todo.append(mm.group(1))
    return seen


class ProofResult:
    def __init__(self):
        self.ok = True
        self.problems = []       # strings naming the theorem / module that no longer checks
        self.theorems = {}       # name -> axioms
        self.modules = []
        self.log = ""
        self.mathlib_imports = []
        self.wall = 0.0


def lean_prove(prop_mod, extra_targets=("driver",), leanchecker=False):
    """Build the property module(s) (and the driver), forbid escape hatches, audit axioms."""
    if isinstance(prop_mod, (list, tuple)):
        total = ProofResult()
        for m in prop_mod:
            r = lean_prove(m, extra_targets, leanchecker)
            total.ok = total.ok and r.ok
            total.problems += r.problems
            total.theorems.update(r.theorems)
            total.modules = sorted(set(total.modules) | set(r.modules))
            total.log += r.log
            total.mathlib_imports = sorted(set(total.mathlib_imports) | set(r.mathlib_imports))
            total.wall += r.wall
        return total
    t0 = time.time()
    r = ProofResult()
    if prop_mod == "AscentVerif.Props.TieD":
        # tie D: the table-shaped Rust code is re-translated from the repository's working tree on every run; the theorems of Props/TieD.lean
        # state that the regenerated definitions equal the hand-written model (a changed match arm breaks a proof)
        rc, out = run([sys.executable, os.path.join(VERIF, "tools", "rs2lean.py"), "--repo", repo_dir(), "--out", os.path.join(LEAN, "AscentVerif", "Generated")], cwd=VERIF, timeout=300)
        r.log += out
        if rc != 0:
            r.ok = False
            r.problems.append("tie D: rs2lean could not translate the current source (outside the supported fragment?): " + " | ".join(out.strip().splitlines()[-3:]))
    if not os.path.exists(os.path.join(LEAN, *prop_mod.split(".")) + ".lean"):
        r.ok = False
        r.problems.append(f"property module {prop_mod} is missing")
        return r
    mods = lean_module_closure(prop_mod)
    r.modules = sorted(mods)
    for m, path in mods.items():
        src = strip_comments(open(path).read())
        for hit in FORBIDDEN.finditer(src):
            r.ok = False
            r.problems.append(f"forbidden token `{hit.group(0).strip()}` in {m}")
        for line in src.splitlines():
            mm = re.match(r"\s*import\s+(Mathlib\S*|Batteries\S*|Aesop\S*)", line)
            if mm:
                r.mathlib_imports.append(f"{m}: {mm.group(1)}")
    rc, out = run(["lake", "build", prop_mod] + list(extra_targets), cwd=LEAN, timeout=3600)
    r.log += out
    if rc != 0:
        r.ok = False
        errs = [l for l in out.splitlines() if l.startswith("error:")]
        r.problems.append("lake build failed: " + "; ".join(errs[:6]))
        r.wall = time.time() - t0
        return r
    os.makedirs(os.path.join(LEAN, ".audit"), exist_ok=True)
    ident = prop_mod.split(".")[-1]
    af = os.path.join(LEAN, ".audit", ident + ".lean")
    with open(af, "w") as f:
        f.write(f"import AscentVerif.Audit\nimport {prop_mod}\n#audit_module {prop_mod}\n")
    rc, out = run(["lake", "build", "AscentVerif.Audit"], cwd=LEAN, timeout=3600)
    rc, out = run(["lake", "env", "lean", af], cwd=LEAN, timeout=3600)
    r.log += out
    count = None
    for line in out.splitlines():
        mm = re.match(r".*AXIOMS (\S+) : \[(.*)\]", line)
        if mm:
            name = mm.group(1)
            if re.search(r"\.(eq_\d+|eq_def|match_\d+.*|proof_\d+|congr_simp|injEq|sizeOf_spec|noConfusion.*)$", name):
                continue
            axs = [a.strip() for a in mm.group(2).split(",") if a.strip()]
            r.theorems[name] = axs
            bad = [a for a in axs if a not in ALLOWED_AXIOMS]
            if bad:
                r.ok = False
                r.problems.append(f"theorem {name} depends on axioms {bad}")
        mm = re.match(r".*AUDIT-COUNT (\d+)", line)
        if mm:
            count = int(mm.group(1))
    if rc != 0 or count is None:
        r.ok = False
        r.problems.append("axiom audit did not run: " + out[-400:])
    if leanchecker and r.ok:
        rc, out = run(["lake", "env", "leanchecker", prop_mod], cwd=LEAN, timeout=3600)
        r.log += out
        if rc != 0:
            r.ok = False
            r.problems.append("leanchecker rejected " + prop_mod + ": " + out[-300:])
    r.wall = time.time() - t0
    return r


def require_theorems(r, names):
    """the property theorems that must exist (a deleted theorem is a broken obligation)"""
    have = {n.split(".")[-1] for n in r.theorems} | set(r.theorems)
    for n in names:
        if n not in have:
            r.ok = False
            r.problems.append(f"property theorem {n} is missing")


def lean_driver():
    return os.path.join(LEAN, ".lake", "build", "bin", "driver")


def run_model(lines, timeout=1800):
    inp = "\n".join(lines) + "\n"
    p = subprocess.run([lean_driver()], input=inp, stdout=subprocess.PIPE, stderr=subprocess.PIPE, text=True, timeout=timeout)
    if p.returncode != 0:
        raise RuntimeError("lean driver failed: " + p.stderr[-500:])
    out = p.stdout.split("\n")
    if out and out[-1] == "":
        out.pop()
    return out


# ---------------------------------------------------------------- Rust side

def target_dir():
    # one cargo target directory per source directory: cargo's freshness test compares file times only, and workspace members are
    # fingerprinted by their path RELATIVE to the workspace root, so two checkouts sharing a target directory can reuse each other's artefacts
    rd = repo_dir()
    if rd == "/repo":
        return os.path.join(VERIF, "harness", "target")
    return os.path.join(VERIF, "harness", "target-" + hashlib.sha256(rd.encode()).hexdigest()[:8])


def source_hash():
    """content hash of the repository's working tree sources (everything cargo compiles)"""
    h = hashlib.sha256()
    rd = repo_dir()
    for root, dirs, files in os.walk(rd):
        dirs[:] = sorted(x for x in dirs if x not in (".git", "target") and not x.startswith("target"))
        for f in sorted(files):
            if f.endswith((".rs", ".toml", ".lock")):
                fp = os.path.join(root, f)
                h.update(os.path.relpath(fp, rd).encode()); h.update(b"\0")
                try: h.update(open(fp, "rb").read())
                except OSError: pass
                h.update(b"\0")
    return h.hexdigest()


def ensure_fresh():
    """cargo decides freshness by file times alone: a source tree put back with older file times (a restored copy, rsync -a, a checkout from another
    clone) would be taken for the tree that was compiled last.  The content hash of the sources is recorded beside the target directories; when it
    differs from the recorded one, the fingerprints of the repository's crates are removed from every target directory of this source directory,
    which forces cargo to recompile them (nothing in the repository is touched)."""
    import fcntl, glob, shutil
    base = target_dir()
    os.makedirs(os.path.dirname(base), exist_ok=True)
    stamp = base + ".srchash"
    with open(stamp + ".lock", "w") as lk:
        fcntl.flock(lk, fcntl.LOCK_EX)
        cur = source_hash()
        old = open(stamp).read().strip() if os.path.exists(stamp) else None
        if old != cur:
            for td in glob.glob(base + "*"):
                if not os.path.isdir(td): continue
                for fpd in glob.glob(os.path.join(td, "*", ".fingerprint", "*")):
                    n = os.path.basename(fpd)
                    if n.startswith("ascent"):
                        shutil.rmtree(fpd, ignore_errors=True)
            with open(stamp, "w") as f: f.write(cur)


def prepare_crate(name):
    """(re)write Cargo.toml from the template with the repository path; copy the lock file"""
    d = os.path.join(VERIF, "harness", name)
    tmpl = open(os.path.join(d, "Cargo.toml.in")).read().replace("@REPO@", repo_dir())
    cur = None
    if os.path.exists(os.path.join(d, "Cargo.toml")):
        cur = open(os.path.join(d, "Cargo.toml")).read()
    if cur != tmpl:
        open(os.path.join(d, "Cargo.toml"), "w").write(tmpl)
    lock = os.path.join(d, "Cargo.lock")
    if not os.path.exists(lock):
        for cand in (os.path.join(repo_dir(), "Cargo.lock"), os.path.join(VERIF, "harness", "Cargo.lock.seed")):
            if os.path.exists(cand):
                import shutil
                shutil.copy(cand, lock)
                break
    return d


def build_harness(name, release=False, features=None, bins=None):
    """cargo build of a harness crate against the repository's current working tree"""
    d = prepare_crate(name)
    cmd = ["cargo", "build", "--offline", "-q"]
    if release:
        cmd.append("--release")
    if features:
        cmd += ["--features", ",".join(features)]
    if bins:
        for b in bins:
            cmd += ["--bin", b]
    e = env_offline()
    e["CARGO_TARGET_DIR"] = target_dir()
    t0 = time.time()
    rc, out = run(cmd, cwd=d, env=e, timeout=7200)
    return rc == 0, out, os.path.join(target_dir(), "release" if release else "debug"), time.time() - t0


def run_impl(binary, lines, timeout=1800, env=None):
    inp = "\n".join(lines) + "\n"
    p = subprocess.run([binary], input=inp, stdout=subprocess.PIPE, stderr=subprocess.PIPE, text=True, timeout=timeout, env=env)
    out = p.stdout.split("\n")
    if out and out[-1] == "":
        out.pop()
    return p.returncode, out, p.stderr


# ---------------------------------------------------------------- reporting

class Report:
    """Collects what one check run covered and decides the exit status."""

    def __init__(self, pid, tier):
        self.pid, self.tier = pid, tier
        self.t0 = time.time()
        self.cov = {"samples": []}
        self.assumptions = []
        self.violations = []      # (replay_path, suffix)
        self.known_hits = {}
        self.notes = []
        self.level = "proof"

    def sample(self, x, cap=8):
        if len(self.cov["samples"]) < cap:
            self.cov["samples"].append(x)

    def known(self, fid, what):
        if fid not in self.known_hits:
            self.known_hits[fid] = what
            print(f"KNOWN-FINDING: property={self.pid} {fid} {what}", flush=True)

    def violation(self, payload, no_input=False):
        d = os.path.join(VERIF, "replays", self.pid)
        os.makedirs(d, exist_ok=True)
        payload = dict(payload)
        payload.setdefault("property", self.pid)
        payload.setdefault("seed", seed())
        payload.setdefault("tier", self.tier)
        blob = json.dumps(payload, indent=1, sort_keys=True, default=str)
        h = hashlib.sha256(blob.encode()).hexdigest()[:12]
        path = os.path.join(d, h + ".json")
        open(path, "w").write(blob)
        self.violations.append(path)
        print(f"VIOLATION property={self.pid} replay={path}" + (" no-failing-input-found" if no_input else ""), flush=True)
        return path

    def proof(self, r, checker_cmd):
        self.cov["obligations"] = len(r.theorems)
        self.cov["discharged"] = len(r.theorems) if r.ok else max(0, len(r.theorems) - len(r.problems))
        self.cov["checker_cmd"] = checker_cmd
        self.cov["theorem_axioms"] = r.theorems
        self.cov["lean_modules"] = r.modules
        self.cov["mathlib_imports"] = r.mathlib_imports
        self.cov["proof_wall_s"] = round(r.wall, 1)
        if not r.ok:
            self.cov["broken_obligations"] = r.problems

    def finish(self, trusted_base):
        self.cov["trusted_base"] = trusted_base
        self.cov["known_findings_hit"] = self.known_hits
        if self.notes:
            self.cov["notes"] = self.notes
        ev = {
            "property_id": self.pid, "tier": self.tier, "seed": seed(), "level": self.level,
            "coverage": self.cov, "assumptions": self.assumptions,
            "wall_s": round(time.time() - self.t0, 2), "violations": len(self.violations),
        }
        os.makedirs(os.path.join(VERIF, "evidence"), exist_ok=True)
        with open(os.path.join(VERIF, "evidence", self.pid + ".json"), "w") as f:
            json.dump(ev, f, indent=1, sort_keys=True, default=str)
        return 1 if self.violations else 0


def load_known():
    p = os.path.join(VERIF, "KNOWN_FINDINGS.json")
    if not os.path.exists(p):
        return []
    return json.load(open(p))["findings"]


def known_for(pid):
    return [k for k in load_known() if pid in k["properties"] and k["status"] == "known"]


def fixed_for(pid):
    return [k for k in load_known() if pid in k["properties"] and k["status"] == "fixed"]


def corpus(pid):
    d = os.path.join(VERIF, "corpus", pid)
    out = []
    if os.path.isdir(d):
        for fn in sorted(os.listdir(d)):
            if fn.endswith(".json"):
                out.append((fn, json.load(open(os.path.join(d, fn)))))
    return out
