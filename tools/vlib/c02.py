"""C02 — parallel evaluation equals serial evaluation under every schedule."""
from . import core, eng, gen, engcheck

THEOREMS = ["runPar_eq_leastModel", "par_eq_serial", "par_schedule_independent", "nd_eq_leastModel", "nd_runs_agree", "par_is_nd", "runPhysPar_eq_leastModel", "runPhysPar_schedule_pool_independent", "tcPar_hyps", "runPhysParLat_spec", "runPhysParLat_spec_antisymm", "runPhysParLat_needs_flag_law", "std_hff_maxmin", "distPar_hyps", "runPhysPar_agg_eq_model", "runPhysPar_agg_schedule_pool_independent"]
TRUSTED = ["Lean 4.33.0 kernel", "axioms: propext, Classical.choice, Quot.sound only (audited per theorem)",
           "statement: Props/C02.lean (the parallel iteration as an arbitrary interleaving of atomic head updates over frozen total/delta; "
           "every schedule computes the least model, hence equals the serial result)",
           "Props/C02ND.lean: the engine as a relation (Proofs/NDEngine.lean) - per pass ANY list of head rows set-equal to the rows of all variant instances, "
           "any order and multiplicity - computes the least model (nd_eq_leastModel); every schedule of the parallel engine is such an execution (par_is_nd)",
           "Props/C02Phys.lean runPhysPar_eq_leastModel: for EVERY schedule (order of index inserts and of an iteration's head updates, worker of every insert, outcome of every sampled "
           "len_estimate comparison), every pool size and fuel, from every typed program value, the ascent_par! code over its concurrent indices NEVER PANICS (no index is read while unfrozen or "
           "written while frozen) and, if it returns, holds exactly the least model; the result is again a value run() may be called on",
           "Model/EnginePhysPar.lean (the ascent_par! code over its concurrent indices with the frozen / unfrozen protocol, panics included) is what the Lean side runs for the "
           "relational programs of this tie (`eng runpp`), in a pool of the same size: relations and scc_iters must agree and the model must not panic",
           "Props/C02PhysLat.lean (Model/EnginePhysParLat.lean, Proofs/PhysParLat*.lean, ~3 500 lines): ascent_par! WITH lattice relations over its concurrent indices (CRelFullIndex key index, CLatIndex "
           "row-number sets, get_cloned look-up chain new/delta/total, join_mut under the row lock, re-queue unless the key was found in `new`, insertion mutex with re-check; every head update one atomic step in "
           "schedule order): for EVERY schedule, pool size, rule-scheduling mode and fuel the run never panics and ends with one row per key, closed, least for monotone programs (runPhysParLat_spec); the flag law of "
           "join_mut (value untouched when it reports unchanged) is a hypothesis and NEEDED (runPhysParLat_needs_flag_law: a machine-checked counterexample without it); it follows from antisymmetry "
           "(runPhysParLat_spec_antisymm); tied by `eng runppl` on the lattice programs of this check",
           "Props/C02PhysAgg.lean (Proofs/PhysParAgg*.lean): ascent_par! on stratified programs with aggregation / negation over its concurrent indices - for EVERY schedule, pool size and fuel no panic and the "
           "stratified model, every aggregation over the final rows, each tuple once (runPhysPar_agg_eq_model: the multiplicity invariant of the hash indices carried through the concurrent inserts, the shard-wise "
           "merge of CRelNoIndex and the schedule permutations); two runs under different schedules and pools agree (runPhysPar_agg_schedule_pool_independent); the model panics on an unfrozen index of a clause relation OR of an aggregated relation (index_get unwrap_frozen); tied by `eng runpp` on the aggregation programs of this check",
           "tie: ascent_par! twins of generated programs (relations, lattices, aggregation, with and without #![inter_rule_parallelism]) run in pools "
           "of 1,2,3,4,8,16 threads under seeded perturbation of the concurrent index inserts (hook), with a hang watchdog, vs the serial model and oracle",
           "PARTIAL: atomicity of DashMap shard locks, boxcar push, RwLock/Mutex and rayon's completion (happens-before for the Relaxed `changed` flag) "
           "are assumptions of the protocol theorem; real interleavings and memory ordering are exercised, not proved; live reads of lattice values "
           "in parallel mode are modelled by the serial snapshot semantics"]
POOLS = [1, 2, 3, 4, 8, 16]


def build(rng, tier):
    n = 5 if tier == "quick" else 20
    groups = [("rel", engcheck.make_programs(rng.fork("c02r"), n)),
              ("lat", engcheck.make_programs(rng.fork("c02l"), n, genf=gen.gen_lat_program, filt=gen.lat_ok)),
              ("agg", engcheck.make_programs(rng.fork("c02a"), max(2, n // 2), genf=gen.gen_agg_program, filt=eng.stratifiable))]
    progs, mods, cases = {}, [], []
    k = 0
    for kind, plist in groups:
        for p in plist:
            for irp in (False, True):
                pid = f"w{k}"; k += 1
                progs[pid] = p
                mods.append((pid, eng.rs_module(pid, p, macro="ascent_par", attrs=("inter_rule_parallelism",) if irp else ())))
                for j in range(2 if tier == "quick" else 6):
                    r2 = rng.fork(f"{pid}i{j}")
                    inp = gen.gen_lat_input(r2, p) if kind == "lat" else gen.nodup_input(r2, p)
                    for t in (POOLS if tier == "thorough" else [r2.choice(POOLS), 16]):
                        for sd in range(2 if tier == "quick" else 8):
                            inst = f"{pid}_{j}_{t}_{sd}"
                            # relational programs: the Lean side is the PARALLEL physical-index engine model (Model/EnginePhysPar.lean: frozen / unfrozen protocol,
                            # per-thread CRelNoIndex, a schedule derived from the pool size) in a pool of the same size; iteration counts are compared too
                            # lattice programs: every second schedule seed runs the Lean side through the PARALLEL physical-index model with lattices (Model/EnginePhysParLat.lean: CRelFullIndex key
                            # index, CLatIndex row-number sets, get_cloned look-up chain, join under the row lock, re-queue unless found in `new`); iteration counts are not compared (live reads)
                            runop = [f"eng runpp {inst} {t}", f"eng dump {inst}", f"eng iters {inst}"] if kind == "rel" else \
                                    ([f"eng runppl {inst} {t}", f"eng dump {inst}"] if kind == "lat" and sd % 2 == 1 else
                                     # aggregation programs: every second seed through the parallel physical model (aggregates read the concurrent index the plan chose)
                                     ([f"eng runpp {inst} {t}", f"eng dump {inst}"] if kind == "agg" and sd % 2 == 1 and not has_agg_over_lat(p) else [f"eng run {inst}", f"eng dump {inst}"]))
                            ops = [f"eng perturb {1 + r2.below(10 ** 9)}", f"eng new {inst} {pid} par {t}"] + engcheck.load_ops(inst, inp) + runop + ["eng perturb 0"]
                            cases.append(engcheck.Case(pid, inst, ops, {"inp": inp, "kind": f"{kind}{'+irp' if irp else ''}", "threads": t,
                                                                       "was": "F5" if kind == "lat" and has_agg_over_lat(p) else None}))
    # forced shape "delta x delta only": walks of doubling length  walk(x,z,n+m) <-- walk(x,y,n), walk(y,z,m), if n == m  over acyclic graphs.  A walk of length 2n has exactly
    # ONE derivation, and both of its halves are new in the same iteration while their join keys already have older (shorter) rows in total: a combined total+delta read that
    # stops at the first of its two indices loses it (ordinary non-linear programs hide this behind redundant derivations)
    dw = {"rels": [{"arity": 2}, {"arity": 3}],
          "rules": [{"heads": [(1, [("var", 0), ("var", 1), 1])], "body": [("cl", 0, [("v", 0), ("v", 1)], [])]},
                    {"heads": [(1, [("var", 0), ("var", 2), ("add", ("var", 3), ("var", 4))])],
                     "body": [("cl", 1, [("v", 0), ("v", 1), ("v", 3)], []), ("cl", 1, [("v", 1), ("v", 2), ("v", 4)], []), ("if", ("eq", ("var", 3), ("var", 4)))]}]}
    for irp in (False, True):
        pid = f"dw{int(irp)}"
        progs[pid] = dw
        mods.append((pid, eng.rs_module(pid, dw, macro="ascent_par", attrs=("inter_rule_parallelism",) if irp else ())))
        for j in range(3 if tier == "quick" else 10):
            r2 = rng.fork(f"{pid}i{j}")
            nn = r2.range(6, 10)
            edges = [(i, i + 1) for i in range(nn)]                       # a chain: walks of length 1, 2, 4, 8
            for _ in range(r2.below(4)):                                   # plus a few forward shortcuts (still acyclic)
                a = r2.below(nn - 1); e = (a, r2.range(a + 2, nn))
                if e not in edges: edges.append(e)
            edges = r2.shuffle(edges)
            inp = {0: edges}
            for t in (POOLS if tier == "thorough" else [1, r2.choice(POOLS[1:])]):
                inst = f"{pid}_{j}_{t}"
                ops = [f"eng perturb {1 + r2.below(10 ** 9)}", f"eng new {inst} {pid} par {t}"] + engcheck.load_ops(inst, inp) + [f"eng runpp {inst} {t}", f"eng dump {inst}", f"eng iters {inst}", "eng perturb 0"]
                cases.append(engcheck.Case(pid, inst, ops, {"inp": inp, "kind": "doubling-walks" + ("+irp" if irp else ""), "threads": t}))
    # forced shape "sparse keyed index in a three-clause rule": rules with three clauses are skipped when `is_empty` of a body index answers true; a keyed concurrent
    # index holding ONE or TWO keys (whatever shard they hash into) is not empty
    sp3 = {"rels": [{"arity": 2}, {"arity": 2}, {"arity": 2}, {"arity": 2}],
           "rules": [{"heads": [(3, [("var", 0), ("var", 3)])], "body": [("cl", 0, [("v", 0), ("v", 1)], []), ("cl", 1, [("v", 1), ("v", 2)], []), ("cl", 2, [("v", 2), ("v", 3)], [])]}]}
    progs["sp3"] = sp3
    mods.append(("sp3", eng.rs_module("sp3", sp3, macro="ascent_par")))
    for j in range(16 if tier == "quick" else 60):
        r2 = rng.fork(f"sp3{j}")
        k1, k2 = r2.range(0, 400), r2.range(0, 400)
        inp = {0: [(x, k1) for x in range(r2.range(1, 3))], 1: [(k1, k2)], 2: [(k2, z) for z in range(r2.range(1, 3))]}
        t = r2.choice([4, 8, 16])
        inst = f"sp3_{j}"
        ops = [f"eng new {inst} sp3 par {t}"] + engcheck.load_ops(inst, inp) + [f"eng runpp {inst} {t}", f"eng dump {inst}", f"eng iters {inst}"]
        cases.append(engcheck.Case("sp3", inst, ops, {"inp": inp, "kind": "sparse-keyed-index", "threads": t}))
    # forced shape "unique-index scan in odd pools": a simple join whose clauses are matched on ALL their columns - `both(x, y) <-- a(x, y), b(x, y)` - so the iterated side
    # is walked through the parallel whole-index iterator of a UNIQUE index (CRelFullIndex::c_iter_all, one rayon task per DashMap shard); hundreds of keys (every shard is
    # hit) in pools whose size does not divide the shard count: every row must be visited whatever the split of the shards over the workers
    uq = {"rels": [{"arity": 2}, {"arity": 2}, {"arity": 2}, {"arity": 1}, {"arity": 2}],
          "rules": [{"heads": [(2, [("var", 0), ("var", 1)])], "body": [("cl", 0, [("v", 0), ("v", 1)], []), ("cl", 1, [("v", 0), ("v", 1)], [])]},
                    {"heads": [(4, [("var", 0), ("var", 1)])], "body": [("cl", 2, [("v", 0), ("v", 1)], []), ("cl", 3, [("v", 0)], [])]}]}
    progs["uq"] = uq
    mods.append(("uq", eng.rs_module("uq", uq, macro="ascent_par")))
    for j, t in enumerate([3, 5, 6, 7, 12, 3] if tier == "quick" else [3, 5, 6, 7, 9, 10, 11, 12, 13, 15] * 2):
        r2 = rng.fork(f"uq{j}")
        n = r2.range(150, 400)
        a = [(x * r2.range(1, 3) + j, x % 7) for x in range(n)]
        a = list(dict.fromkeys(a))
        b = [t2 for t2 in a if not r2.chance(1, 10)] + [(x + 100000, 1) for x in range(20)]
        inp = {0: r2.shuffle(a), 1: r2.shuffle(b), 3: [(x,) for x, _ in a if not r2.chance(1, 8)]}
        inst = f"uq_{j}"
        ops = [f"eng new {inst} uq par {t}"] + engcheck.load_ops(inst, inp) + [f"eng runpp {inst} {t}", f"eng dump {inst}", f"eng iters {inst}"]
        cases.append(engcheck.Case("uq", inst, ops, {"inp": inp, "kind": "unique-index-scan-odd-pool", "threads": t}))
    # wide (arity 6-8) and nullary relations and facts under ascent_par! (gen.forced_programs): the concurrent full index with a unit key, tuple keys of 4 and 5 columns
    for pid0, q in gen.forced_programs().items():
        pid = pid0 + "p"
        progs[pid] = q
        mods.append((pid, eng.rs_module(pid, q, macro="ascent_par")))
        for j in range(4 if tier == "quick" else 12):
            r2 = rng.fork(f"{pid}i{j}")
            inp = gen.forced_input(pid0, r2, j)
            t = r2.choice([1, 2, 3, 4, 8])
            inst = f"{pid}_{j}"
            ops = [f"eng perturb {1 + r2.below(10 ** 9)}", f"eng new {inst} {pid} par {t}"] + engcheck.load_ops(inst, inp) + [f"eng runpp {inst} {t}", f"eng dump {inst}", f"eng iters {inst}", "eng perturb 0"]
            cases.append(engcheck.Case(pid, inst, ops, {"inp": inp, "kind": "forced-" + pid0, "threads": t}))
    # a BYODS relation in parallel mode: `#[ds(eqrel)]` filled over SEVERAL iterations of its stratum - eq(x, y) <-- seed(x, y);  eq(x, y) <-- link(x, y), eq(x, _), eq(y, _);
    # out(x, y) <-- eq(x, y) - on inputs whose last productive iteration only MERGES classes of elements that are all known already (links between seeded classes); the parallel
    # provider (ceqrel_ind.rs) must hand the merged partition on to `total`.  Model side: the serial Lean engine on the explicit-closure twin; the tagged relation (a FakeVec) is masked
    from . import c10, c13
    # (a later stratum also reads the relation with its first column bound, as the first / second clause of a rule: `cls(x, y) <-- q(x), eq(x, y)` and `eq(x, y), q(y)` - c_index_get
    # on elements whose class was absorbed into a class that was itself absorbed later)
    eqp = {"rels": [{"arity": 2}, {"arity": 2}, {"arity": 2, "ds": "eqrel"}, {"arity": 2}, {"arity": 1}, {"arity": 2}, {"arity": 2}],
           "rules": [{"heads": [(2, [("var", 0), ("var", 1)])], "body": [("cl", 0, [("v", 0), ("v", 1)], [])]},
                     {"heads": [(2, [("var", 0), ("var", 1)])], "body": [("cl", 1, [("v", 0), ("v", 1)], []), ("cl", 2, [("v", 0), ("v", 2)], []), ("cl", 2, [("v", 1), ("v", 3)], [])]},
                     {"heads": [(3, [("var", 0), ("var", 1)])], "body": [("cl", 2, [("v", 0), ("v", 1)], [])]},
                     {"heads": [(5, [("var", 0), ("var", 1)])], "body": [("cl", 4, [("v", 0)], []), ("cl", 2, [("v", 0), ("v", 1)], [])]},
                     {"heads": [(6, [("var", 0), ("var", 1)])], "body": [("cl", 2, [("v", 0), ("v", 1)], []), ("cl", 4, [("v", 1)], []), ("if", ("lt", ("var", 0), ("var", 1)))]}]}
    progs["yeq"] = eng.twin(eqp)
    mods.append(("yeq", c10.module_text("yeq", eqp, par=True)))
    for j in range(12 if tier == "quick" else 40):
        r2 = rng.fork(f"yeq{j}")
        k = r2.range(3, 5)
        seeds = [(2 * i + 1, 2 * i + 2) for i in range(k)]
        links = r2.shuffle([(2 * i + 2, 2 * i + 3) for i in range(k - 1)]) if j % 2 == 0 else [(r2.range(1, 2 * k), r2.range(1, 2 * k)) for _ in range(r2.range(1, 3))]
        links += [(r2.range(1, 2 * k), 50 + j)] if j % 3 == 2 else []        # a link to an element nobody knows: never fires
        inp = {0: r2.shuffle(seeds), 1: list(dict.fromkeys(links)), 3: [], 4: [(x,) for x in range(1, 2 * k + 1) if r2.chance(3, 4)], 5: [], 6: []}
        t = r2.choice([1, 2, 4, 8])
        inst = f"yeq_{j}"
        ops = [f"eng new {inst} yeq par {t}"] + engcheck.load_ops(inst, inp) + [f"eng run {inst}", f"eng dump {inst}"]
        cases.append(engcheck.Case("yeq", inst, ops, {"inp": inp, "kind": "byods-eqrel-recursive", "threads": t, "byods": 2}))
    # forced shape "hot keys": a few lattice keys, each improved by hundreds of DIFFERENT incomparable contributions in ONE iteration (set union): every worker's join must be
    # an atomic read-modify-write of the row (a join computed on a private copy and written back loses the neighbours' contributions)
    hot = {"rels": [{"arity": 2}, {"arity": 2, "lat": "set"}],
           "rules": [{"heads": [(1, [("var", 0), ("single", ("var", 1))])], "body": [("cl", 0, [("v", 0), ("v", 1)], [])]}]}
    progs["hot"] = hot
    mods.append(("hot", eng.rs_module("hot", hot, macro="ascent_par")))
    for j, t in enumerate([2, 4, 8, 16, 8, 16] if tier == "quick" else [2, 3, 4, 8, 16] * 4):
        r2 = rng.fork(f"hot{j}")
        inp = {0: r2.shuffle([(k, v) for k in range(3) for v in range(300)])}
        inst = f"hot_{j}"
        ops = [f"eng new {inst} hot par {t}"] + engcheck.load_ops(inst, inp) + [f"eng run {inst}", f"eng dump {inst}"]
        cases.append(engcheck.Case("hot", inst, ops, {"inp": inp, "kind": "lattice-hot-keys", "threads": t}))
    # witness of finding F5 (fixed by 058163a; must pass): an aggregate over a lattice in parallel mode (re-queued rows were indexed twice)
    w = {"rels": [{"arity": 3}, {"arity": 1}, {"arity": 3, "lat": "min"}, {"arity": 2}],
         "rules": [{"heads": [(2, [("var", 0), ("var", 1), ("var", 2)])], "body": [("cl", 0, [("v", 0), ("v", 1), ("v", 2)], [])]},
                   {"heads": [(2, [("var", 0), ("var", 3), ("add", ("var", 2), ("var", 4))])],
                    "body": [("cl", 2, [("v", 0), ("v", 1), ("v", 2)], []), ("cl", 0, [("v", 1), ("v", 3), ("v", 4)], [])]},
                   {"heads": [(3, [("var", 0), ("var", 21)])], "body": [("cl", 1, [("v", 0)], []), ("agg", [21], "count", [], 2, [("k", ("var", 0)), "_", "_"])]}]}
    winp = {0: [(0, 1, 5), (0, 2, 1), (2, 1, 1), (1, 3, 1), (0, 3, 9), (3, 4, 1), (2, 4, 7), (0, 4, 20), (4, 5, 1), (0, 5, 30)], 1: [(0,), (1,), (2,)]}
    for pid, macro in (("f5w_par", "ascent_par"), ("f5w_ser", "ascent")):
        progs[pid] = w; mods.append((pid, eng.rs_module(pid, w, macro=macro)))
        inst = pid + "_0"
        ops = [f"eng new {inst} {pid}" + (" par 4" if macro == "ascent_par" else "")] + engcheck.load_ops(inst, winp) + [f"eng run {inst}", f"eng dump {inst}"]
        cases.append(engcheck.Case(pid, inst, ops, {"inp": winp, "kind": "F5-witness", "threads": 4, "was": "F5" if macro == "ascent_par" else None}))
    return progs, mods, cases


def known(c, p, impl, model):
    return None      # F5 (aggregates over a lattice in parallel mode) is fixed by 058163a: nothing is attributed any more


def has_agg_over_lat(p):
    return any(it[0] == "agg" and p["rels"][it[4]].get("lat") for ru in p["rules"] for it in ru["body"])


def oracle(c, p, out):
    dump = next((l for l, o in zip(out, c.ops) if o.startswith("eng dump")), "")
    if c.meta.get("byods") is not None:
        from . import c13
        t = c.meta["byods"]
        return engcheck.check_sets(p, c13.mask_rel(dump, t), {r: (set() if r == t else v) for r, v in engcheck.spec_sets(p, c.meta["inp"]).items()})
    w = engcheck.check_sets(p, dump, engcheck.spec_sets(p, c.meta["inp"]))
    if w: return w
    _, mult = engcheck.dump_sets(dump)
    for r, d in enumerate(p["rels"]):
        if d.get("lat"):
            keys = {}
            for t, m in mult.get(r, {}).items():
                k = eng.split_key(t); keys[k] = keys.get(k, 0) + m
            bad = [k for k, m in keys.items() if m != 1]
            if bad: return f"lattice r{r} has {keys[bad[0]]} rows for key ({bad[0]})"
    return None


def canon_byods(c, out):
    if c.meta.get("byods") is None: return out
    from . import c13
    return [c13.mask_rel(l, c.meta["byods"]) for l in out]


def canon(c, out):
    # the parallel run is compared with the SERIAL model as sets (row order and duplicates of caller inputs aside)
    return [("|".join(sorted(set(x for x in l.split() if x.endswith(")") or "*" in x))) if l.startswith("r0:") else l) for l in out]


def check(tier, replay=None):
    return engcheck.run_property("C02", tier, modules=["AscentVerif.Props.C02", "AscentVerif.Props.C02ND", "AscentVerif.Props.C02Phys", "AscentVerif.Props.C02PhysLat", "AscentVerif.Props.C02PhysAgg"], theorems=THEOREMS, trusted=TRUSTED, group="c02",
                                 build=build, oracle=oracle, known=known, canon=canon_byods, what="ascent_par! programs under perturbed schedules",
                                 rule="ascent_par! twins of generated relational / lattice / aggregation programs, with and without #![inter_rule_parallelism], constructed and run "
                                      "in pools of 1..16 threads, under seeded perturbation (yield / spin / sleep at every concurrent index insert); every run must equal the "
                                      "naive model as sets, keep one row per lattice key, and neither panic nor hang")
