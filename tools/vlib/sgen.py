"""Generators of SURFACE programs (C07: every sugar form, in every combination and nesting; C08: in-program macros and call patterns).
Shapes are forced by quota: every rule records the feature tags it really contains, `select` keeps drawing programs until every
required tag has been seen often enough.  One PRNG (core.SplitMix)."""
import copy
from . import eng, surface as S

BOUND = 5          # column values stay in [0, BOUND + 1]


# ------------------------------------------------------------------ schema

def gen_schema(rng, lattice=False):
    """EDB relations first (never in heads), then IDB relations; idb[0] is 'low': its rules read EDB only, so it may be negated"""
    rels = [{"arity": 2}, {"arity": 2, "types": ["int", "opt"]}, {"arity": 1}, {"arity": 3}]
    if rng.chance(1, 2): rels.append({"arity": rng.choice([1, 2, 2]), "types": None})
    nedb = len(rels)
    nidb = rng.range(3, 4)
    for k in range(nidb):
        ar = rng.choice([1, 2, 2, 3]) if k else rng.choice([1, 2])
        tys = ["int"] * ar
        if ar >= 2 and rng.chance(1, 3): tys[rng.range(1, ar - 1)] = "opt"
        rels.append({"arity": ar, "types": tys})
    for d in rels:
        if not d.get("types"): d.pop("types", None)
    return {"rels": rels, "macros": [], "rules": []}, list(range(nedb)), list(range(nedb, nedb + nidb))


def vkey(v): return (1, v[1]) if isinstance(v, tuple) else (0, v)


class Scope:
    def __init__(self, bound=None): self.bound = dict(bound or {})       # var -> "int" | "opt"   (bound on every path)
    def copy(self): return Scope(self.bound)
    def ints(self): return sorted((v for v, t in self.bound.items() if t == "int"), key=vkey)
    def opts(self): return sorted((v for v, t in self.bound.items() if t == "opt"), key=vkey)


class RuleGen:
    """one rule; `tags` collects the features it really contains"""
    def __init__(self, rng, p, edb, idb, first_var=0, local=None):
        self.rng, self.p, self.edb, self.idb = rng, p, edb, idb
        self.nv = first_var
        self.tags = set()
        self.guards = []
        self.none_used = False
        self.allow_or = True
        self.allow_neg = True
        self.allow_pat = True
        self.body_rels = None          # restriction of the relations positive clauses may read
        self.neg_rels = []

    def fresh(self):
        self.nv += 1
        return self.nv - 1

    def tag(self, t, ctx):
        self.tags.add(t)
        if ctx: self.tags.add(ctx + ">" + t)

    # -------------------------------------------------------------- expressions
    def int_ex(self, vs, must_use=None):
        rng = self.rng
        v = must_use if must_use is not None else rng.choice(vs)
        k = rng.below(4)
        if k == 0: return ("add", ("var", v), rng.range(0, 2))
        if k == 1: return ("min", ("var", v), rng.range(1, 4))
        if k == 2 and len(vs) > 1: return ("add", ("var", v), ("var", rng.choice(vs)))
        return ("max", ("var", v), rng.range(0, 3))

    def sat_ex(self, vs):
        """an expression whose value stays in the finite universe (it may flow into a head): saturating"""
        return ("min", self.int_ex(vs), BOUND + 1)

    def test(self, vs):
        rng = self.rng
        a = ("var", rng.choice(vs))
        b = ("var", rng.choice(vs)) if len(vs) > 1 and rng.chance(1, 3) else rng.range(0, BOUND)
        return (rng.choice(["lt", "le", "ne", "eq"]), a, b)

    # -------------------------------------------------------------- clauses
    def rels_for(self, force):
        cand = list(self.body_rels if self.body_rels is not None else range(len(self.p["rels"])))
        if not force: return cand
        out = []
        for r in cand:
            tys = S.rel_types(self.p, r)
            need_int = sum(1 for _, t in force if t == "int"); need_opt = sum(1 for _, t in force if t == "opt")
            if tys.count("opt") >= need_opt and len(tys) - need_opt >= need_int and not self.p["rels"][r].get("lat"): out.append(r)
        return out

    def gen_clause(self, sc, ctx, force=(), want=(), rel=None):
        """a body clause over `rel`; every (var, type) in `force` gets bound by it (plain column, or `?Some(var)` on an opt column)"""
        rng, p = self.rng, self.p
        cand = self.rels_for(force)
        if rel is None and not cand: return None
        r = rel if rel is not None else rng.choice(cand)
        tys = S.rel_types(p, r)
        n = len(tys)
        lat = p["rels"][r].get("lat")
        # place the forced binders
        slot = {}
        cols = rng.shuffle(list(range(n)))
        for (v, t) in force:
            done = False
            for j in cols:
                if j in slot or (lat and j == n - 1): continue
                if tys[j] == t: slot[j] = ("v", v); done = True; break
            if not done and t == "int" and self.allow_pat and not isinstance(v, tuple):
                for j in cols:
                    if j not in slot and tys[j] == "opt": slot[j] = ("some", v); done = True; break
            if not done: return None
        want = set(want)
        args, same_i, same_o, newb = [], [], [], {}
        for j in range(n):
            t = tys[j]
            if j in slot:
                a = slot[j]; args.append(a); newb[a[1]] = "int" if a[0] == "some" else t
                if a[0] == "v" and t == "int": same_i.append(a[1])
                if a[0] == "v" and t == "opt": same_o.append(a[1])
                if a[0] == "some": self.tag("pat", ctx)
                continue
            if lat and j == n - 1:
                v = self.fresh(); args.append(("v", v)); newb[v] = "lat"; continue
            opts = []
            if t == "int":
                opts += ["new"] * 4
                if sc.ints(): opts += ["join"] * 3 + ["expr0"] * (3 if "expr0" in want else 1)
                if same_i: opts += ["rep"] * (6 if "rep" in want else 2) + ["expr1"] * (6 if "expr1" in want else 2)
                opts += ["const"] * (3 if "const" in want else 1) + ["wild"] * (3 if "wild" in want else 1)
            else:
                opts += ["new"] * 2 + ["wild"] * (2 if "wild" in want else 1)
                if self.allow_pat: opts += ["pat"] * (6 if "pat" in want else 3)
                if self.allow_pat and not self.none_used: opts += ["none"] * (4 if "none" in want else 1)
                if sc.opts(): opts += ["join"] * 2
                if same_o: opts += ["rep"] * 2
                if sc.ints() or same_i: opts += ["esome"]
                opts += ["enone"]
            k = rng.choice(opts)
            if k == "new":
                v = self.fresh(); args.append(("v", v)); newb[v] = t
                (same_i if t == "int" else same_o).append(v)
            elif k == "join":
                args.append(("v", rng.choice(sc.ints() if t == "int" else sc.opts()))); self.tag("join", ctx)
            elif k == "rep":
                args.append(("v", rng.choice(same_i if t == "int" else same_o))); self.tag("rep", ctx)
            elif k == "const":
                args.append(("e", rng.range(0, 3))); self.tag("const", ctx)
            elif k == "expr0":
                args.append(("e", self.int_ex(sc.ints()))); self.tag("expr0", ctx)
            elif k == "expr1":
                args.append(("e", self.int_ex(same_i + sc.ints(), must_use=rng.choice(same_i)))); self.tag("expr1", ctx)
            elif k == "wild":
                args.append(("_",)); self.tag("wild", ctx)
            elif k == "pat":
                v = self.fresh(); args.append(("some", v)); newb[v] = "int"; self.tag("pat", ctx)
            elif k == "none":
                args.append(("none",)); self.none_used = True; self.tag("none", ctx)
            elif k == "esome":
                vs = same_i + sc.ints()
                e = ("var", rng.choice(vs)) if rng.chance(1, 2) else self.int_ex(vs)
                args.append(("e", ("somex", e))); self.tag("expr1" if (gen_vars(e) & set(same_i)) else "expr0", ctx)
            else:
                args.append(("e", "none")); self.tag("const", ctx)
        kinds = {a[0] for a in args}
        if "some" in kinds and any(a[0] == "v" and args.count(a) > 1 for a in args): self.tag("pat+rep", ctx)
        if "some" in kinds and "e" in kinds: self.tag("pat+expr", ctx)
        if "_" in kinds and "e" in kinds: self.tag("wild+expr", ctx)
        conds = []
        ints_after = sc.ints() + [v for v, t in newb.items() if t == "int"]
        if ints_after and ("cond" in want or rng.chance(1, 5)):
            conds.append(("if", self.test(ints_after))); self.tag("cond", ctx)
            if rng.chance(1, 3):
                w = self.fresh(); conds.append(("let", w, self.sat_ex(ints_after))); newb[w] = "int"
        for v, t in newb.items():
            if t != "lat": sc.bound[v] = t
        return ("cl", r, args, conds)

    def gen_neg(self, sc, ctx, rels):
        rng = self.rng
        r = rng.choice(rels)
        args = []
        for t in S.rel_types(self.p, r):
            k = rng.below(10)
            if t == "int":
                if sc.ints() and k < 5: args.append(("e", ("var", rng.choice(sc.ints()))))
                elif sc.ints() and k < 7: args.append(("e", self.int_ex(sc.ints())))
                elif k < 8: args.append(("e", rng.range(0, 3)))
                else: args.append(("_",))
            else:
                if sc.opts() and k < 4: args.append(("e", ("var", rng.choice(sc.opts()))))
                elif sc.ints() and k < 6: args.append(("e", ("somex", ("var", rng.choice(sc.ints())))))
                elif k < 7: args.append(("e", "none"))
                else: args.append(("_",))
        self.tag("neg", ctx)
        if any(a[0] == "_" for a in args): self.tag("neg+wild", ctx)
        return ("neg", r, args)

    def gen_free(self, sc, ctx):
        """a free-standing condition / generator"""
        rng = self.rng
        ints = sc.ints()
        k = rng.below(4)
        if k == 0 and ints: return ("if", self.test(ints))
        if k == 1 and ints:
            v = self.fresh(); sc.bound[v] = "int"; return ("let", v, self.sat_ex(ints))
        if k == 2:
            v = self.fresh(); sc.bound[v] = "int"
            return ("for", v, ("range", rng.range(0, 2), rng.range(2, 4)) if rng.chance(2, 3) else ("list", [rng.range(0, 4) for _ in range(rng.range(1, 3))]))
        v = self.fresh(); sc.bound[v] = "int"
        src = ("somex", ("var", rng.choice(ints))) if ints and rng.chance(2, 3) else (("somex", rng.range(0, 3)) if rng.chance(3, 4) else "none")
        return ("iflet", v, src)

    # -------------------------------------------------------------- sequences and disjunctions
    def gen_or(self, sc, ctx, depth, force=(), want=(), nalts=None):
        rng = self.rng
        nalts = nalts or rng.choice([2, 2, 3])
        export = list(force)
        for _ in range(rng.choice([0, 1, 1, 2])):
            export.append((self.fresh(), "int" if rng.chance(4, 5) else "opt"))
        ctx2 = (ctx + ">or") if ctx else "or"
        alts = []
        none_before = self.none_used
        none_any = False
        for a in range(nalts):
            self.none_used = none_before          # alternatives never meet in one product rule
            sca = sc.copy()
            items = self.gen_seq(sca, ctx2, depth + 1, rng.range(1, 2), force=export, want=want if a == 0 else ())
            if items is None: return None
            none_any = none_any or self.none_used
            alts.append(items)
        self.none_used = none_before or none_any
        for v, t in export: sc.bound[v] = t
        self.tag("or", ctx)
        if depth >= 1: self.tags.add("or>or")
        return ("or", alts)

    def gen_seq(self, sc, ctx, depth, units, force=(), want=()):
        rng = self.rng
        out = []
        want = list(want)
        for u in range(units):
            w = [want.pop()] if want else []
            if u == 0 and force:
                if self.allow_or and depth < 2 and (("or" in w) or rng.chance(1, 6)):
                    it = self.gen_or(sc, ctx, depth, force=force, want=[x for x in w if x != "or"])
                else:
                    it = self.gen_clause(sc, ctx, force=force, want=w)
                if it is None: return None
                out.append(it); continue
            k = rng.below(20)
            if "or" in w or (self.allow_or and depth < 2 and k < 3):
                it = self.gen_or(sc, ctx, depth, want=[x for x in w if x != "or"]) if self.allow_or and depth < 2 else None
                if it is None: it = self.gen_clause(sc, ctx, want=w)
            elif "neg" in w or (self.allow_neg and k < 5):
                it = self.gen_neg(sc, ctx, self.neg_rels) if self.allow_neg and self.neg_rels else self.gen_clause(sc, ctx, want=w)
            elif k < 7 and (sc.bound or k == 6):
                it = self.gen_free(sc, ctx)
            else:
                it = self.gen_clause(sc, ctx, want=w)
            if it is None: return None
            out.append(it)
        return out

    # -------------------------------------------------------------- heads
    def gen_head(self, sc, h):
        rng = self.rng
        args = []
        for t in S.rel_types(self.p, h):
            x = rng.below(100)
            if t == "int":
                if sc.ints() and x < 70: args.append(("var", rng.choice(sc.ints())))
                elif sc.ints() and x < 85:
                    v = rng.choice(sc.ints()); args.append(("add", ("var", v), 1)); self.guards.append(("if", ("lt", ("var", v), BOUND)))
                else: args.append(rng.range(0, 3))
            else:
                if sc.opts() and x < 50: args.append(("var", rng.choice(sc.opts())))
                elif sc.ints() and x < 80: args.append(("somex", ("var", rng.choice(sc.ints()))))
                elif x < 90: args.append(("somex", rng.range(0, 3)))
                else: args.append("none")
        return (h, args)


def gen_vars(e):
    if isinstance(e, tuple):
        if e[0] == "var": return {e[1]}
        out = set()
        for x in e[1:]: out |= gen_vars(x)
        return out
    return set()


# ------------------------------------------------------------------ C07 programs

C07_TAGS = ["or", "or>or", "pat", "none", "rep", "join", "const", "expr0", "expr1", "wild", "neg", "cond", "multi-head", "fact",
            "or>rep", "or>pat", "or>expr1", "or>wild", "or>neg", "or>const", "or>or>rep", "or>or>pat", "or>or>expr1", "pat+rep", "pat+expr", "wild+expr", "neg+wild",
            "or>cond", "multi-head+or", "multi-head-fact", "expr1x2", "orxor", "letjoin"]


def expr1_clauses(items):
    """number of clauses of one conjunction that have an expression argument mentioning a variable bound earlier IN THE SAME clause
    (each gets a replacement variable from `rule_desugar_repeated_vars`; two of them in one rule must get different ones)"""
    n = 0
    for it in items:
        if it[0] != "cl": continue
        seen, hit = set(), False
        for a in it[2]:
            if a[0] == "v": seen.add(a[1])
            elif a[0] == "e" and (gen_vars(a[1]) & seen): hit = True
        n += hit
    return n


def gen_c07_rule(rng, p, edb, idb, heads, want, low):
    g = RuleGen(rng, p, edb, idb)
    g.neg_rels = list(edb) + ([idb[0]] if not low else [])
    if low: g.body_rels = list(edb)
    sc = Scope()
    if "orxor" in want:
        # two disjunctions in ONE conjunction whose numbers of alternatives share a factor (2x2, 2x4 via nesting, 3x3): the product of the
        # alternatives must contain every combination exactly once
        want = [w for w in want if w != "orxor"]
        na, nb = rng.choice([(2, 2), (2, 2), (3, 3), (2, 4), (4, 2)])
        pre = g.gen_clause(sc, "", want=()) if rng.chance(1, 2) else None
        o1 = g.gen_or(sc, "", 0, nalts=na)
        o2 = g.gen_or(sc, "", 0, nalts=nb) if o1 is not None else None
        if o1 is None or o2 is None: return None, None
        body = ([pre] if pre is not None else []) + [o1, o2]
        g.tags.add("orxor")
    elif "letjoin" in want:
        # a `let` ATTACHED to a clause (no comma) whose variable is then a bare argument of a LATER clause: `r(x, ..) let y = x + k, s(y, ..)` -
        # the later clause must be looked up / tested on y (the variable is bound by the attached condition)
        want = [w for w in want if w != "letjoin"]
        cand = [r for r in g.rels_for(()) if S.rel_types(p, r).count("int") >= 1 and not p["rels"][r].get("lat")]
        if not cand: return None, None
        ra, rb = rng.choice(cand), rng.choice(cand)
        x, y = g.fresh(), g.fresh()
        def clause(r, first, conds):
            tys = S.rel_types(p, r)
            j0 = tys.index("int")
            args = []
            for j, t in enumerate(tys):
                if j == j0: args.append(("v", first))
                elif t == "int" and rng.chance(1, 2):
                    v = g.fresh(); args.append(("v", v)); sc.bound[v] = "int"
                else: args.append(("_",))
            return ("cl", r, args, conds)
        c1 = clause(ra, x, [("let", y, ("add", ("var", x), rng.range(0, 1)))])
        sc.bound[x] = "int"; sc.bound[y] = "int"
        mid = [g.gen_clause(sc, "", want=())] if rng.chance(1, 3) else []
        if mid == [None]: mid = []
        c2 = clause(rb, y, [])
        g.tags.add("letjoin")
        rest = g.gen_seq(sc, "", 0, rng.range(0, 1), want=want)
        body = None if rest is None else [c1] + mid + [c2] + rest
    elif "expr1x2" in want:
        # two clauses of one conjunction, each with an expression argument over a variable the clause itself binds: `r(a, a + 1), q(b, b + 2)`
        want = [w for w in want if w != "expr1x2"]
        cand = [r for r in g.rels_for(()) if S.rel_types(p, r).count("int") >= 2 and not p["rels"][r].get("lat")]
        if not cand: return None, None
        pre = []
        for k in (1, 2):
            r = rng.choice(cand)
            tys = S.rel_types(p, r)
            ints = [j for j, t in enumerate(tys) if t == "int"]
            a = g.fresh()
            args = []
            for j, t in enumerate(tys):
                if j == ints[0]: args.append(("v", a))
                elif j == ints[1]: args.append(("e", ("add", ("var", a), k)))
                elif t == "int" and rng.chance(1, 2):
                    v = g.fresh(); args.append(("v", v)); sc.bound[v] = "int"
                else: args.append(("_",))
            sc.bound[a] = "int"
            pre.append(("cl", r, args, []))
        g.tag("expr1", "")
        rest = g.gen_seq(sc, "", 0, rng.range(0, 1), want=want)
        body = None if rest is None else pre + rest
    else:
        body = g.gen_seq(sc, "", 0, rng.range(1, 3), want=want)
    if body is None or not sc.bound: return None, None
    if expr1_clauses(body) >= 2: g.tags.add("expr1x2")
    hs = [g.gen_head(sc, h) for h in heads]
    if len(hs) > 1:
        g.tags.add("multi-head")
        if "or" in g.tags: g.tags.add("multi-head+or")
    return {"heads": hs, "body": body + g.guards}, g.tags


def gen_c07_program(rng):
    p, edb, idb = gen_schema(rng)
    tags = set()
    wants = rng.shuffle(["or", "pat", "rep", "expr1", "wild", "neg", "const", "cond", "none", "expr0", "expr1x2", "orxor", "letjoin"])
    plan = [[idb[0]]] + [[h] for h in idb[1:]] + [[rng.choice(idb[1:]), rng.choice(idb)]] + [[rng.choice(idb[1:])] for _ in range(rng.range(1, 3))]
    for heads in plan:
        heads = list(dict.fromkeys(heads))
        low = idb[0] in heads
        for attempt in range(20):
            w = [wants.pop()] if wants else []
            if wants and rng.chance(1, 2): w.append(wants.pop())
            r, t = gen_c07_rule(rng.fork(f"r{len(p['rules'])}a{attempt}"), p, edb, idb, heads, w, low)
            if r is not None:
                p["rules"].append(r); tags |= t; break
            wants = w + wants
    # facts
    if rng.chance(2, 3):
        hs = [rng.choice(idb) for _ in range(rng.choice([1, 1, 2]))]
        g = RuleGen(rng, p, edb, idb)
        p["rules"].append({"heads": [g.gen_head(Scope(), h) for h in hs], "body": []})
        tags.add("fact")
        if len(hs) > 1: tags.add("multi-head-fact")
    return p, tags


def gen_input(rng, p, rels=None, max_rows=7):
    dom = rng.range(2, BOUND)
    inp = {}
    for r, d in enumerate(p["rels"]):
        tys = S.rel_types(p, r)
        n = 0 if rng.below(12) == 0 else rng.range(1, max_rows)
        if rels is not None and r not in rels: n = rng.choice([0, 0, 1, 2])
        rows = []
        for _ in range(n):
            t = tuple((rng.range(0, dom) if ty == "int" else ("none" if rng.chance(1, 3) else ("some", rng.range(0, dom)))) for ty in tys)
            if d.get("lat") and any(x[:-1] == t[:-1] for x in rows): continue
            rows.append(t)
        inp[r] = list(dict.fromkeys(rows))
    # plant rows that satisfy the clauses whose expression arguments mention a variable bound by the clause itself (`r(a, a + 1)`): random rows
    # rarely do, and a rule with two such clauses needs a match of EACH (with different values) to tell a correct desugaring from a wrong one
    def walk(items):
        for it in items:
            if it[0] == "cl": yield it
            elif it[0] == "or":
                for alt in it[1]: yield from walk(alt)
    for ru in p["rules"]:
        for cl in walk(ru["body"]):
            r = cl[1]
            if p["rels"][r].get("lat") or (rels is not None and r not in rels): continue
            tys = S.rel_types(p, r)
            seen = {}
            plant = False
            for j, a in enumerate(cl[2]):
                if a[0] == "v": seen.setdefault(a[1], j)
                elif a[0] == "e" and isinstance(a[1], tuple) and (gen_vars(a[1]) & set(seen)): plant = True
            if not plant: continue
            for base in (rng.range(0, 2), rng.range(2, 4)):
                env = {}
                row = []
                ok = True
                for j, a in enumerate(cl[2]):
                    if tys[j] != "int": row.append("none"); continue
                    if a[0] == "v":
                        env.setdefault(a[1], base + len(env)); row.append(env[a[1]])
                    elif a[0] == "e":
                        try: row.append(eng.ev(a[1], env))
                        except Exception: ok = False; break
                    else: row.append(base)
                if ok and all(isinstance(x, int) or x == "none" for x in row) and tuple(row) not in inp.get(r, []):
                    inp.setdefault(r, []).append(tuple(row))
    return inp


def usable(p):
    """the documented expansion exists, is stratifiable, and the oracle converges on a probe input"""
    try:
        q = S.expand_spec(p)
    except (S.RecursiveMacro, ValueError):
        return None
    if not eng.stratifiable(q): return None
    if len(q["rules"]) > 36 or any(len(r["body"]) > 14 for r in q["rules"]): return None       # disjunction products: keep rustc time bounded
    try:
        # values must stay in a finite universe: the oracle has to converge quickly on a dense probe input
        probe = {r: [tuple((k + j) % 4 if t == "int" else (("some", (k + j) % 3) if k % 2 else "none") for j, t in enumerate(S.rel_types(p, r))) for k in range(4)]
                 for r in range(len(p["rels"])) if not p["rels"][r].get("lat")}
        eng.naive_model(q, probe, max_iters=40)
    except RuntimeError:
        return None
    return q


def select(rng, genf, required, per_tag, max_programs, tries=4000):
    """draw programs until every required tag has been seen `per_tag` times (quota, not chance)"""
    have = {t: 0 for t in required}
    out = []
    for i in range(tries):
        if all(c >= per_tag for c in have.values()) or len(out) >= max_programs: break
        p, tags = genf(rng.fork(f"cand{i}"))
        q = usable(p)
        if q is None: continue
        gain = [t for t in tags if t in have and have[t] < per_tag]
        if not gain and len(out) >= max_programs // 2: continue
        if not gain and i % 3: continue
        out.append((p, q, tags))
        for t in tags:
            if t in have: have[t] += 1
    return out, have


# ------------------------------------------------------------------ C08 programs (macros)

C08_TAGS = ["or-then-again", "twice", "clash-before", "clash-after", "site-or", "body-or", "nested-body", "nested-head", "head-macro", "expr-param", "ident-in", "ident-out",
            "local-pat", "local-cond", "body-attached-cond", "body-attached-let", "local-neg", "twice-nested", "nested-passes-local", "expr-arg-mentions-clash", "macro-in-fact-head", "chain-twice", "chain-clash", "suffix-twice", "block-shadow", "nested-local-same-spelling", "rust-macro-nested"]


def gen_macro_body(rng, p, edb, idb, params, nested=None, want=()):
    """body of a macro with parameter modes: ("out", "int") is bound by the body (plain column of its first clause / every alternative of a
    leading disjunction), ("in", "int") is read only (it must be bound at the call site), ("expr",) is an int expression"""
    g = RuleGen(rng, p, edb, idb)
    g.neg_rels = list(edb)
    g.body_rels = list(edb) + list(idb)
    g.none_used = True        # `?None` inside a macro body is the class of finding F27 (targeted stream in c08.py)
    tags = set()
    sc = Scope()
    outs = [(("p", i), "int") for i, m in enumerate(params) if m == "out"]
    ins = [("p", i) for i, m in enumerate(params) if m in ("in", "expr")]
    for v in ins: sc.bound[v] = "int"
    items = []
    first_want = [w for w in want if w in ("or",)]
    units = rng.range(1, 2)
    seq = g.gen_seq(sc, "", 0, units, force=outs or [(g.fresh(), "int")], want=[w for w in want if w in ("or", "pat", "cond", "neg")])
    if seq is None: return None, None
    items += seq
    if nested is not None and (("nested" in want) or rng.chance(1, 2)):
        mi, mparams = nested
        args = []
        ok = True
        idents = lambda: [v for v in sc.ints() if not (isinstance(v, tuple) and params[v[1]] == "expr")]
        # read-only arguments (`in`, `expr`) must be bound BEFORE the invocation: a variable the invocation itself binds through an `out` parameter
        # is not yet bound where the nested body reads the `in` parameter (m0!(v, v) with m0's first clause `r(($p1 + 0), $p0)` does not compile)
        pre_idents, pre_ints = list(idents()), list(sc.ints())
        for m in mparams:
            if m == "out":
                if rng.chance(1, 2) and idents(): args.append(("id", rng.choice(idents())))          # joins inside the nested macro
                else:
                    v = g.fresh(); args.append(("id", v)); sc.bound[v] = "int"
            elif m == "in":
                if not pre_idents: ok = False; break
                args.append(("id", rng.choice(pre_idents)))
            else:
                if not pre_ints: ok = False; break
                args.append(("ex", g.int_ex(pre_ints)))
        if ok:
            items.append(("mac", mi, args)); tags.add("nested-body")
            locs = [a[1] for a in args if a[0] == "id" and isinstance(a[1], int)] + [v for a in args if a[0] == "ex" for v in gen_vars(a[1]) if isinstance(v, int)]
            if locs: tags.add("nested-passes-local")
    if rng.chance(1, 2) and sc.ints():
        items.append(("if", g.test(sc.ints()))); tags.add("local-cond")
    att = attached_conds(items)
    if any(gen_locals(c) for c in att): tags.add("body-attached-cond")          # an attached condition reads / binds a macro-local (former class of F25)
    if any(c[0] in ("let", "iflet") and isinstance(c[1], int) for c in att): tags.add("body-attached-let")
    if "or" in g.tags: tags.add("body-or")
    if "pat" in g.tags: tags.add("local-pat")
    if "neg" in g.tags: tags.add("local-neg")
    if any(m == "expr" for m in params): tags.add("expr-param")
    if any(m == "in" for m in params): tags.add("ident-in")
    if any(m == "out" for m in params): tags.add("ident-out")
    return items + g.guards, tags


def gen_locals_in_exprs(items):
    """does some expression (argument, condition, generator bound) of these body items READ a macro-local variable (an int-numbered one)?"""
    def ex_has(e): return any(isinstance(v, int) for v in gen_vars(e))
    def bx_has(b):
        if b == "tt": return False
        if b[0] in ("and", "or"): return bx_has(b[1]) or bx_has(b[2])
        if b[0] == "not": return bx_has(b[1])
        return ex_has(b[1]) or ex_has(b[2])
    def cond_has(c): return bx_has(c[1]) if c[0] == "if" else ex_has(c[2])
    for it in items:
        if it[0] == "cl" and (any(a[0] == "e" and ex_has(a[1]) for a in it[2]) or any(cond_has(c) for c in it[3])): return True
        if it[0] in ("if", "let", "iflet") and cond_has(it): return True
        if it[0] == "or" and any(gen_locals_in_exprs(alt) for alt in it[1]): return True
    return False


def attached_conds(items):
    """the conditions attached to clauses (no comma), through disjunctions"""
    out = []
    for it in items:
        if it[0] == "cl": out += list(it[3])
        elif it[0] == "or":
            for a in it[1]: out += attached_conds(a)
    return out


def gen_locals(x):
    """macro-local variable numbers mentioned anywhere in a condition (reads and binders; parameters are tuples)"""
    out = set()
    def walk(y):
        if isinstance(y, tuple) and len(y) == 2 and y[0] == "var" and isinstance(y[1], int): out.add(y[1])
        if isinstance(y, tuple) and len(y) == 3 and y[0] in ("let", "iflet") and isinstance(y[1], int): out.add(y[1])
        if isinstance(y, (tuple, list)):
            for z in y: walk(z)
    walk(x)
    return out


def detach_conds(items):
    """the same body with its conditions as separate items (`r(x), if c` instead of `r(x) if c`).  Until fix 3a6dc9a every macro body of the
    general generator went through this (conditions attached to a clause were the class of finding F25); now only a fraction does, for
    the variety of shapes"""
    out = []
    for it in items:
        if it[0] == "cl" and it[3]:
            out.append(("cl", it[1], it[2], []))
            out += list(it[3])
        elif it[0] == "or":
            out.append(("or", [detach_conds(a) for a in it[1]]))
        else: out.append(it)
    return out


def gen_c08_program(rng):
    p, edb, idb = gen_schema(rng)
    tags = set()
    modes_pool = [["out"], ["out", "in"], ["out", "expr"], ["out", "out"], ["in", "out", "expr"], ["out"]]
    macros, modes = [], []
    nb = rng.range(2, 4)
    for i in range(nb):
        ms = rng.choice(modes_pool)
        nested = (rng.below(i), modes[rng.below(i)]) if i and rng.chance(2, 3) else None
        if nested: nested = (nested[0], modes[nested[0]])
        for attempt in range(30):
            body, t = gen_macro_body(rng.fork(f"m{i}a{attempt}"), p, edb, idb, ms, nested,
                                     want=rng.choice([[], ["or"], ["pat"], ["neg"], ["nested"], ["or", "nested"], ["cond"], ["cond"], ["cond", "nested"]]))
            if body is not None: break
        if body is None: return p, set()
        if rng.chance(1, 4):           # the detached spelling of the same conditions
            body = detach_conds(body); t -= {"body-attached-cond", "body-attached-let"}
        macros.append({"params": ["expr" if m == "expr" else "ident" for m in ms], "body": body}); modes.append(ms); tags |= t
        # printer-level sugar (tools/vlib/surface.py s_ex): every other READ of a macro-local variable `v` inside an expression of this macro's body is written as the block
        # `{ let v = v.clone(); v }` - a shadowing re-binding whose initialiser mentions the variable it re-binds.  The value is that of `v.clone()`; the hygiene pass must
        # rename the occurrence in the initialiser (free) and leave the block-bound ones alone (scope-aware walk of block expressions, `block_visit_free_vars_mut`)
        if gen_locals_in_exprs(body) and rng.chance(1, 2): macros[-1]["blk"] = True; tags.add("block-shadow")
        # a second printer-level sugar: every other read of a macro-local variable is written `vec![v.clone()][0].clone()` and every third comparison `!matches!(a < b, false)` -
        # Rust macro invocations NESTED inside a larger expression, whose token streams mention macro-local variables (the hygiene pass renames identifiers inside the token
        # streams of Rust macros wherever they sit in the expression, `expr_visit_idents_in_macros_mut`)
        elif gen_locals_in_exprs(body) and rng.chance(1, 2): macros[-1]["rsm"] = True; tags.add("rust-macro-nested")
    # a "chain" macro whose only macro-local identifier is bound exclusively through the arguments of NESTED invocations:
    #   macro hop($a, $b) { r($a, $b) }   macro chain($a, $b) { hop!($a, mid), hop!(mid, $b) }
    # (renaming the locals of `chain` must also see the identifiers it hands to nested invocations)
    chain = None
    two_int = [r for r in list(edb) + list(idb[1:]) if S.rel_types(p, r).count("int") >= 2 and not p["rels"][r].get("lat")]
    if two_int and rng.chance(2, 3):
        r = rng.choice(two_int)
        tys = S.rel_types(p, r)
        ints = [j for j, t in enumerate(tys) if t == "int"][:2]
        hop_args = [("v", ("p", ints.index(j))) if j in ints else ("_",) for j in range(len(tys))]
        macros.append({"params": ["ident", "ident"], "body": [("cl", r, hop_args, [])]}); modes.append(["out", "out"])
        hop = len(macros) - 1
        mid = 50 + rng.below(3)          # spelled like a call-site variable of the rules below
        macros.append({"params": ["ident", "ident"], "body": [("mac", hop, [("id", ("p", 0)), ("id", mid)]), ("mac", hop, [("id", mid), ("id", ("p", 1))])]})
        modes.append(["out", "out"])
        chain = (len(macros) - 1, mid)
        tags.add("nested-body"); tags.add("nested-passes-local")
    # a macro whose two locals are spelled `vL` and `vL1` (one is the other followed by a digit), invoked twice in one rule: the names generated for the
    # second expansion of `vL` and for the first expansion of `vL1` must differ (the generated-name scheme must be injective in (name, counter))
    sfx = None
    if two_int and rng.chance(2, 3):
        r = rng.choice([x for x in two_int if x in edb] or two_int)       # preferably an input relation: walks of six hops exist on the generated inputs
        tys = S.rel_types(p, r)
        ints = [j for j, t in enumerate(tys) if t == "int"][:2]
        L = 7 + rng.below(3)
        def hop(a, b):
            vals = {ints[0]: a, ints[1]: b}
            return ("cl", r, [("v", vals[j]) if j in vals else ("_",) for j in range(len(tys))], [])
        macros.append({"params": ["ident", "ident"], "body": [hop(("p", 0), L), hop(L, 10 * L + 1), hop(10 * L + 1, ("p", 1))]}); modes.append(["out", "out"])
        sfx = len(macros) - 1
    # nested invocation whose ARGUMENT is a local of the outer macro spelled exactly like a local of the inner macro:
    #   macro steps($a: expr, $b: ident) { r($a, t), r(t, $b) }      macro from($r: ident) { r(t, _), steps!(t, $r) }
    # (the outer `t` handed to `steps!` is a token of ANOTHER macro's body: the pass that renames the inner macro's locals must leave it alone)
    same = None
    if two_int and rng.chance(2, 3):
        r = rng.choice([x for x in two_int if x in edb] or two_int)
        tys = S.rel_types(p, r)
        ints = [j for j, t in enumerate(tys) if t == "int"][:2]
        L = 3 + rng.below(3)
        def cl2(a, b):
            vals = {ints[0]: a, ints[1]: b}
            return ("cl", r, [(vals[j] if j in vals else ("_",)) for j in range(len(tys))], [])
        macros.append({"params": ["expr", "ident"], "body": [cl2(("e", ("var", ("p", 0))), ("v", L)), cl2(("v", L), ("v", ("p", 1)))]}); modes.append(["expr", "out"])
        inner = len(macros) - 1
        arg = ("ex", ("var", L)) if rng.chance(2, 3) else ("ex", ("add", ("var", L), 0))
        macros.append({"params": ["ident"], "body": [cl2(("v", L), ("_",)), ("mac", inner, [arg, ("id", ("p", 0))])]}); modes.append(["out"])
        same = len(macros) - 1
        tags.add("nested-body")
    # head macros: parameters are expressions / identifiers that are read only
    nh = rng.range(1, 2)
    hmacs = []
    for k in range(nh):
        i = len(macros)
        ms = rng.choice([["in"], ["in", "expr"], ["expr", "in"], ["expr"]])
        hm = {"params": ["expr" if m == "expr" else "ident" for m in ms], "heads": []}
        for _ in range(rng.range(1, 2)):
            h = rng.choice(idb[1:])
            args = []
            for t in S.rel_types(p, h):
                e = ("var", ("p", rng.below(len(ms)))) if rng.chance(3, 4) else rng.range(0, 3)
                args.append(e if t == "int" else ("somex", e))
            hm["heads"].append((h, args))
        nestable = [(j, jms) for j, jms in hmacs if "in" in ms or "in" not in jms]
        if nestable and rng.chance(1, 2):
            j, jms = rng.choice(nestable)
            hm["heads"].append(("mac", j, [("id", ("p", ms.index("in"))) if m == "in" else ("ex", ("add", ("var", ("p", rng.below(len(ms)))), 0)) for m in jms]))
            tags.add("nested-head")
        macros.append(hm); modes.append(ms); hmacs.append((i, ms)); tags.add("head-macro")
    p["macros"] = macros
    bmacs = [i for i, m in enumerate(macros) if "body" in m]
    def mac_locals(mi):
        out = set()
        def walk(x):
            if isinstance(x, tuple) and len(x) == 2 and x[0] in ("v", "var", "some", "id") and isinstance(x[1], int): out.add(x[1])
            if isinstance(x, tuple) and len(x) == 3 and x[0] in ("let", "iflet", "for") and isinstance(x[1], int): out.add(x[1])
            if isinstance(x, (tuple, list)):
                for y in x: walk(y)
        walk(macros[mi]["body"])
        return out
    # rules: call patterns by quota
    patterns = rng.shuffle(["twice", "clash", "site-or", "plain", "twice", "clash", "site-or-again"])
    for ri, pat in enumerate(patterns[: rng.range(4, 6)]):
        g = RuleGen(rng.fork(f"rule{ri}"), p, edb, idb)
        g.neg_rels = list(edb); g.allow_or = False
        sc = Scope()
        body = []
        if pat != "plain" or rng.chance(1, 2):
            it = g.gen_clause(sc, "", want=())
            if it is None: continue
            body.append(it)                 # call-site variables v0, v1 .. are spelled like the macro-local ones
            if sc.bound: tags.add("clash-before")
        def invoke(mi, sc, share=None):
            args = []
            pre = sc.copy()           # expression / read-only arguments mention only what is bound BEFORE the invocation
            for j, m in enumerate(modes[mi]):
                if m == "out":
                    if share is not None and share[j][0] == "id" and g.rng.chance(1, 2): args.append(share[j]); continue
                    if sc.ints() and g.rng.chance(1, 3): args.append(("id", g.rng.choice(sc.ints())))
                    else:
                        v = g.fresh(); args.append(("id", v)); sc.bound[v] = "int"
                elif m == "in":
                    if not pre.ints(): return None
                    args.append(("id", g.rng.choice(pre.ints())))
                else:
                    if not pre.ints(): return None
                    args.append(("ex", g.int_ex(pre.ints())))
                    if gen_vars(args[-1][1]) & mac_locals(mi): tags.add("expr-arg-mentions-clash")
            return ("mac", mi, args)
        mi = g.rng.choice(bmacs)
        if pat in ("site-or", "site-or-again"):
            cands = [i for i in bmacs if modes[i][0] == "out"]
            # for "site-or-again" the macro invoked inside the disjunction has a macro-local variable and is invoked AGAIN after the disjunction
            # in the same rule: the two invocations must not share the local
            if pat == "site-or-again": cands = [i for i in cands if mac_locals(i)]
            if not cands: continue
            exp = g.fresh()
            alts, ok = [], True
            for a in range(2):
                sca = sc.copy()
                if a == 0:
                    mi2 = g.rng.choice(cands)      # this alternative binds the exported variable through the macro's first `out` parameter
                    inv = invoke(mi2, sca)
                    if inv is None: ok = False; break
                    alts.append([("mac", mi2, [("id", exp)] + inv[2][1:])])
                else:
                    cl = g.gen_clause(sca, "or", force=[(exp, "int")])
                    if cl is None: ok = False; break
                    alts.append([cl])
            if not ok: continue
            body.append(("or", alts)); sc.bound[exp] = "int"; tags.add("site-or")
            if pat == "site-or-again":
                inv2 = invoke(alts[0][0][1], sc)
                if inv2 is not None: body.append(inv2); tags.add("or-then-again")
        else:
            inv = invoke(mi, sc)
            if inv is None: continue
            body.append(inv)
            if pat == "twice":
                inv2 = invoke(mi, sc, share=inv[2] if g.rng.chance(1, 2) else None)
                if inv2 is not None:
                    body.append(inv2); tags.add("twice")
                    if any(it[0] == "mac" for it in macros[mi]["body"]): tags.add("twice-nested")
            if pat == "clash":
                # a FIRST occurrence, after the invocation, of a variable spelled like a macro-local one
                cand = sorted(l for l in mac_locals(mi) if l >= g.nv)
                if cand:
                    g.nv = cand[0]
                    cl = g.gen_clause(sc, "", force=[(g.fresh(), "int")])
                    if cl is not None: body.append(cl); tags.add("clash-after")
        if not sc.bound: continue
        heads = []
        hsel = g.rng.choice(idb[1:])
        if hmacs and g.rng.chance(1, 2) and sc.ints():
            j, jms = g.rng.choice(hmacs)
            heads.append(("mac", j, [("id", g.rng.choice(sc.ints())) if m == "in" else ("ex", g.sat_ex(sc.ints())) for m in jms]))
            if g.rng.chance(1, 2): heads.append(g.gen_head(sc, hsel))
        else:
            heads.append(g.gen_head(sc, hsel))
        p["rules"].append({"heads": heads, "body": body + g.guards})
    if chain is not None:
        ci, mid = chain
        two = [h for h in idb[1:] if S.rel_types(p, h) == ["int", "int"]]
        one = [h for h in idb[1:] if S.rel_types(p, h)[0] == "int"]
        def head(h, a, b):
            tys = S.rel_types(p, h)
            vals = [("var", a), ("var", b)]
            return (h, [(vals[k] if k < 2 else 0) if t == "int" else "none" for k, t in enumerate(tys)])
        hs = two or one
        if hs:
            # the same macro twice in one rule: the two expansions must not share `mid`
            p["rules"].append({"heads": [head(rng.choice(hs), 60, 62)], "body": [("mac", ci, [("id", 60), ("id", 61)]), ("mac", ci, [("id", 61), ("id", 62)])]})
            tags.add("chain-twice")
            # a call-site variable spelled exactly like the macro-local `mid`
            p["rules"].append({"heads": [head(rng.choice(hs), mid, 63)], "body": [("mac", ci, [("id", mid), ("id", 63)])]})
            tags.add("chain-clash")
    if same is not None:
        p["rels"].append({"arity": 1})
        h = len(p["rels"]) - 1
        p["rules"].append({"heads": [(h, [("var", 67)])], "body": [("mac", same, [("id", 67)])]})
        tags.add("nested-local-same-spelling")
    if sfx is not None:
        # its own head relation (nothing else derives it): a lost tuple is not masked by the other rules of the program
        p["rels"].append({"arity": 2})
        h = len(p["rels"]) - 1
        p["rules"].append({"heads": [(h, [("var", 64), ("var", 66)])], "body": [("mac", sfx, [("id", 64), ("id", 65)]), ("mac", sfx, [("id", 65), ("id", 66)])]})
        tags.add("suffix-twice")
    # a rule for the low relation and a head macro used in a fact
    g = RuleGen(rng.fork("low"), p, edb, idb); g.neg_rels = list(edb); g.body_rels = list(edb)
    sc = Scope(); it = g.gen_clause(sc, "")
    if it is not None and sc.bound: p["rules"].append({"heads": [g.gen_head(sc, idb[0])], "body": [it] + g.guards})
    allexpr = [(j, jms) for j, jms in hmacs if all(m == "expr" for m in jms) and not any(h[0] == "mac" for h in macros[j]["heads"])]
    if allexpr:
        j, jms = rng.choice(allexpr)
        p["rules"].append({"heads": [("mac", j, [("ex", rng.range(0, 3)) for m in jms])], "body": []})
        tags.add("macro-in-fact-head")
    return p, tags
