"""C12 — a relation tagged `#[ds(trrel_uf)]` behaves as the same relation closed by explicit reflexivity + transitivity rules.

Tie B: generated programs with one tagged relation are compiled against the repository and run; their plain (observer) relations
must equal those of the explicit-closure twin (`eng.twin`) under the independent naive oracle; the twin is also run through the Lean
engine model (proved = least model, C01), and the TAGGED program through the bug-faithful Lean model of the generated code over
the provider model (Model/EngineDs.lean over Model/TrRelUFInd.lean; `dsx …`), which the implementation must reproduce.
Tie C: the provider's `rel_ind_common` triple and all its views, driven through the real trait methods (harness/ds `tri …`),
against the Lean provider model and the provider contract of tools/vlib/c12tri.py.
Known findings (F8 F11 F12 F14 F17 F18) are attributed only inside their class predicates AND only when the implementation's output
is exactly what the bug-faithful model predicts."""
import json, os, re
from . import core, eng, engcheck, tieb, tiec, c12gen, c12tri

THEOREMS = ["twin_binary_iff_closure", "twin_ternary_iff_closure", "twin_other_relations_untouched", "twin_example",
            "provider_first_batch_contract_partial", "provider_merge_never_new",
            "provider_f12_witness", "provider_f11_witness", "provider_f14_witness", "provider_f8_witness", "provider_f17_repaired",
            "provider_f18_witness"]
TRUSTED = ["Lean 4.33.0 kernel", "axioms: propext, Classical.choice, Quot.sound only (audited per theorem)",
           "statement: Props/C12.lean; Spec/TrClosure.lean (the closure rules as syntax = tools/vlib/eng.py closure_rules, ReflTrans)",
           "models Model/TrRelUFInd.lean (trrel_union_find_binary_ind.rs, adaptor/bin_rel.rs, adaptor/bin_rel_to_ternary.rs) and "
           "Model/EngineDs.lean (ascent_mir.rs / ascent_codegen.rs over one tagged relation) written by hand statement by statement; tied by "
           "compiled programs (tie B) and by op sequences on the real types through the generated code's trait methods (tie C)",
           "oracles independent of the Lean models: eng.naive_model on the explicit-closure twin (tie B), Floyd-Warshall closure contract in "
           "tools/vlib/c12tri.py (tie C)",
           "modelled not verified: hashbrown maps/sets as insertion-ordered lists (observations compared as sets); the one order-dependent "
           "result (self connections left by `add(x,x)` in the first batch) is bracketed by two model runs (self pairs first / last) and the "
           "implementation must lie between them (equal whenever they coincide); `len_estimate` values (only its panic); Rc sharing (value copy)"]


def rs_module_ds(pid, p):
    """eng.rs_module for a program with a ds-tagged relation: its `rel` field is a FakeVec (always empty, not assignable),
    so it is neither loaded nor dumped"""
    text = eng.rs_module(pid, p)
    # the provider holds an Rc: the program value is not Send, so no thread-pool plumbing (serial `ascent!` only)
    a = "match &self.pool { Some(pl) => { let p = &mut self.p; pl.install(|| p.run()) }, None => self.p.run() }"
    b = "let p = match &pool { Some(pl) => pl.install(|| Default::default()), None => Default::default() };"
    assert a in text and b in text
    text = text.replace(a, "self.p.run()").replace(b, "let p = Default::default();")
    for r, d in enumerate(p["rels"]):
        if not d.get("ds"): continue
        f = f"r{r}"
        text = re.sub(r"\n +%d => \{ let v: Vec<[^\n]*\n" % r, f"\n            {r} => return None,\n", text, count=1)
        text = text.replace(f"dump_rel({r}, self.p.{f}.iter().map(Row::render).collect())", f"dump_rel({r}, vec![])")
    return text


def mask(p, line):
    """drop the tagged relation from a dump line (compare only plain relations)"""
    if not line.startswith("r0:"): return line
    parts = line.split(" | ")
    for r, d in enumerate(p["rels"]):
        if d.get("ds"): parts[r] = f"r{r}:"
    return " | ".join(parts)


# ------------------------------------------------------------------ structure of a tagged program, as the macro sees it

def analyze(p, t):
    """rule SCCs (ascent stratifies RULES), per rule: is t dynamic in the rule's SCC, is the SCC looping, and for every body
    clause on t the view it is read through (tuple of bound columns) and whether it is half of a reorderable simple join
    (then `len_estimate` of the view is called)"""
    rules = p["rules"]
    n = len(rules)
    heads = [set(h for h, _ in ru["heads"]) for ru in rules]
    bodies = [set(it[1] for it in ru["body"] if it[0] == "cl") for ru in rules]
    feeds = [[bool(heads[i] & bodies[j]) for j in range(n)] for i in range(n)]
    reach = [[feeds[i][j] for j in range(n)] for i in range(n)]
    for k in range(n):
        for i in range(n):
            if reach[i][k]:
                for j in range(n):
                    if reach[k][j]: reach[i][j] = True
    scc_of = [frozenset([i] + [j for j in range(n) if reach[i][j] and reach[j][i]]) for i in range(n)]
    info = []
    for i, ru in enumerate(rules):
        scc = scc_of[i]
        dyn = set().union(*[heads[j] for j in scc])
        looping = any(bodies[j] & dyn for j in scc)
        cls = [it for it in ru["body"] if it[0] == "cl"]
        simple = len(ru["body"]) >= 2 and ru["body"][0][0] == "cl" and ru["body"][1][0] == "cl"
        if simple:
            a, b = ru["body"][0], ru["body"][1]
            va = [x[1] for x in a[2] if x[0] == "v"]
            simple = all(x[0] == "v" for x in a[2] + b[2]) and len(set(va)) == len(va) and not a[3]
        reads = []
        grounded = set()
        for k, it in enumerate(ru["body"]):
            if it[0] == "cl":
                if simple and k == 0:
                    vb = {x[1] for x in ru["body"][1][2]}
                    view = tuple(c for c, x in enumerate(it[2]) if x[1] in vb)
                else:
                    # a variable repeated inside the clause is desugared into an equality test, not an index column
                    view = tuple(c for c, x in enumerate(it[2]) if x[0] != "v" or x[1] in grounded)
                if it[1] == t:
                    reads.append({"view": view, "len_estimate": simple and k < 2, "dynamic": t in dyn and looping})
                grounded |= {x[1] for x in it[2] if x[0] == "v"}
            elif it[0] in ("let", "iflet", "for"): grounded.add(it[1])
        info.append({"scc": scc, "dyn_t": t in dyn, "looping": looping, "reads": reads})
    # relations downstream of a rule (everything its heads can influence)
    nrel = len(p["rels"])
    radj = {r: set() for r in range(nrel)}
    for ru in rules:
        for it in ru["body"]:
            if it[0] == "cl":
                for h, _ in ru["heads"]: radj[it[1]].add(h)
    def downstream(rule_i):
        out, todo = set(), [h for h, _ in rules[rule_i]["heads"]]
        while todo:
            r = todo.pop()
            if r in out: continue
            out.add(r); todo += list(radj[r])
        return out
    for i in range(n): info[i]["downstream"] = downstream(i)
    return info


class CorpusProg:
    """a witness program of corpus/C12/programs.json in the shape of c12gen.Prog"""
    def __init__(self, p):
        self.p = p
        self.t = [i for i, d in enumerate(p["rels"]) if d.get("ds")][0]
        self.kind = "ter" if p["rels"][self.t]["arity"] == 3 else "bin"
        self.mode = "corpus"
        self.role = {f"r{i}": i for i in range(len(p["rels"]))}


def corpus_programs():
    out = []
    for fn, c in core.corpus("C12"):
        for it in c.get("programs", []):
            p = eng.from_json(it["prog"])
            p = {"rels": [dict(d) for d in p["rels"]], "rules": [{"heads": list(ru["heads"]), "body": list(ru["body"])} for ru in p["rules"]]}
            inp = {int(k): [tuple(t) for t in v] for k, v in it["input"].items()}
            out.append((it["id"], CorpusProg(p), inp, it.get("finding")))
    return out


def build(rng, tier):
    quick = tier == "quick"
    combos = [(k, m, False) for k in ("bin", "ter") for m in c12gen.MODES] + [("ter", m, True) for m in ("sched_in", "reach_in", "sched")]
    progs, mods, cases = {}, [], []
    build.info = {}
    ninp = 10 if quick else 60
    reps = 1 if quick else 3
    for pid, g, inp, fid in corpus_programs():
        g.info = analyze(g.p, g.t)
        progs[pid] = eng.twin(g.p)
        mods.append((pid, rs_module_ds(pid, g.p)))
        build.info[pid] = g
        for r in range(len(g.p["rels"])):
            if r != g.t: inp.setdefault(r, [])
        cases.append(engcheck.Case(pid, pid + "_0", engcheck.std_history(pid + "_0", pid, inp), {"inp": inp, "kind": "corpus-" + (fid or ""), "g": g}))
    # duplicate-sensitive readers: count / sum aggregates over the tagged BINARY relation in a later stratum, with the second (first) element column bound and the other
    # free - `cnt(y, n) <-- node(y), agg n = count() in tr(_, y)`.  A plain relation closed by explicit rules holds every tuple once, so must the provider's index look-ups
    # (each member of a class exactly once).  Inputs put reflexive tuples r(x, x) FIRST in the first batch (an element whose first mention is reflexive)
    for k in range(3 if quick else 8):
        col = lambda a, b: [a, b] if k % 2 == 0 else [b, a]
        ap = {"rels": [{"arity": 2, "ds": "trrel_uf"}, {"arity": 2}, {"arity": 1}, {"arity": 2}, {"arity": 2}],
              "rules": [{"heads": [(0, [("var", 0), ("var", 1)])], "body": [("cl", 1, [("v", 0), ("v", 1)], [])]},
                        {"heads": [(3, [("var", 0), ("var", 21)])], "body": [("cl", 2, [("v", 0)], []), ("agg", [21], "count", [], 0, col("_", ("k", ("var", 0))))]},
                        {"heads": [(4, [("var", 0), ("var", 21)])], "body": [("cl", 2, [("v", 0)], []), ("agg", [21], "sum", [20], 0, col(("b", 20), ("k", ("var", 0))))]}]}
        pid = f"tagg{k}"
        g = CorpusProg(ap); g.info = analyze(g.p, g.t)
        progs[pid] = eng.twin(ap); mods.append((pid, rs_module_ds(pid, ap))); build.info[pid] = g
        for j in range(6 if quick else 20):
            r2 = rng.fork(f"{pid}i{j}")
            n = r2.range(3, 6)
            refl = [(x, x) for x in r2.shuffle(list(range(n)))[: r2.range(1, 3)]]
            rest = [(r2.below(n), r2.below(n)) for _ in range(r2.range(1, 5))]
            e = list(dict.fromkeys(refl + rest if j % 3 else r2.shuffle(refl + rest)))
            inp = {1: e, 2: [(x,) for x in range(n + 1)], 3: [], 4: []}
            inst = f"{pid}_{j}"
            cases.append(engcheck.Case(pid, inst, engcheck.std_history(inst, pid, inp), {"inp": inp, "kind": "aggregate-over-tagged", "g": g, "twin_model": True}))
    for rep in range(reps):
        for kind, mode, av in combos:
            pid = f"t{kind[0]}{mode.replace('_', '')}{'a' if av else ''}{rep}"
            g = c12gen.build(kind, mode, rng.fork(pid), nobs_extra=3 if quick else None, avoid17=av)
            g.info = analyze(g.p, g.t)
            tw = eng.twin(g.p)
            progs[pid] = tw                       # the model and the oracle see the explicit-closure twin
            mods.append((pid, rs_module_ds(pid, g.p)))   # the implementation is the tagged program
            build.info[pid] = g
            for j in range(ninp):
                inp, meta = c12gen.gen_input(rng.fork(f"{pid}i{j}"), g)
                inst = f"{pid}_{j}"
                cases.append(engcheck.Case(pid, inst, engcheck.std_history(inst, pid, inp), {"inp": inp, "kind": f"{kind}-{mode}{'-a' if av else ''}", "g": g, **meta}))
    return progs, mods, cases


def diffs_of(g, twin, inp, dump):
    """{rel: (missing, unexpected)} of the plain relations against the twin's least model; None if there is no dump"""
    if not dump.startswith("r0:"): return None
    spec = engcheck.spec_sets(twin, inp)
    sets, _ = engcheck.dump_sets(dump)
    d = {}
    for rel in range(len(twin["rels"])):
        if rel == g.t: continue
        got, exp = sets.get(rel, set()), spec[rel]
        if got != exp: d[rel] = (exp - got, got - exp)
    return d


def oracle_b(c, twin, out):
    """observers (all plain relations) of the tagged program = those of the explicit-closure twin's least model; no panic"""
    for o in out:
        if o.startswith("panic") or o.startswith("no-output") or o in ("bad-op", "nofuel"): return f"evaluation failed: {o}"
    d = diffs_of(c.meta["g"], twin, c.meta["inp"], out[-1])
    if d is None: return f"run/dump failed: {out[-1]}"
    g = c.meta["g"]
    for rel, (mis, unx) in sorted(d.items()):
        name = [n for n, r in g.role.items() if r == rel][0]
        return f"relation r{rel} ({name}): missing {sorted(mis)[:6]} unexpected {sorted(unx)[:6]}"
    return None


def band_b(g, impl, lo, hi):
    """the implementation reproduces the bug-faithful model: same panic / no panic on run(), and every plain relation lies between
    the two model runs (which coincide unless the first batch of the tagged relation is order sensitive)"""
    pi, pl, ph = (any(o.startswith("panic") for o in x) for x in (impl, lo, hi))
    if pi or pl or ph: return pi and pl and ph
    try:
        si, sl, sh = (engcheck.dump_sets(x[-1])[0] for x in (impl, lo, hi))
    except Exception:
        return False
    for rel in range(len(g.p["rels"])):
        if rel == g.t: continue
        a, b, c = sl.get(rel, set()), si.get(rel, set()), sh.get(rel, set())
        if not (a <= b <= c): return False
    return True


# ------------------------------------------------------------------ known findings: class predicates over program + output

F_TEXT = {
    "F8": "ternary trrel_uf relation growing in a looping stratum: a key that is in `total` but not in `delta` receives new tuples -> "
          "panic `assertion failed: total.is_empty()` (trrel_union_find_binary_ind.rs:160; Default of the per-key provider is the Total variant)",
    "F17": "ternary trrel_uf relation read through the view [1,2] by a two-clause (reorderable) join while its map is empty: "
           "BinRelToTernaryInd1_2::len_estimate divides by sqrt(0) as usize -> panic `attempt to divide by zero`",
    "F18": "ternary trrel_uf relation growing in a looping stratum and read there through a view on column 1 and/or 2: a per-key delta whose "
           "iter_all() is empty is dropped from delta.map while the delta's reverse maps still name the key -> `map.get(x0).unwrap()` panics",
    "F11": "ternary trrel_uf relation read through a view on column 1 and/or 2 without column 0: the reverse maps hold only the columns of "
           "inserted tuples, so reflexive / transitive tuples whose endpoint never occurred in that column are missed",
    "F12": "trrel_uf relation read inside the looping stratum in which it grows: the reflexive pair of an element first mentioned after the "
           "relation's first merge goes straight into `total` (add_node) and is in no delta (TrRelDelta::iter_all / contains skip pairs inside one class)",
    "F14": "ternary trrel_uf relation read through a view on column 1 and/or 2 inside the looping stratum in which it grows: the delta's "
           "reverse maps hold only the columns inserted in this round, delta tuples starting at older elements are missed",
}


def classes(c):
    """the finding classes the CASE is in, by the structure of its program (code over the generated program):
    {finding: set of relations downstream of a rule that reads the tagged relation the way the finding needs}"""
    g = c.meta["g"]
    ter = g.kind == "ter"
    out = {}
    for i, ri in enumerate(g.info):
        for rd in ri["reads"]:
            rev = ter and rd["view"] in ((1,), (2,), (1, 2))
            if ter and rd["view"] == (1, 2) and rd["len_estimate"]: out.setdefault("F17", set()).update(ri["downstream"])
            if rev and not rd["dynamic"]: out.setdefault("F11", set()).update(ri["downstream"])
            if rev and rd["dynamic"]:
                out.setdefault("F14", set()).update(ri["downstream"])
                out.setdefault("F18", set()).update(ri["downstream"])
            if rd["dynamic"] and not rev: out.setdefault("F12", set()).update(ri["downstream"])
    if ter and any(ri["dyn_t"] and ri["looping"] for ri in g.info): out["F8"] = set()
    return out


def known_b(c, twin, impl, inband):
    """a failing case is attributed to a listed finding only if (1) the implementation's output is what the bug-faithful model
    predicts, (2) the case is inside the finding's class: panics by message + structural class; wrong results only if nothing
    unexpected was derived (every listed finding LOSES tuples) and every differing relation is downstream of a rule that reads the
    tagged relation the way the class says"""
    if not inband: return None
    cl = classes(c)
    pan = [o for o in impl if o.startswith("panic")]
    if pan:
        if "assertion failed: total.is_empty()" in pan[0] and "F8" in cl: return ("F8", F_TEXT["F8"])
        # F17 (len_estimate dividing by zero) is repaired in the code: that panic is never a known finding again
        if "called `Option::unwrap()` on a `None` value" in pan[0] and "F18" in cl: return ("F18", F_TEXT["F18"])
        return None
    d = diffs_of(c.meta["g"], twin, c.meta["inp"], impl[-1])
    if not d or any(unx for _, unx in d.values()): return None
    for fid in ("F11", "F14", "F12"):
        if fid in cl and all(r in cl[fid] for r in d): return (fid, F_TEXT[fid])
    cover = set().union(*[v for k, v in cl.items() if k in ("F11", "F12", "F14")]) if cl else set()
    if d and all(r in cover for r in d):
        fid = [f for f in ("F14", "F11", "F12") if f in cl][0]
        return (fid, F_TEXT[fid])
    return None


def known_c(sc, impl, inband):
    """tie C: every deviation from the provider contract must be explained by a finding whose class (over the op sequence) holds,
    and the implementation must reproduce the bug-faithful model"""
    if not inband: return None
    devs = c12tri.deviations(sc["ops"], impl, sc["ter"], sc["es"], sc["ks"])
    cl = c12tri.scenario_classes(sc["ops"], sc["ter"], sc["flags"])
    fids = []
    for dv in devs:
        f = c12tri.explain(dv, cl, sc["ter"])
        if f is None: return None
        fids.append(f)
    return fids or None


def oracle_c(sc, outs):
    devs = c12tri.deviations(sc["ops"], outs, sc["ter"], sc["es"], sc["ks"])
    if not devs: return None
    j, kind, d = devs[0]
    return f"op {j} `{sc['ops'][j]}`: {kind} {d} ({len(devs)} deviations from the provider contract)"


F_TEXT_C = {
    "F12": "provider: after a merge against a non-empty total, the reflexive pair of an element that is new in the batch is in `total` at "
           "once (add_node) and in no view of `delta`",
    "F11": "provider (ternary): views [1], [2], [1,2] go through reverse maps filled from inserted tuples only and miss closure tuples",
    "F14": "provider (ternary): delta views [1], [2], [1,2] see only this round's inserted columns",
    "F8": "provider (ternary): merge panics `assertion failed: total.is_empty()` when a key with content that is not in delta receives tuples",
    "F17": "provider (ternary): len_estimate of the view [1,2] divides by zero on an empty map",
    "F18": "provider (ternary): views [1], [2], [1,2] of delta panic on `map.get(x0).unwrap()` after a per-key delta with empty iter_all() was dropped",
}


def check(tier, replay=None):
    r = core.Report("C12", tier)
    if replay:
        payload = json.load(open(replay))
        os.environ["VERIF_SEED"] = str(payload.get("seed", core.seed()))
    rng = core.SplitMix(core.seed()).fork("C12")
    mods_lean = ["AscentVerif.Props.C12"]
    if os.environ.get("VERIF_DEV_SKIP_PROOF"):
        proof = core.ProofResult(); core.run(["lake", "build", "driver"], cwd=core.LEAN)
    else:
        proof = core.lean_prove(mods_lean, leanchecker=(tier == "thorough"))
        core.require_theorems(proof, THEOREMS)
    r.proof(proof, "lake build AscentVerif.Props.C12 && #audit_module (axioms of every theorem)" + (" && lake env leanchecker" if tier == "thorough" else ""))
    model_ok = proof.ok or os.path.exists(core.lean_driver())
    d = tiec.Decision(r)
    want = None
    if replay:
        first = payload.get("input", "").split("\n")[0]
        want = first
    # ------------------------------------------------------------ tie B
    progs, mods, cases = build(rng.fork("B"), tier if proof.ok else "thorough")
    if want is not None: cases = [c for c in cases if f"# case {c.inst}" == want]
    hist = {}
    if cases or want is None:
        bins, log, wall = tieb.build("c12", mods)
        r.cov["harness_build_s"] = round(wall, 1)
        if bins is None:
            tieb.report_build_failure(r, "c12", mods, log)
            return r.finish(TRUSTED)
        lines, pids = [], []
        for pid, tw in progs.items():
            lines.append(f"eng prog {pid} {eng.sx_prog(tw)}"); pids.append(pid)
        mlines = [f"dsx prog {pid} {build.info[pid].t} {eng.sx_prog(build.info[pid].p)}" for pid in progs]
        spans, mspans = [], []
        for c in cases:
            a = len(lines)
            for o in c.ops: lines.append(o); pids.append(c.pid)
            spans.append((a, len(lines)))
            per = []
            for pol in ("", " selflast"):
                inst = c.inst + ("_hi" if pol else "_lo")
                a2 = len(mlines)
                mlines.append(f"dsx new {inst} {c.pid}{pol}")
                for rel, rows in sorted(c.meta["inp"].items()):
                    mlines.append(f"dsx load {inst} r{rel}" + "".join(" " + eng.sx_tuple(t) for t in rows))
                mlines += [f"dsx run {inst}", f"dsx dump {inst}"]
                per.append((a2, len(mlines)))
            mspans.append(per)
        impl = tieb.run_impl(bins, lines, pids)
        mout = core.run_model(lines + mlines) if model_ok else None
        for c, (a, b), per in zip(cases, spans, mspans):
            g, tw = c.meta["g"], progs[c.pid]
            io = [mask(g.p, x) for x in impl[a:b]]
            text = f"# case {c.inst}\n" + eng.rs_program(g.p) + "\n" + "\n".join(c.ops)
            if mout is not None:
                twin_out = [mask(g.p, x) for x in mout[a:b]]
                off = len(lines)
                lo = ["panic" if x == "panic" else x for x in mout[off + per[0][0]: off + per[0][1]]]
                hi = mout[off + per[1][0]: off + per[1][1]]
                inband = band_b(g, io, lo, hi)
                model_eff = "\n".join(io) if inband else "\n".join(lo)
                # (the provider-level engine model `dsx` has no aggregation items: for those programs the model side is the Lean engine on the explicit-closure twin)
                if c.meta.get("twin_model"): inband, model_eff, lo, hi = False, "\n".join(twin_out), [], []
                wt = oracle_b(c, tw, twin_out)
                if wt is not None:
                    d.model_vs_spec.append({"input": text, "model": "\n".join(twin_out), "why": "Lean engine model on the explicit-closure twin: " + wt})
                if lo != hi: hist["order-sensitive"] = hist.get("order-sensitive", 0) + 1
            else:
                inband, model_eff = False, None
            def orc(_l, out, c=c, tw=tw):
                return oracle_b(c, tw, out.split("\n"))
            kn = lambda _l, i, m, c=c, tw=tw, inband=inband: known_b(c, tw, i.split("\n"), inband)
            d.case(text, "\n".join(io), model_eff, orc, nontrivial=True, known=kn)
            k = c.meta["kind"]; hist[k] = hist.get(k, 0) + 1
        if cases:
            c0 = cases[0]
            r.sample({"program": eng.rs_program(c0.meta["g"].p), "history": c0.ops, "impl": impl[spans[0][0]:spans[0][1]]})
    r.cov["programs"] = len(progs)
    r.cov["case_kinds"] = hist
    # ------------------------------------------------------------ tie C
    binary, blog = tiec.build_ds(r)
    if binary is None:
        r.violation({"kind": "obligation-broken", "no_longer_checks": ["harness/ds does not build against the repository"], "log": blog[-2000:]}, no_input=True)
        return r.finish(TRUSTED)
    if want is not None:
        ops = payload["input"].split("\n")
        scen = [json.loads(ops[0][2:])] if ops and ops[0].startswith("# {") else []
    else:
        scen = corpus_scenarios() + list(scenarios(tier, rng.fork("C"), proof.ok))
    tl = [l for s in scen for l in s["ops"]]
    if tl:
        rc, timpl, tlo, err = tiec.run_both(binary, tl, model_ok)
        thi = core.run_model([l + " selflast" if l.split()[1] in ("mk2", "mk3") else l for l in tl]) if model_ok else None
        if len(timpl) != len(tl) or (tlo is not None and (len(tlo) != len(tl) or len(thi) != len(tl))):
            r.violation({"kind": "obligation-broken", "no_longer_checks": [f"tri harness/model output length impl={len(timpl)} ops={len(tl)} rc={rc}"], "stderr": err[-800:]}, no_input=True)
            return r.finish(TRUSTED)
        pos, thist, amb = 0, {}, 0
        for sc in scen:
            n = len(sc["ops"])
            io = timpl[pos:pos + n]
            lo, hi = (tlo[pos:pos + n], thi[pos:pos + n]) if tlo is not None else (None, None)
            pos += n
            # compare up to and including the first panic (the real object may be half updated afterwards)
            cut = next((j + 1 for j, o in enumerate(io) if o == "panic" and sc["ops"][j].split()[1] != "snap" and sc["ops"][j].split()[1] != "len12"), n)
            sc = dict(sc, ops=sc["ops"][:cut]); io = io[:cut]
            if lo is not None:
                lo, hi = lo[:cut], hi[:cut]
                inband = c12tri.in_band(sc["ops"], io, lo, hi, sc["ter"], sc["es"], sc["ks"])
                model_eff = "\n".join(io) if inband else "\n".join(lo)
                if lo != hi: amb += 1
            else:
                inband, model_eff = False, None
            text = "# " + json.dumps({k: v for k, v in sc.items()}) + "\n" + "\n".join(sc["ops"])
            def orc(_l, out, sc=sc): return oracle_c(sc, out.split("\n"))
            def kn(_l, i, m, sc=sc, inband=inband):
                f = known_c(sc, i.split("\n"), inband)
                if not f: return None
                for x in sorted(set(f))[1:]: r.known(x, F_TEXT_C[x])
                x = sorted(set(f))[0]
                return (x, F_TEXT_C[x])
            nontrivial = sum(1 for o in sc["ops"] if o.split()[1] in ("ins", "head")) >= 2
            d.case(text, "\n".join(io), model_eff, orc, nontrivial=nontrivial, known=kn)
            thist[sc["kind"]] = thist.get(sc["kind"], 0) + 1
        r.cov["tri_scenarios_per_kind"] = thist
        r.cov["tri_op_lines"] = len(tl)
        r.cov["tri_order_sensitive_scenarios"] = amb
    r.cov["rule"] = RULE
    d.conclude(proof, "programs with a trrel_uf relation (tie B) and provider op sequences (tie C)")
    return r.finish(TRUSTED)


def scenarios(tier, rng, proof_ok=True):
    big = tier != "quick" or not proof_ok
    yield from c12tri.exhaustive_bin(nbatch=2, dom=(1, 2, 3), maxb=2 if big else 1)
    if big: yield from c12tri.exhaustive_bin(nbatch=3, dom=(1, 2), maxb=2)
    for i in range(3000 if big else 400):
        yield c12tri.gen_scenario(rng.fork(f"s{i}"), i)


def corpus_scenarios():
    out = []
    for fn, c in core.corpus("C12"):
        for it in (c["scenarios"] if "scenarios" in c else [c]):
            if "ops" in it:
                it = dict(it); it.setdefault("kind", "corpus"); it["flags"] = tuple(it.get("flags", (1, 1)))
                out.append(it)
    return out


RULE = ("tie B: one program per (binary | ternary) x (nonrec, twofeed, sched, sched_in, reach, reach_in, selfext) [+ ternary variants whose "
        "[1,2] observer is not a two-clause join]: the tagged relation in head position of 1-3 rules (non-recursive stratum, two feeding strata, "
        "looping stratum with an input-driven arrival schedule `t(..) <-- tick(i), sched(i, ..)` one tick per iteration, reachability feedback, "
        "self-extension `t(a,c) <-- t(a,b), e2(b,c)`), and in body position of one observer per subset of bound columns (probe relation first = "
        "two-clause join exercising iter_all / index_get / len_estimate; constants; third clause = index_get; repeated variable), observers "
        "outside or (via a rule that can never fire) inside the looping stratum; inputs: chains, cycles, two cycles, late back edge, self pairs, "
        "random graphs, 1-3 keys, schedules in order / random / pausing / gap-free per key. Compared: every plain relation against the naive "
        "least model of the explicit-closure twin; the Lean engine model on the twin; the bug-faithful Lean model on the tagged program. "
        "tie C: every sequence of two batches of <= 1 (thorough: 2) pairs over 3 elements (binary, head-update inserts, snapshot of every "
        "view of delta and total after each merge) and PRNG scenarios (binary / ternary with all reverse-map configurations, 1-6 batches of "
        "0-4 ins/head ops, chain / ring / dense shapes, extra merges, new SCC epochs (`enter`), len_estimate of [1,2]); snapshot = iter_all of "
        "every view and index_get for every key over the elements plus one unknown element and key.")
