"""Tie B plumbing: generated Ascent programs compiled by rustc against the repository's working tree
(harness/engine, several binaries built in parallel), driven by the same `eng …` lines as the Lean driver."""
import hashlib, os, subprocess, time
from . import core, eng

ENG = os.path.join(core.VERIF, "harness", "engine")


def write_if_changed(path, text):
    if os.path.exists(path) and open(path).read() == text: return False
    open(path, "w").write(text); return True


def build(group, modules, nbins=8, ascent_features=("verif-hooks",)):
    """modules: list of (pid, rust module text). Returns ({pid: binary path} | None, log, wall)."""
    nbins = max(1, min(nbins, len(modules)))
    gen = os.path.join(ENG, "src")
    assign = {}
    bins = []
    for k in range(nbins):
        mine = modules[k::nbins]
        name = f"{group}_b{k}"
        text = "#[path = \"common.rs\"]\nmod common;\n" + "\n".join(m for _, m in mine) + \
            "\nfn main() {\n   common::main_loop(&[" + ", ".join(f'("{pid}", {pid}::make as common::Factory)' for pid, _ in mine) + "]);\n}\n"
        write_if_changed(os.path.join(gen, f"gen_{name}.rs"), text)
        bins.append(name)
        for pid, _ in mine: assign[pid] = name
    # Cargo.toml lists every generated bin present on disk (so that other groups stay cached)
    present = sorted(f[4:-3] for f in os.listdir(gen) if f.startswith("gen_") and f.endswith(".rs"))
    tmpl = open(os.path.join(ENG, "Cargo.toml.in")).read()
    feats = ', features = [' + ", ".join(f'"{f}"' for f in ascent_features) + ']' if ascent_features else ""
    tmpl = tmpl.replace("@ASCENT_FEATURES@", feats).replace("@BINS@", "\n".join(f'[[bin]]\nname = "{b}"\npath = "src/gen_{b}.rs"\n' for b in present))
    open(os.path.join(ENG, "Cargo.toml.in.expanded"), "w").write(tmpl)
    d = ENG
    text = tmpl.replace("@REPO@", core.repo_dir())
    write_if_changed(os.path.join(d, "Cargo.toml"), text)
    lock = os.path.join(d, "Cargo.lock")
    if not os.path.exists(lock):
        import shutil
        for cand in (os.path.join(core.repo_dir(), "Cargo.lock"), os.path.join(core.VERIF, "harness", "Cargo.lock.seed")):
            if os.path.exists(cand): shutil.copy(cand, lock); break
    e = core.env_offline(); e["CARGO_TARGET_DIR"] = core.target_dir() + "-eng"
    cmd = ["cargo", "build", "--offline", "-q", "-j", str(core.NCPU)]
    for b in bins: cmd += ["--bin", b]
    t0 = time.time()
    rc, out = core.run(cmd, cwd=d, env=e, timeout=7200)
    wall = time.time() - t0
    if rc != 0: return None, out, wall
    bd = os.path.join(e["CARGO_TARGET_DIR"], "debug")
    return {pid: os.path.join(bd, b) for pid, b in assign.items()}, out, wall


def _limit_mem():
    import resource
    cap = int(os.environ.get("VERIF_IMPL_MEM_GB", "12")) << 30
    resource.setrlimit(resource.RLIMIT_AS, (cap, cap))


def run_impl(bins, lines, pid_of_line, timeout=600):
    """route every line to the binary holding its program; returns outputs in line order"""
    by_bin = {}
    for i, (l, pid) in enumerate(zip(lines, pid_of_line)):
        by_bin.setdefault(bins[pid], []).append(i)
    out = [None] * len(lines)
    procs = []
    for b, idxs in by_bin.items():
        # address-space cap: a runaway program (e.g. under a seeded change) must fail on its own, not exhaust the machine
        p = subprocess.Popen([b], stdin=subprocess.PIPE, stdout=subprocess.PIPE, stderr=subprocess.DEVNULL, text=True, preexec_fn=_limit_mem)
        procs.append((p, idxs))
    import threading
    def feed(p, idxs):
        hung = False
        try:
            res, _ = p.communicate("\n".join(lines[i] for i in idxs) + "\n", timeout=timeout)
        except subprocess.TimeoutExpired:
            # a binary that does not finish is an outcome of the implementation (reported per line), never a crash of the check
            hung = True
            p.kill()
            try: res, _ = p.communicate(timeout=30)
            except Exception: res = ""
        res = (res or "").split("\n")
        if res and res[-1] == "": res.pop()
        for j, i in enumerate(idxs):
            out[i] = res[j] if j < len(res) else ("no-output(hang)" if hung else "no-output(crash)")
    ths = [threading.Thread(target=feed, args=pi) for pi in procs]
    for t in ths: t.start()
    for t in ths: t.join()
    return out
