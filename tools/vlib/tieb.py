"""Tie B plumbing: generated Ascent programs compiled by rustc against the repository's working tree
(harness/engine, several binaries built in parallel), driven by the same `eng …` lines as the Lean driver."""
import hashlib, os, subprocess, time
from . import core, eng

ENG = os.path.join(core.VERIF, "harness", "engine")


def write_if_changed(path, text):
    if os.path.exists(path) and open(path).read() == text: return False
    open(path, "w").write(text); return True


def build(group, modules, nbins=8, ascent_features=("verif-hooks",)):
    """modules: list of (pid, rust module text). Returns ({pid: binary path} | None, log, wall)."""
    nbins = max(1, min(nbins, len(modules)))
    gen = os.path.join(ENG, "src")
    assign = {}
    bins = []
    for k in range(nbins):
        mine = modules[k::nbins]
        name = f"{group}_b{k}"
        text = "#[path = \"common.rs\"]\nmod common;\n" + "\n".join(m for _, m in mine) + \
            "\nfn main() {\n   common::main_loop(&[" + ", ".join(f'("{pid}", {pid}::make as common::Factory)' for pid, _ in mine) + "]);\n}\n"
        write_if_changed(os.path.join(gen, f"gen_{name}.rs"), text)
        bins.append(name)
        for pid, _ in mine: assign[pid] = name
    # Cargo.toml lists every generated bin present on disk (so that other groups stay cached)
    present = sorted(f[4:-3] for f in os.listdir(gen) if f.startswith("gen_") and f.endswith(".rs"))
    tmpl = open(os.path.join(ENG, "Cargo.toml.in")).read()
    feats = ', features = [' + ", ".join(f'"{f}"' for f in ascent_features) + ']' if ascent_features else ""
    tmpl = tmpl.replace("@ASCENT_FEATURES@", feats).replace("@BINS@", "\n".join(f'[[bin]]\nname = "{b}"\npath = "src/gen_{b}.rs"\n' for b in present))
    open(os.path.join(ENG, "Cargo.toml.in.expanded"), "w").write(tmpl)
    d = ENG
    text = tmpl.replace("@REPO@", core.repo_dir())
    write_if_changed(os.path.join(d, "Cargo.toml"), text)
    lock = os.path.join(d, "Cargo.lock")
    if not os.path.exists(lock):
        import shutil
        for cand in (os.path.join(core.repo_dir(), "Cargo.lock"), os.path.join(core.VERIF, "harness", "Cargo.lock.seed")):
            if os.path.exists(cand): shutil.copy(cand, lock); break
    e = core.env_offline(); e["CARGO_TARGET_DIR"] = core.target_dir() + "-eng"
    cmd = ["cargo", "build", "--offline", "-q", "-j", str(core.NCPU)]
    for b in bins: cmd += ["--bin", b]
    t0 = time.time()
    rc, out = core.run(cmd, cwd=d, env=e, timeout=7200)
    wall = time.time() - t0
    if rc != 0: return None, out, wall
    bd = os.path.join(e["CARGO_TARGET_DIR"], "debug")
    return {pid: os.path.join(bd, b) for pid, b in assign.items()}, out, wall


def _limit_mem():
    import resource
    cap = int(os.environ.get("VERIF_IMPL_MEM_GB", "12")) << 30
    resource.setrlimit(resource.RLIMIT_AS, (cap, cap))


def run_impl(bins, lines, pid_of_line, timeout=600):
    """route every line to the binary holding its program; returns outputs in line order"""
    by_bin = {}
    for i, (l, pid) in enumerate(zip(lines, pid_of_line)):
        by_bin.setdefault(bins[pid], []).append(i)
    out = [None] * len(lines)
    procs = []
    for b, idxs in by_bin.items():
        # address-space cap: a runaway program (e.g. under a seeded change) must fail on its own, not exhaust the machine
        p = subprocess.Popen([b], stdin=subprocess.PIPE, stdout=subprocess.PIPE, stderr=subprocess.DEVNULL, text=True, preexec_fn=_limit_mem)
        procs.append((p, idxs))
    import threading
    def feed(p, idxs):
        hung = False
        try:
            res, _ = p.communicate("\n".join(lines[i] for i in idxs) + "\n", timeout=timeout)
        except subprocess.TimeoutExpired:
            # a binary that does not finish is an outcome of the implementation (reported per line), never a crash of the check
            hung = True
            p.kill()
            try: res, _ = p.communicate(timeout=30)
            except Exception: res = ""
        res = (res or "").split("\n")
        if res and res[-1] == "": res.pop()
        # the trrel provider prints a debugging line to STDOUT whenever its no-index view is iterated (byods/ascent-byods-rels/src/trrel_binary_ind.rs:381): not an answer of the harness
        res = [l for l in res if not l.startswith("iterating TrRelIndNone.")]
        for j, i in enumerate(idxs):
            out[i] = res[j] if j < len(res) else ("no-output(hang)" if hung else "no-output(crash)")
    ths = [threading.Thread(target=feed, args=pi) for pi in procs]
    for t in ths: t.start()
    for t in ths: t.join()
    return out


def blame(group, modules, log):
    """maps rustc errors (`--> src/gen_<group>_b<k>.rs:LINE`) of a failed build to the generated program modules they point into.
    Returns [(pid, module text, error excerpt)]"""
    import re
    gen = os.path.join(ENG, "src")
    text_of = dict(modules)
    spans = {}          # file -> [(first line, last line, pid)]
    out, seen = [], set()
    blocks = re.split(r"\n(?=error)", log)
    for b in blocks:
        if not b.startswith("error"): continue
        m = re.search(r"--> src/(gen_%s_b\d+\.rs):(\d+):" % re.escape(group), b)
        if not m: continue
        f, line = m.group(1), int(m.group(2))
        if f not in spans:
            sp, cur = [], None
            try: src = open(os.path.join(gen, f)).read().split("\n")
            except OSError: continue
            for i, l in enumerate(src, 1):
                mm = re.match(r"\s*(?:pub )?mod (\w+) \{", l)
                if mm and mm.group(1) in text_of:
                    if cur: sp.append((cur[0], i - 1, cur[1]))
                    cur = (i, mm.group(1))
            if cur: sp.append((cur[0], len(src), cur[1]))
            spans[f] = sp
        for a, z, pid in spans[f]:
            if a <= line <= z and pid not in seen:
                seen.add(pid); out.append((pid, text_of[pid], b[:1500]))
    return out


def report_build_failure(report, group, modules, log, limit=3):
    """a generated program that no longer compiles against the repository is a concrete failing input (the program text is the replay);
    only when no error can be attributed to a program is the broken obligation reported without one"""
    bl = blame(group, modules, log)
    for pid, text, err in bl[:limit]:
        report.violation({"kind": "compile-failure", "group": group, "program": pid, "rust_module": text, "rustc_error": err,
                          "why": "a generated program of this check (accepted and compiled on the pinned tree) does not compile against the repository"})
    if not bl:
        report.violation({"kind": "obligation-broken", "no_longer_checks": [f"generated programs of group {group} do not compile against the repository"],
                          "log": log[-6000:]}, no_input=True)
    report.cov["programs_not_compiling"] = [pid for pid, _, _ in bl]


def replay_compile_failure(report, payload):
    """--replay of a compile-failure: rebuild that one program against the repository's working tree"""
    pid, text = payload["program"], payload["rust_module"]
    bins, log, wall = build(payload.get("group", "replay") + "_replay", [(pid, text)], nbins=1)
    if bins is None:
        report.violation({"kind": "compile-failure", "group": payload.get("group"), "program": pid, "rust_module": text, "rustc_error": log[-1500:],
                          "why": "replayed program does not compile against the repository"})
    try: os.remove(os.path.join(ENG, "src", "gen_" + payload.get("group", "replay") + "_replay_b0.rs"))
    except OSError: pass
