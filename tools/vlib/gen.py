"""Generator of core rule programs and inputs (one PRNG; shapes forced by quota, not left to chance)."""
from . import eng

BOUND = 6   # head arithmetic is guarded so that every column value stays in [0, BOUND]


class G:
    def __init__(self, rng, nrels, arities, lat=None):
        self.rng, self.nrels, self.ar = rng, nrels, arities
        self.lat = lat or {}
        self.nv = 0

    def fresh(self):
        self.nv += 1
        return self.nv - 1


def gen_rule(rng, p, head_rel, body_rels, opts):
    """one rule with the given head relation and body relations (in order)"""
    nv = [0]
    def fresh():
        nv[0] += 1; return nv[0] - 1
    bound = []          # integer-typed bound variables
    derived = set()     # variables defined by let / if let (possibly through arithmetic): guarded when they reach a head, so that
                        # every column value stays in [0, BOUND] and every generated program terminates
    body, guards = [], []
    def int_ex(allow_arith=True):
        r = rng.below(10)
        if bound and r < 6: return ("var", rng.choice(bound))
        if bound and allow_arith and r < 8:
            v = rng.choice(bound)
            return rng.choice([("add", ("var", v), rng.range(0, 2)), ("min", ("var", v), rng.range(0, 4)), ("max", ("var", v), rng.range(0, 3))])
        return rng.range(0, 4)
    def free_item():
        r = rng.below(4)
        if r == 0 and bound: return ("if", (rng.choice(["lt", "le", "ne", "eq"]), ("var", rng.choice(bound)), rng.range(0, BOUND)))
        if r == 1:
            v = fresh(); it = ("let", v, int_ex()); bound.append(v); derived.add(v); return it
        if r == 2:
            v = fresh(); it = ("for", v, ("range", rng.range(0, 2), rng.range(1, 4)) if rng.chance(2, 3) else ("list", [rng.range(0, 4) for _ in range(rng.range(1, 3))])); bound.append(v); return it
        v = fresh(); it = ("iflet", v, ("somex", int_ex()) if rng.chance(4, 5) else "none"); bound.append(v); derived.add(v); return it
    if opts.get("pre_items") and rng.chance(1, 3): body.append(free_item())
    for ci, r in enumerate(body_rels):
        ar = p["rels"][r]["arity"]
        lat = p["rels"][r].get("lat")
        args, newv = [], []
        for j in range(ar):
            if lat and j == ar - 1:
                v = fresh(); args.append(("v", v)); newv.append(("lat", v)); continue
            x = rng.below(100)
            if bound and x < 35: args.append(("v", rng.choice(bound)))
            elif x < 80 or not bound:
                if x >= 72 and not bound: args.append(("e", rng.range(0, 3)))
                else:
                    v = fresh(); args.append(("v", v)); newv.append(("int", v))
            elif x < 90: args.append(("e", rng.range(0, 3)))
            else: args.append(("e", ("add", ("var", rng.choice(bound)), rng.range(0, 1))))
        conds = []
        for k, v in newv:
            if k == "int": bound.append(v)
        if opts.get("conds") and rng.chance(1, 4) and bound:
            conds.append(("if", (rng.choice(["lt", "le", "ne"]), ("var", rng.choice(bound)), rng.range(1, BOUND))))
            if rng.chance(1, 3):
                v = fresh(); conds.append(("let", v, ("add", ("var", rng.choice(bound)), rng.range(0, 1)))); bound.append(v); derived.add(v)
        body.append(("cl", r, args, conds))
        opts.setdefault("_latvars", []).extend(v for k, v in newv if k == "lat")
        if opts.get("mid_items") and rng.chance(1, 5): body.append(free_item())
    # head
    ar = p["rels"][head_rel]["arity"]
    hargs = []
    for j in range(ar):
        if p["rels"][head_rel].get("lat") and j == ar - 1:
            hargs.append(opts["lat_head"](bound)); continue
        x = rng.below(100)
        if bound and x < 70:
            v = rng.choice(bound); hargs.append(("var", v))
            if v in derived and ("if", ("le", ("var", v), BOUND)) not in guards: guards.append(("if", ("le", ("var", v), BOUND)))
        elif bound and x < 88:
            v = rng.choice(bound)
            hargs.append(("add", ("var", v), 1)); guards.append(("if", ("lt", ("var", v), BOUND)))
        else: hargs.append(rng.range(0, 3))
    return {"heads": [(head_rel, hargs)], "body": body + guards}


def gen_program(rng, opts=None):
    """a relational core program (no aggregation / lattices) with forced recursion shapes"""
    opts = dict(opts or {})
    opts.setdefault("conds", True); opts.setdefault("pre_items", True); opts.setdefault("mid_items", True)
    nrels = rng.range(3, 6)
    p = {"rels": [{"arity": rng.choice([1, 2, 2, 2, 3])} for _ in range(nrels)], "rules": []}
    nedb = rng.range(1, 2)
    shape = rng.choice(["linear", "nonlinear", "mutual", "chain", "diamond", "mixed", "sidehead"])
    if opts.get("shape"): shape = opts.pop("shape")   # a shape forced by the caller's quota
    idb = list(range(nedb, nrels))
    def add(h, bs): p["rules"].append(gen_rule(rng, p, h, bs, dict(opts)))
    any_rel = lambda: rng.below(nrels)
    if shape == "linear":
        h = rng.choice(idb); add(h, [rng.below(nedb)]); add(h, [h, rng.below(nedb)])
    elif shape == "nonlinear":
        h = rng.choice(idb); add(h, [rng.below(nedb)]); add(h, [h, h])
    elif shape == "mutual" and len(idb) >= 2:
        a, b = idb[0], idb[1]; add(a, [rng.below(nedb)]); add(b, [a, any_rel()]); add(a, [b])
    elif shape == "chain":
        prev = rng.below(nedb)
        for h in idb: add(h, [prev] + ([any_rel()] if rng.chance(1, 2) else [])); prev = h
    elif shape == "diamond" and len(idb) >= 3:
        e = rng.below(nedb); add(idb[0], [e]); add(idb[1], [e]); add(idb[2], [idb[0], idb[1]])
    elif shape == "sidehead" and len(idb) >= 3:
        # a recursive rule with TWO heads, one of them on a relation no rule of the recursive component reads, and a later stratum reading it
        # (the side relation's rows must survive the exit of the loop; seeded change C01_r4_changed_only_if_head_read_in_scc)
        h, u, w = idb[0], idb[1], idb[2]
        e = rng.below(nedb)
        add(h, [e])
        if p["rels"][e]["arity"] >= 2 and rng.chance(3, 4):
            # reachability along `e` (cycles in the input make the LAST productive iteration derive side tuples only)
            are, arh, aru = p["rels"][e]["arity"], p["rels"][h]["arity"], p["rels"][u]["arity"]
            body = [("cl", h, [("v", 0)] + [("v", 10 + j) for j in range(arh - 1)], []), ("cl", e, [("v", 0), ("v", 1)] + [("v", 20 + j) for j in range(are - 2)], [])]
            p["rules"].append({"heads": [(h, [("var", 1)] * arh), (u, [("var", j % 2) for j in range(aru)])], "body": body})
        else:
            r = gen_rule(rng, p, h, [h, e], dict(opts)); r["heads"].append(extra_head(p, u, r)); p["rules"].append(r)
        add(w, [u] + ([any_rel()] if rng.chance(1, 3) else []))
    if shape == "sidehead" and len(idb) >= 3:
        # further rules only derive the later relations: the side relation stays unread inside the recursive component
        for _ in range(rng.range(0, 2)):
            add(rng.choice(idb[2:]), [any_rel() for _ in range(rng.choice([1, 1, 2]))])
        return p
    for _ in range(rng.range(1, 2)):
        p["rules"].append(template_rule(rng, p, idb))
    for _ in range(rng.range(1, 4)):
        nb = rng.choice([0, 1, 1, 2, 2, 3])
        add(rng.choice(idb) if rng.chance(5, 6) else any_rel(), [any_rel() for _ in range(nb)])
    if rng.chance(1, 2):
        # multi-head rules: `h1(..), h2(..) <-- body` (the MIR rule keeps both head clauses)
        r = rng.choice(p["rules"])
        if r["body"]: r["heads"].append(extra_head(p, rng.choice(idb), r))
    return p


def extra_head(p, rel, rule):
    """a further head clause on `rel` whose arguments are (already guarded) arguments of the rule's first head"""
    hargs = rule["heads"][0][1]
    return (rel, [hargs[j % len(hargs)] for j in range(p["rels"][rel]["arity"])])


def template_rule(rng, p, idb):
    """rule shapes the code generator treats specially, instantiated over the program's relations:
    binder before a simple join whose second clause uses the binder; conditions on the first / second clause of a
    simple join; three-clause joins (empty-relation skip); expression argument in the second clause"""
    rels = p["rels"]
    def pick(ar):
        c = [r for r, d in enumerate(rels) if d["arity"] == ar and not d.get("lat")]
        return rng.choice(c) if c else None
    a2, b2 = pick(2), pick(2)
    if a2 is None: return gen_rule(rng, p, rng.choice(idb), [rng.below(len(rels))], {})
    t = rng.below(9)
    c = rng.range(0, 3)
    if t == 0: body = [("let", 9, c), ("cl", a2, [("v", 0), ("v", 1)], []), ("cl", b2, [("v", 1), ("v", 9)], [])]; hv = [0, 1, 9]
    elif t == 1: body = [("for", 9, ("range", 0, rng.range(2, 4))), ("cl", a2, [("v", 0), ("v", 1)], []), ("cl", b2, [("v", 9), ("v", 1)], [])]; hv = [0, 1, 9]
    elif t == 2: body = [("cl", a2, [("v", 0), ("v", 1)], [("if", ("lt", ("var", 0), rng.range(2, 5)))]), ("cl", b2, [("v", 1), ("v", 2)], [("if", ("ne", ("var", 2), ("var", 1)))])]; hv = [0, 1, 2]
    elif t == 3: body = [("cl", a2, [("v", 0), ("v", 1)], []), ("cl", b2, [("v", 1), ("v", 2)], []), ("cl", pick(2), [("v", 2), ("v", 3)], [])]; hv = [0, 2, 3]
    elif t == 4: body = [("cl", a2, [("v", 0), ("v", 1)], []), ("cl", b2, [("e", ("add", ("var", 0), 1)), ("v", 2)], [])]; hv = [0, 1, 2]
    elif t == 5: body = [("iflet", 9, ("somex", c)), ("cl", a2, [("v", 0), ("v", 1)], []), ("cl", b2, [("v", 1), ("v", 9)], [("let", 8, ("add", ("var", 0), 1)), ("if", ("le", ("var", 8), BOUND))])]; hv = [0, 8, 9]
    elif t == 6: body = [("cl", a2, [("v", 0), ("v", 1)], []), ("cl", b2, [("v", 1), ("v", 1)], [])]; hv = [0, 1]          # second clause repeats a join variable
    elif t == 7: body = [("cl", a2, [("v", 0), ("v", 1)], []), ("cl", b2, [("v", 0), ("v", 0)], []), ("cl", a2, [("v", 1), ("v", 2)], [])]; hv = [0, 1, 2]
    else:
        # a `let` attached to the first clause whose variable is a COLUMN of the next clause (the index of that clause must use it)
        body = [("cl", a2, [("v", 0), ("v", 1)], [("let", 8, ("add", ("var", 1), rng.range(0, 1))), ("if", ("le", ("var", 8), BOUND))]), ("cl", b2, [("v", 8), ("v", 2)] if rng.chance(1, 2) else [("v", 2), ("v", 8)], [])]; hv = [0, 8, 2]
    h = rng.choice(idb)
    ar = rels[h]["arity"]
    if rels[h].get("lat"): return gen_rule(rng, p, h, [a2], {})
    return {"heads": [(h, [("var", hv[j % len(hv)]) for j in range(ar)])], "body": body}


def gen_input(rng, p, max_rows=12, dom=None):
    dom = dom or rng.range(3, BOUND)
    inp = {}
    skew = rng.chance(1, 3)
    big, small = rng.below(len(p["rels"])), rng.below(len(p["rels"]))
    for r, d in enumerate(p["rels"]):
        mode = rng.below(10)
        n = 0 if mode == 0 else rng.range(1, max_rows)
        if skew and r == big: n = 40
        if skew and r == small and small != big: n = rng.range(1, 2)
        rows = set() if not d.get("lat") else {}
        out = []
        for _ in range(n):
            t = tuple(rng.range(0, dom) for _ in range(d["arity"]))
            out.append(t)
        inp[r] = out
    return inp


def dedup_input(inp):
    return {r: list(dict.fromkeys(rows)) for r, rows in inp.items()}


# ------------------------------------------------------------------ lattices (C03) and aggregation (C04)

def lat_head_expr(rng, kind, int_vars, lat_vars):
    """a MONOTONE expression for the lattice column of a head: lattice variables only flow into lattice columns"""
    same = [v for v, k in lat_vars if k == kind]
    if same and rng.chance(2, 3):
        v = rng.choice(same)
        if kind == "max": return rng.choice([("var", v), ("min", ("add", ("var", v), rng.range(0, 2)), BOUND)])
        if kind == "min": return rng.choice([("var", v), ("add", ("var", v), rng.range(0, 3))])
        return ("var", v)
    e = ("var", rng.choice(int_vars)) if int_vars and rng.chance(2, 3) else rng.range(0, 4)
    if kind in ("set", "bset"): return ("single", e)
    if kind == "opt": return ("somex", e) if rng.chance(4, 5) else "none"
    return e


def gen_lat_program(rng):
    """relations plus 1-2 lattice relations; lattice values are used monotonically"""
    nrel = rng.range(2, 4)
    p = {"rels": [{"arity": rng.choice([1, 2, 2, 3])} for _ in range(nrel)], "rules": []}
    nlat = rng.range(1, 2)
    for _ in range(nlat):
        p["rels"].append({"arity": rng.choice([1, 2, 2, 3]), "lat": rng.choice(["max", "min", "min", "set", "set", "opt", "bset", "bset"])})
    lats = list(range(nrel, nrel + nlat))
    rels = list(range(nrel))
    def rule(h, body_rels):
        nv = [0]
        def fresh():
            nv[0] += 1; return nv[0] - 1
        ints, latv, body = [], [], []
        for r in body_rels:
            d = p["rels"][r]
            args = []
            for j in range(d["arity"]):
                if d.get("lat") and j == d["arity"] - 1:
                    v = fresh(); args.append(("v", v)); latv.append((v, d["lat"]))
                elif ints and rng.chance(2, 5): args.append(("v", rng.choice(ints)))
                elif rng.chance(1, 8): args.append(("e", rng.range(0, 3)))
                else:
                    v = fresh(); args.append(("v", v)); ints.append(v)
            conds = [("if", ("lt", ("var", rng.choice(ints)), rng.range(2, BOUND)))] if ints and rng.chance(1, 5) else []
            body.append(("cl", r, args, conds))
        d = p["rels"][h]
        hargs, guards = [], []
        for j in range(d["arity"]):
            if d.get("lat") and j == d["arity"] - 1: hargs.append(lat_head_expr(rng, d["lat"], ints, latv))
            elif ints and rng.chance(5, 6): hargs.append(("var", rng.choice(ints)))
            elif ints and rng.chance(1, 2):
                v = rng.choice(ints); hargs.append(("add", ("var", v), 1)); guards.append(("if", ("lt", ("var", v), BOUND)))
            else: hargs.append(rng.range(0, 3))
        p["rules"].append({"heads": [(h, hargs)], "body": body + guards})
    for l in lats:
        if p["rels"][l]["lat"] in ("set", "bset") and p["rels"][l]["arity"] == 2:
            # data-flow shape: whole sets flow along the edges of a (cyclic) graph, so that a stored set is raised by larger supersets
            e2 = [r for r in rels if p["rels"][r]["arity"] == 2]
            if e2:
                e = rng.choice(e2)
                p["rules"].append({"heads": [(l, [("var", 0), ("single", ("var", 1))])], "body": [("cl", e, [("v", 0), ("v", 1)], [])]})
                p["rules"].append({"heads": [(l, [("var", 1), ("var", 2)])], "body": [("cl", l, [("v", 0), ("v", 2)], []), ("cl", rng.choice(e2), [("v", 0), ("v", 1)], [])]})
        rule(l, [rng.choice(rels)])                      # seed the lattice from a relation
        if rng.chance(4, 5): rule(l, [l, rng.choice(rels)])   # recursion through the lattice (shortest-path shape)
        if rng.chance(1, 3): rule(l, [l, l])
    for _ in range(rng.range(1, 3)):
        h = rng.choice(rels + lats)
        rule(h, [rng.choice(rels + lats) for _ in range(rng.range(1, 2))])
    if len(lats) == 2 and rng.chance(1, 2): rule(lats[1], [lats[0]])
    return p


def lat_ok(p):
    """lattice variables may flow only into lattice columns of the same kind (monotone use); no lattice column is an index column"""
    for ru in p["rules"]:
        latv = {}
        for it in ru["body"]:
            if it[0] != "cl": continue
            d = p["rels"][it[1]]
            for j, a in enumerate(it[2]):
                islat = d.get("lat") and j == d["arity"] - 1
                if islat:
                    if a[0] != "v" or a[1] in latv: return False
                    latv[a[1]] = d["lat"]
                elif a[0] == "v" and a[1] in latv: return False
        for h, hargs in ru["heads"]:
            d = p["rels"][h]
            for j, e in enumerate(hargs):
                islat = d.get("lat") and j == d["arity"] - 1
                used = vars_of(e)
                if not islat and any(v in latv for v in used): return False
                if islat and any(latv.get(v, d["lat"]) != d["lat"] for v in used if v in latv): return False
    return True


def vars_of(e):
    if isinstance(e, tuple):
        if e[0] == "var": return {e[1]}
        out = set()
        for x in e[1:]: out |= vars_of(x)
        return out
    return set()


def gen_lat_input(rng, p, max_rows=8):
    inp = gen_input(rng, p, max_rows)
    for r, d in enumerate(p["rels"]):
        if d.get("lat"):
            rows, seen = [], set()
            for t in inp[r]:
                k = t[:-1]
                if k in seen: continue          # one input row per key (caller duplicates are exempt from the property)
                seen.add(k)
                v = t[-1]
                lv = {"max": v, "min": v, "set": ("set", tuple(sorted({v, (v * 2) % 5}))), "opt": "none" if v == 0 else ("some", v),
                      "bset": ("set", tuple(sorted({v, (v * 2) % 5})))}[d["lat"]]
                rows.append(k + (lv,))
            inp[r] = rows[:3]
    return inp


AGGS = ["count", "sum", "min", "max", "not", "minmax"]      # minmax: a USER-DEFINED aggregator that returns TWO values (harness common.rs)


def gen_agg_program(rng):
    """a stratified program: a relational core plus aggregation / negation rules at depth 1-3 of the stratum order"""
    p = gen_program(rng, {"conds": True})
    base = len(p["rels"])
    depth = rng.range(1, 3)
    prev_out = []
    for dlev in range(depth):
        for _ in range(rng.range(1, 2)):
            src_pool = list(range(base)) + prev_out
            src = rng.choice(src_pool)
            sar = p["rels"][src]["arity"]
            fn = rng.choice(AGGS)
            bin_rels = [r for r in range(base) if p["rels"][r]["arity"] == 2]
            if fn in ("sum", "min", "max", "minmax") and rng.chance(1, 2):   # (count yields usize: not usable as a column)
                # the aggregation comes FIRST and binds a variable that the SECOND of two joined clauses repeats:
                # `res(y, m) <-- agg m = max(x) in nums(x), a(y, z), b(z, m)` - a binder before a simple join (the join must not be reordered)
                aargs, bound = [], []
                for j in range(sar):
                    if fn in ("sum", "min", "max", "minmax") and not bound: aargs.append(("b", 20)); bound.append(20)
                    elif rng.chance(1, 4): aargs.append(("k", rng.range(0, 3)))
                    else: aargs.append("_")
                # two input-only relations, so that the inputs control which of them is larger
                p["rels"].append({"arity": 2}); p["rels"].append({"arity": 2})
                a, b = len(p["rels"]) - 2, len(p["rels"]) - 1
                body = [("agg", [21], fn, bound, src, aargs), ("cl", a, [("v", 0), ("v", 1)], []),
                        ("cl", b, [("v", 1), ("v", 21)] if rng.chance(2, 3) else [("v", 21), ("v", 1)], [])]
                p["rels"].append({"arity": 2})
                out = len(p["rels"]) - 1
                p["rules"].append({"heads": [(out, [("var", 0), ("var", 21)])], "body": body})
                prev_out.append(out)
                continue
            if sar >= 2 and rng.chance(1, 3):
                # a USER-DEFINED aggregator with two bound arguments written in an order different from their column order:
                # `agg it = argmin(cost, item) in offer(.., item, .., cost, ..)` must hand (cost, item) pairs to the aggregator
                key = rng.choice([r for r in range(base) if p["rels"][r]["arity"] >= 1])
                kar = p["rels"][key]["arity"]
                kvars = list(range(kar))
                ci, cc = sorted(rng.shuffle(list(range(sar)))[:2])          # item column < cost column
                aargs = []
                for j in range(sar):
                    if j == ci: aargs.append(("b", 22))
                    elif j == cc: aargs.append(("b", 20))
                    elif rng.chance(1, 2): aargs.append(("k", ("var", rng.choice(kvars))))
                    else: aargs.append("_")
                body = [("cl", key, [("v", v) for v in kvars], []), ("agg", [21], "argmin", [20, 22], src, aargs)]
                p["rels"].append({"arity": 2})
                out = len(p["rels"]) - 1
                p["rules"].append({"heads": [(out, [("var", rng.choice(kvars)), ("var", 21)])], "body": body})
                prev_out.append(out)
                continue
            key = rng.choice([r for r in range(base) if p["rels"][r]["arity"] >= 1])
            kar = p["rels"][key]["arity"]
            kvars = list(range(kar))
            body = [("cl", key, [("v", v) for v in kvars], [])]
            # further positive clauses (rules with several clauses get the "any relation empty" early exit)
            for _ in range(rng.choice([0, 0, 1, 2])):
                r2 = rng.below(base)
                a2 = p["rels"][r2]["arity"]
                args2 = []
                for j in range(a2):
                    if rng.chance(1, 2): args2.append(("v", rng.choice(kvars)))
                    else:
                        nv = 30 + len(kvars); args2.append(("v", nv)); kvars.append(nv)
                body.append(("cl", r2, args2, []))
            aargs, bound = [], []
            bv = 20
            for j in range(sar):
                x = rng.below(10)
                if x < 4: aargs.append(("k", ("var", rng.choice(kvars))))
                elif x < 5: aargs.append(("k", rng.range(0, 3)))
                elif x < 7 or fn in ("count", "not") or bound: aargs.append("_")
                else: aargs.append(("b", bv)); bound.append(bv)
            if fn in ("sum", "min", "max", "minmax") and not bound:
                j = rng.below(sar); aargs[j] = ("b", bv); bound = [bv]
            outs = [] if fn == "not" else [21]
            body.append(("agg", outs, fn, bound, src, aargs))
            har = 2 if fn == "minmax" else rng.choice([1, 2])
            hargs = [("var", rng.choice(kvars))] + ([("var", 21)] if (outs and har == 2) else ([rng.range(0, 2)] if har == 2 else []))
            p["rels"].append({"arity": har})
            out = len(p["rels"]) - 1
            p["rules"].append({"heads": [(out, hargs)], "body": body})
            prev_out.append(out)
    return p


def gen_agg_lat_program(rng):
    """a lattice program (gen_lat_program) plus aggregation / negation rules that range over a LATTICE relation with a strict subset
    of its key columns bound (or none): the aggregate reads a non-unique index of the lattice, which must hold one entry per key even
    after rows were improved in place (C04: one row per key for a lattice)"""
    p = gen_lat_program(rng)
    lats = [r for r, d in enumerate(p["rels"]) if d.get("lat") and d["arity"] >= 2]
    rels = [r for r, d in enumerate(p["rels"]) if not d.get("lat")]
    if not lats: return p
    for _ in range(rng.range(1, 3)):
        l = rng.choice(lats)
        lar = p["rels"][l]["arity"]
        key = rng.choice(rels)
        kar = p["rels"][key]["arity"]
        kvars = list(range(kar))
        body = [("cl", key, [("v", v) for v in kvars], [])]
        fn = rng.choice(["count", "count", "sum", "min", "max", "not"])
        nkeys = lar - 1
        aargs, bound = [], []
        # bind a strict subset of the key columns (possibly none); the lattice column is never bound
        nbind = rng.range(0, nkeys - 1) if nkeys > 1 else 0
        bind_pos = set()
        while len(bind_pos) < nbind: bind_pos.add(rng.below(nkeys))
        for j in range(nkeys):
            if j in bind_pos: aargs.append(("k", ("var", rng.choice(kvars))))
            elif fn in ("sum", "min", "max") and not bound: aargs.append(("b", 20)); bound.append(20)
            else: aargs.append("_")
        aargs.append("_")
        if fn in ("sum", "min", "max") and not bound: fn = "count"
        outs = [] if fn == "not" else [21]
        body.append(("agg", outs, fn, bound, l, aargs))
        har = 2 if outs else 1
        hargs = [("var", rng.choice(kvars))] + ([("var", 21)] if outs else [])
        p["rels"].append({"arity": har})
        p["rules"].append({"heads": [(len(p["rels"]) - 1, hargs)], "body": body})
    return p


def sp_program():
    """the README shortest-path shape: the lattice is read inside its own recursive stratum through a NON-KEY index (first key column bound only),
    and again by a later stratum:  sp(x,y,w) <-- edge(x,y,w);  sp(x,z,w+l) <-- edge(x,y,w), sp(y,z,l);  answer(s,n) <-- query(s), sp(s,n,_)"""
    # ... and  cost(s, n, l) <-- query(s), sp(s, n, l)  (a lattice of a LATER stratum that reads the VALUES of sp: when a re-run improves an sp value in
    # place, no relation of that stratum changes its size, yet the stratum has to be evaluated again)
    return {"rels": [{"arity": 3}, {"arity": 1}, {"arity": 3, "lat": "min"}, {"arity": 2}, {"arity": 3, "lat": "min"}],
            "rules": [{"heads": [(2, [("var", 0), ("var", 1), ("var", 2)])], "body": [("cl", 0, [("v", 0), ("v", 1), ("v", 2)], [])]},
                      {"heads": [(2, [("var", 0), ("var", 3), ("add", ("var", 2), ("var", 4))])],
                       "body": [("cl", 0, [("v", 0), ("v", 1), ("v", 2)], []), ("cl", 2, [("v", 1), ("v", 3), ("v", 4)], [])]},
                      {"heads": [(3, [("var", 0), ("var", 1)])], "body": [("cl", 1, [("v", 0)], []), ("cl", 2, [("v", 0), ("v", 1), ("v", 5)], [])]},
                      {"heads": [(4, [("var", 0), ("var", 1), ("var", 5)])], "body": [("cl", 1, [("v", 0)], []), ("cl", 2, [("v", 0), ("v", 1), ("v", 5)], [])]}]}


def sp_input(rng, n=None):
    """a graph with a cheap long chain and expensive shortcuts: a key of `sp` is improved several iterations after its row was first queued,
    and the number of rows under one first-column key grows from iteration to iteration"""
    n = n or rng.range(5, 8)
    edges = {(i, i + 1): 1 for i in range(n - 1)}
    for k in range(2, n):
        if rng.chance(2, 3): edges[(0, k)] = 40 + 10 * k + rng.range(0, 5)
    for _ in range(rng.range(0, 4)):
        a, b = rng.below(n), rng.below(n)
        if a != b and (a, b) not in edges: edges[(a, b)] = rng.range(2, 30)
    if rng.chance(1, 2): edges[(n - 1, 0)] = rng.range(1, 5)          # a cycle
    return {0: [(a, b, w) for (a, b), w in sorted(edges.items())], 1: [(0,)] + ([(rng.below(n),)] if rng.chance(1, 2) else []), 2: [], 3: [], 4: []}


def nodup_input(rng, p, max_rows=8):
    return dedup_input(gen_input(rng, p, max_rows))


def agg_first_joins(p):
    """(a, b, swapped) for every rule `agg .., a(y, z), b(z, m) | b(m, z)` (aggregation first, then two joined clauses)"""
    out = []
    for ru in p["rules"]:
        b = ru["body"]
        if len(b) >= 3 and b[0][0] == "agg" and b[1][0] == "cl" and b[2][0] == "cl":
            out.append((b[1][1], b[2][1], b[2][2][0] != ("v", 1)))
    return out


def skew_join_input(rng, inp, a, b, swapped):
    """many distinct join keys in `a`, one or two rows in `b` (the run-time choice by len_estimate then prefers to iterate `b`)"""
    inp = dict(inp)
    if a == b: return inp
    n = rng.range(5, 8)
    inp[a] = [(rng.range(0, 4), z) for z in range(n)]
    rows = [(rng.range(0, n - 1), rng.range(0, 6)) for _ in range(rng.range(1, 2))]
    inp[b] = list(dict.fromkeys((m, z) if swapped else (z, m) for z, m in rows))
    return inp


def forced_programs():
    """shapes the random generator does not produce (it draws arities 1..3 and no facts): WIDE relations (arity 6 / 7 / 8, joined on four columns), NULLARY relations
    (`done()` in heads and bodies: the full index has the unit key) and FACTS (rules without body) feeding a recursive stratum"""
    V = lambda *xs: [("v", x) for x in xs]
    H = lambda *xs: [("var", x) for x in xs]
    wide = {"rels": [{"arity": 6}, {"arity": 7}, {"arity": 8}, {"arity": 6}],
            "rules": [{"heads": [(2, H(0, 1, 2, 3, 4, 5, 6, 7))], "body": [("cl", 0, V(0, 1, 2, 3, 4, 5), []), ("cl", 1, V(2, 3, 4, 5, 6, 7, 0), [])]},
                      {"heads": [(3, H(7, 6, 5, 4, 3, 2))], "body": [("cl", 2, V(0, 1, 2, 3, 4, 5, 6, 7), []), ("cl", 0, V(0, 1, 2, 3, 8, 9), [])]},
                      {"heads": [(0, H(5, 4, 3, 2, 1, 0))], "body": [("cl", 3, V(0, 1, 2, 3, 4, 5), []), ("if", ("lt", ("var", 0), 3))]}]}
    nul = {"rels": [{"arity": 1}, {"arity": 0}, {"arity": 1}, {"arity": 0}, {"arity": 2}, {"arity": 0}],
           "rules": [{"heads": [(1, [])], "body": [("cl", 0, V(0), []), ("if", ("le", 3, ("var", 0)))]},
                     {"heads": [(2, H(0))], "body": [("cl", 0, V(0), []), ("cl", 1, [], [])]},
                     {"heads": [(3, [])], "body": [("cl", 1, [], []), ("cl", 2, V(0), []), ("if", ("eq", ("var", 0), 0))]},
                     {"heads": [(4, H(0, 1))], "body": [("cl", 3, [], []), ("cl", 2, V(0), []), ("cl", 2, V(1), [])]},
                     {"heads": [(5, [])], "body": [("cl", 1, [], []), ("cl", 3, [], [])]},
                     {"heads": [(0, [("add", ("var", 0), 1)])], "body": [("cl", 0, V(0), []), ("cl", 5, [], []), ("if", ("lt", ("var", 0), 6))]}]}
    fac = {"rels": [{"arity": 2}, {"arity": 2}, {"arity": 1}],
           "rules": [{"heads": [(0, [1, 2])], "body": []}, {"heads": [(0, [2, 3])], "body": []}, {"heads": [(0, [3, 1]), (2, [7])], "body": []},
                     {"heads": [(1, H(0, 1))], "body": [("cl", 0, V(0, 1), [])]},
                     {"heads": [(1, H(0, 2))], "body": [("cl", 1, V(0, 1), []), ("cl", 0, V(1, 2), [])]},
                     {"heads": [(2, H(0))], "body": [("cl", 1, [("v", 0), ("e", 1)], [])]},
                     {"heads": [(0, [4, ("var", 0)])], "body": [("cl", 2, V(0), []), ("if", ("lt", ("var", 0), 3))]}]}

    return {"fwide": wide, "fnul": nul, "ffac": fac}


def forced_input(pid, g, j):
    if pid == "fwide":
        base = [tuple(g.below(3) for _ in range(6)) for _ in range(g.range(2, 6))]
        return {0: list(dict.fromkeys(base)), 1: list(dict.fromkeys([t[2:] + (g.below(3), g.below(3), t[0]) for t in base if g.chance(2, 3)] + [tuple(g.below(3) for _ in range(7))])), 2: [], 3: []}
    if pid == "fnul":
        return {0: [(x,) for x in sorted({g.below(5) for _ in range(g.range(1, 4))} | ({0} if j % 2 else set()))], 1: [()] if j % 4 == 3 else [], 2: [], 3: [], 4: [], 5: []}
    inp = {0: [(g.below(5), g.below(5)) for _ in range(g.below(3))], 1: [], 2: [(g.below(4),)] if j % 2 else []}
    inp[0] = list(dict.fromkeys(inp[0]))
    return inp
