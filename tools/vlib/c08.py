"""C08 — in-program macros expand hygienically."""
import copy, os
from . import core, eng, engcheck, sgen, surfcheck, tieb, surface as S

THEOREMS = ["expand_hygienic", "ideal_vars", "tagVar_inj", "tagVar_ge", "gensyms_disjoint", "recursive_rejected", "recursive_rejected_msg", "recursive_rejected_heads",
            "expandBody_total", "expandBody_mono", "f25_fixed", "f25_ideal", "f25_hygienic", "f25_by_theorem",
            "branching_disjunction_rejected", "branching_head_rejected", "branching_rule_rejected", "stdOps_opsLaws", "stdOps_varsLaws", "expand_hygienic_sem", "expand_hygienic_sem_std"]
TRUSTED = ["Lean 4.33.0 kernel", "axioms: propext, Classical.choice, Quot.sound only (audited per theorem)",
           "statement: Props/C08.lean",
           "tools/vlib/surface.py expand_spec (macro bodies pasted with parameters substituted as identifiers / expressions, macro-local identifiers renamed freshly per invocation) "
           "is the reading of MACROS.MD the oracle uses",
           "tie B only for hygiene (token spans are real only under rustc): each program with macros and its printed ideal expansion are compiled by the real macros and run on the "
           "same inputs; tie A (in-process pipeline) for the rejection of recursive macros",
           "identifier origin in the Lean model is a model of `format!(\"{:?}\", span)` equality"]

RECURSIVE_MSG = "recursively defined Ascent macro"


# ------------------------------------------------------------------ class predicates of the known findings (code)

def local_vars(x):
    out = set()
    def walk(y):
        if isinstance(y, tuple) and len(y) == 2 and y[0] in ("v", "var", "some", "id", "b") and isinstance(y[1], int): out.add(y[1])
        if isinstance(y, tuple) and len(y) == 3 and y[0] in ("let", "iflet", "for") and isinstance(y[1], int): out.add(y[1])
        if isinstance(y, (tuple, list)):
            for z in y: walk(z)
    walk(x)
    return out


def f25_class(p):
    """some macro body contains a clause with conditions attached to it (no comma) that mention a macro-local identifier.
    This WAS the class of finding F25 (the hygiene pass skipped attached conditions); fixed by 3a6dc9a: the predicate no longer attributes
    anything, it only counts how many programs of the former class were explored (they must pass like every other program)"""
    def walk(items):
        for it in items:
            if it[0] == "cl" and it[3] and local_vars(list(it[3])): return True
            if it[0] == "or" and any(walk(a) for a in it[1]): return True
        return False
    return any("body" in m and walk(m["body"]) for m in p.get("macros", []))


def f27_class(p):
    """some macro body contains a `?None` argument (an identifier pattern that names a constant, not a variable)"""
    def walk(items):
        for it in items:
            if it[0] == "cl" and any(a[0] == "none" for a in it[2]): return True
            if it[0] == "or" and any(walk(a) for a in it[1]): return True
        return False
    return any("body" in m and walk(m["body"]) for m in p.get("macros", []))


def f27_bugspec_program(p):
    """what the generated code computes in the class of F27: the hygiene pass renames the pattern identifier `None` like a variable, the
    argument becomes a fresh binding that matches every value (a wildcard)"""
    q = copy.deepcopy(p)
    def walk(items):
        out = []
        for it in items:
            if it[0] == "cl": out.append(("cl", it[1], [("_",) if a[0] == "none" else a for a in it[2]], it[3]))
            elif it[0] == "or": out.append(("or", [walk(a) for a in it[1]]))
            else: out.append(it)
        return out
    for m in q.get("macros", []):
        if "body" in m: m["body"] = walk(m["body"])
    return q


def f26_class(p):
    """pasting the expression arguments of the invocations as raw tokens parses differently from substituting them as expressions"""
    try:
        return S.expand_spec(p, bare=True) != S.expand_spec(p)
    except (S.RecursiveMacro, ValueError):
        return False


# ------------------------------------------------------------------ targeted streams

def base_schema():
    return {"rels": [{"arity": 2}, {"arity": 1}, {"arity": 2}, {"arity": 1}], "macros": [], "rules": []}


def f25_programs(rng, n):
    out = []
    for i in range(n):
        r = rng.fork(f"f25_{i}")
        p = base_schema()
        c = r.range(0, 3)
        shape = ["capture", "param-only", "detached", "nested-capture", "attached-let", "attached-iflet"][i % 6]
        if shape == "capture":          # `r0(v0, $p0) if v0 > c`: the condition's v0 must be the macro's v0, not the CALL SITE's v0 (the witness of F25)
            p["macros"] = [{"params": ["ident"], "body": [("cl", 0, [("v", 0), ("v", ("p", 0))], [("if", ("lt", c, ("var", 0)))])]}]
            p["rules"] = [{"heads": [(2, [("var", 0), ("var", 1)])], "body": [("cl", 1, [("v", 0)], []), ("mac", 0, [("id", 1)])]}]
        elif shape == "param-only":     # control: the attached condition mentions only the parameter
            p["macros"] = [{"params": ["ident"], "body": [("cl", 0, [("v", 0), ("v", ("p", 0))], [("if", ("lt", c, ("var", ("p", 0))))])]}]
            p["rules"] = [{"heads": [(2, [("var", 0), ("var", 1)])], "body": [("cl", 1, [("v", 0)], []), ("mac", 0, [("id", 1)])]}]
        elif shape == "detached":       # control: the same condition written as a separate item
            p["macros"] = [{"params": ["ident"], "body": [("cl", 0, [("v", 0), ("v", ("p", 0))], []), ("if", ("lt", c, ("var", 0)))]}]
            p["rules"] = [{"heads": [(2, [("var", 0), ("var", 1)])], "body": [("cl", 1, [("v", 0)], []), ("mac", 0, [("id", 1)])]}]
        elif shape == "nested-capture":  # the attached condition sits in a macro invoked from another macro
            p["macros"] = [{"params": ["ident"], "body": [("cl", 0, [("v", 0), ("v", ("p", 0))], [("if", ("ne", ("var", 0), c))])]},
                           {"params": ["ident"], "body": [("cl", 1, [("v", 1)], []), ("mac", 0, [("id", ("p", 0))])]}]
            p["rules"] = [{"heads": [(2, [("var", 0), ("var", 2)])], "body": [("cl", 1, [("v", 0)], []), ("mac", 1, [("id", 2)])]}]
        elif shape == "attached-let":   # `r0(v0, $p0) let v1 = v0 + c if v1 < k`: an attached `let` BINDS a macro-local spelled like the call site's argument v1
            p["macros"] = [{"params": ["ident"], "body": [("cl", 0, [("v", 0), ("v", ("p", 0))],
                                                           [("let", 1, ("add", ("var", 0), c)), ("if", ("lt", ("var", 1), r.range(2, 5)))])]}]
            p["rules"] = [{"heads": [(2, [("var", 0), ("var", 1)])], "body": [("cl", 1, [("v", 0)], []), ("mac", 0, [("id", 1)])]}]
        else:                           # `r0(v0, $p0) if let Some(v1) = Some(v0 + c) if v1 != k`: an attached `if let` binds a macro-local
            p["macros"] = [{"params": ["ident"], "body": [("cl", 0, [("v", 0), ("v", ("p", 0))],
                                                           [("iflet", 1, ("somex", ("add", ("var", 0), c))), ("if", ("ne", ("var", 1), r.range(1, 4)))])]}]
            p["rules"] = [{"heads": [(2, [("var", 0), ("var", 1)])], "body": [("cl", 1, [("v", 0)], []), ("mac", 0, [("id", 1)])]}]
        p["rules"].append({"heads": [(3, [("var", 0)])], "body": [("cl", 2, [("v", 0), ("_",)], [])]})
        out.append((p, shape))
    return out


def f26_programs(rng, n):
    out = []
    for i in range(n):
        r = rng.fork(f"f26_{i}")
        p = base_schema()
        c = r.range(2, 8)
        shape = ["mul-right", "sub-right", "compare-only", "parenthesised", "mul-left"][i % 5]
        arg = ("add", ("var", 0), r.range(1, 2))
        if shape in ("mul-right", "parenthesised"): t = ("lt", ("mul", ("var", 0), ("var", ("p", 1))), c)
        elif shape == "mul-left": t = ("lt", ("mul", ("var", ("p", 1)), ("var", 0)), c)
        elif shape == "sub-right": t = ("lt", ("sub", 6, ("var", ("p", 1))), c)
        else: t = ("lt", ("var", ("p", 1)), c)                   # control: the bare tokens sit in a context where grouping does not matter
        p["macros"] = [{"params": ["ident", "expr"], "body": [("cl", 0, [("v", 0), ("v", ("p", 0))], []), ("if", t)]}]
        p["rules"] = [{"heads": [(2, [("var", 0), ("var", 1)])], "body": [("cl", 1, [("v", 0)], []), ("mac", 0, [("id", 1), ("ex", arg)])]},
                      {"heads": [(3, [("var", 0)])], "body": [("cl", 2, [("v", 0), ("_",)], [])]}]
        out.append((p, shape, shape != "parenthesised"))
    return out


def f27_programs(rng, n):
    out = []
    for i in range(n):
        p = {"rels": [{"arity": 2, "types": ["int", "opt"]}, {"arity": 1}, {"arity": 2}, {"arity": 1}], "macros": [], "rules": []}
        shape = ["macro-none", "site-none", "macro-some", "nested-none"][i % 4]
        if shape == "macro-none":       # `?None` in a macro body: renamed to `?__None_`, which matches Some(..) rows as well
            p["macros"] = [{"params": ["ident"], "body": [("cl", 0, [("v", ("p", 0)), ("none",)], [])]}]
            p["rules"] = [{"heads": [(3, [("var", 0)])], "body": [("cl", 1, [("v", 0)], []), ("mac", 0, [("id", 0)])]}]
        elif shape == "site-none":      # control: the same clause at the call site
            p["macros"] = [{"params": ["ident"], "body": [("cl", 1, [("v", ("p", 0))], [])]}]
            p["rules"] = [{"heads": [(3, [("var", 0)])], "body": [("mac", 0, [("id", 0)]), ("cl", 0, [("v", 0), ("none",)], [])]}]
        elif shape == "macro-some":     # control: `?Some(local)` in a macro body
            p["macros"] = [{"params": ["ident"], "body": [("cl", 0, [("v", ("p", 0)), ("some", 0)], []), ("if", ("le", ("var", 0), 3))]}]
            p["rules"] = [{"heads": [(3, [("var", 0)])], "body": [("cl", 1, [("v", 0)], []), ("mac", 0, [("id", 0)])]}]
        else:
            p["macros"] = [{"params": ["ident"], "body": [("cl", 0, [("v", ("p", 0)), ("none",)], [])]},
                           {"params": ["ident"], "body": [("cl", 1, [("v", ("p", 0))], []), ("mac", 0, [("id", ("p", 0))])]}]
            p["rules"] = [{"heads": [(3, [("var", 0)])], "body": [("mac", 1, [("id", 0)])]}]
        p["rules"].append({"heads": [(2, [("var", 0), ("var", 0)])], "body": [("cl", 3, [("v", 0)], [])]})
        out.append((p, shape))
    return out


def rec_programs():
    """(id, program, expected) for tie A; expected: "reject" | "ok" """
    def prog(macros, rule):
        p = base_schema(); p["macros"] = macros; p["rules"] = [rule]; return p
    call = lambda m, v=("p", 0): ("mac", m, [("id", v)])
    rule = lambda m: {"heads": [(3, [("var", 0)])], "body": [("cl", 1, [("v", 0)], []), ("mac", m, [("id", 0)])]}
    out = []
    out.append(("direct", prog([{"params": ["ident"], "body": [("cl", 1, [("v", ("p", 0))], []), call(0)]}], rule(0)), "reject"))
    out.append(("direct-only", prog([{"params": ["ident"], "body": [call(0)]}], rule(0)), "reject"))
    out.append(("mutual2", prog([{"params": ["ident"], "body": [("cl", 1, [("v", ("p", 0))], []), call(1)]}, {"params": ["ident"], "body": [call(0)]}], rule(0)), "reject"))
    out.append(("mutual3", prog([{"params": ["ident"], "body": [call(1)]}, {"params": ["ident"], "body": [("cl", 1, [("v", ("p", 0))], []), call(2)]},
                                 {"params": ["ident"], "body": [call(0)]}], rule(1)), "reject"))
    out.append(("in-disjunction", prog([{"params": ["ident"], "body": [("or", [[("cl", 1, [("v", ("p", 0))], [])], [call(0)]])]}], rule(0)), "reject"))
    out.append(("twice-sequential", prog([{"params": ["ident"], "body": [call(0), call(0)]}], rule(0)), "reject"))
    out.append(("unused-recursive", prog([{"params": ["ident"], "body": [call(0)]}, {"params": ["ident"], "body": [("cl", 1, [("v", ("p", 0))], [])]}], rule(1)), "ok"))
    chain = [{"params": ["ident"], "body": [("cl", 1, [("v", ("p", 0))], [])]}] + [{"params": ["ident"], "body": [call(k)]} for k in range(12)]
    out.append(("chain12", prog(chain, rule(12)), "ok"))
    hrule = lambda m: {"heads": [("mac", m, [("id", 0)])], "body": [("cl", 1, [("v", 0)], [])]}
    out.append(("head-direct", prog([{"params": ["ident"], "heads": [(3, [("var", ("p", 0))]), call(0)]}], hrule(0)), "reject"))
    out.append(("head-mutual", prog([{"params": ["ident"], "heads": [call(1)]}, {"params": ["ident"], "heads": [(3, [("var", ("p", 0))]), call(0)]}], hrule(0)), "reject"))
    out.append(("head-chain", prog([{"params": ["ident"], "heads": [(3, [("var", ("p", 0))])]}, {"params": ["ident"], "heads": [call(0), call(0)]}], hrule(1)), "ok"))
    return out


def branching_witnesses():
    """[(id, program)]: macros that invoke themselves twice per level (the former class of FM8: 2^50 / 2^100 eager expansions before fix deae510)"""
    call = ("mac", 0, [("id", ("p", 0))])
    rule = {"heads": [(3, [("var", 0)])], "body": [("cl", 1, [("v", 0)], []), ("mac", 0, [("id", 0)])]}
    hrule = {"heads": [("mac", 0, [("id", 0)])], "body": [("cl", 1, [("v", 0)], [])]}
    out = []
    def add(i, macro, rl):
        p = base_schema(); p["macros"] = [macro]; p["rules"] = [copy.deepcopy(rl)]; out.append((i, p))
    add("branch-disjunction", {"params": ["ident"], "body": [("or", [[call], [call]])]}, rule)
    add("branch-disjunction-after-clause", {"params": ["ident"], "body": [("or", [[("cl", 1, [("v", ("p", 0))], [])], [call]]), ("or", [[call], [call]])]}, rule)
    add("branch-nested-disjunction", {"params": ["ident"], "body": [("or", [[("or", [[call], [call]])], [call]])]}, rule)
    add("branch-head", {"params": ["ident"], "heads": [call, call]}, hrule)
    add("branch-head-after-clause", {"params": ["ident"], "heads": [(3, [("var", ("p", 0))]), call, call]}, hrule)
    return out


# ------------------------------------------------------------------ build

def build(rng, tier):
    quick = tier == "quick"
    sel, have = sgen.select(rng.fork("c08"), sgen.gen_c08_program, sgen.C08_TAGS, 3 if quick else 12, 14 if quick else 70)
    build.coverage = {"tags": have, "general_programs": len(sel)}
    units, cases = [], []
    def add(pid, p, q, kind, inputs, bare=False, cls=None, bug=None):
        us = surfcheck.Unit(f"{pid}s", S.rs_module(f"{pid}s", p, bare_args=bare), p, q, kind, {"class": cls, "bare": bare})
        ux = surfcheck.Unit(f"{pid}x", S.rs_module(f"{pid}x", q), None, q, kind + "-expanded")
        units.extend([us, ux])
        for j, inp in enumerate(inputs):
            exp = surfcheck.spec_sets(q, inp)
            for u in (us, ux):
                inst = f"{u.pid}_{j}"
                meta = {"inp": inp, "kind": u.kind, "expected": exp}
                if u is us and cls:
                    meta["class"] = cls
                    if bug: meta["bugspec"] = bug(inp)
                cases.append(engcheck.Case(u.pid, inst, engcheck.std_history(inst, u.pid, inp), meta))
    for i, (p, q, tags) in enumerate(sel):
        inputs = [sgen.gen_input(rng.fork(f"h{i}i{j}"), p) for j in range(4 if quick else 12)]
        if "suffix-twice" in tags:
            # the six-hop rule of the `vL` / `vL1` macro on a simple cycle (no self loops): if the two expansions share a local, the walk has to
            # revisit a node it cannot revisit and the rule derives nothing (on dense random graphs the projection on the end points hides the loss)
            for ru in p["rules"]:
                if ru["body"] and ru["body"][0][0] == "mac" and ru["body"][0][2][0] == ("id", 64):
                    hop = p["macros"][ru["body"][0][1]]["body"][0]
                    r, tys = hop[1], S.rel_types(p, hop[1])
                    ints = [j for j, t in enumerate(tys) if t == "int"][:2]
                    for j in (0, 1):
                        n = 7 + j
                        def row(a, b):
                            vals = {ints[0]: a, ints[1]: b}
                            return tuple(vals[k] if k in vals else (0 if t == "int" else "none") for k, t in enumerate(tys))
                        inputs[j] = dict(inputs[j]); inputs[j][r] = [row(a, (a + 1) % n) for a in range(n)]; inputs[j][ru["heads"][0][0]] = []
        add(f"h{i}", p, q, "general", inputs, bare=not f26_class(p))       # expression arguments without parentheses wherever grouping cannot matter
    # forced stream "identifier-free invocations": macros invoked with NO identifier among their arguments - `m!()` of a parameterless macro, `m!(1)` / `m!(2)` with literal
    # arguments - whose bodies introduce a local variable: two such invocations in one rule each get their own copy of the local, a call-site variable with the local's
    # spelling stays a different variable, and a parameterless macro may invoke another one with literal arguments
    for i in range(3 if quick else 6):
        lit = {"params": ["expr"], "body": [("cl", 0, [("e", ("var", ("p", 0))), ("v", 7)], [])]}
        nop = {"params": [], "body": [("cl", 0, [("e", 0), ("v", 7)], [])]}
        nest = {"params": [], "body": [("mac", 0, [("ex", 1)]), ("mac", 0, [("ex", 2)])]}
        p = {"rels": [{"arity": 2}, {"arity": 1}, {"arity": 1}, {"arity": 1}, {"arity": 0}, {"arity": 2}], "macros": [lit, nop, nest], "rules": []}
        p["rules"].append({"heads": [(2, [("var", 0)])], "body": [("mac", 0, [("ex", 1)]), ("mac", 0, [("ex", 2)]), ("cl", 1, [("v", 0)], [])]})
        p["rules"].append({"heads": [(3, [("var", 7)])], "body": [("cl", 1, [("v", 7)], []), ("mac", 1, [])] if i % 2 == 0 else [("mac", 1, []), ("cl", 1, [("v", 7)], [])]})
        p["rules"].append({"heads": [(4, [])], "body": [("mac", 2, [])]})
        p["rules"].append({"heads": [(5, [("var", 7), ("var", 8)])], "body": [("cl", 1, [("v", 7)], []), ("cl", 1, [("v", 8)], []), ("mac", 0, [("ex", ("add", ("var", 8), 0))])] if i % 3 else [("cl", 1, [("v", 7)], []), ("cl", 1, [("v", 8)], []), ("mac", 0, [("ex", 1)])]})
        q = S.expand_spec(p)
        inputs = []
        for j in range(4 if quick else 10):
            g = rng.fork(f"idf_{i}i{j}")
            e = [(0, 5), (1, 6), (2, 7)] if j == 0 else list(dict.fromkeys((g.below(4), 5 + g.below(4)) for _ in range(g.range(2, 6))))
            inputs.append({0: e, 1: [(x,) for x in range(g.range(2, 6))], 2: [], 3: [], 4: [], 5: []})
        add(f"f{i}", p, q, "identifier-free-invocations", inputs)
    nf25 = 0
    for i, (p, shape) in enumerate(f25_programs(rng.fork("f25"), 6 if quick else 12)):
        q = S.expand_spec(p)
        inputs = [sgen.gen_input(rng.fork(f"f25_{i}i{j}"), p) for j in range(3 if quick else 8)]
        if i == 0: inputs[0] = {0: [(1, 10), (-1, 10), (5, 20)], 1: [(1,), (-1,), (7,)], 2: [], 3: []}       # the witness of finding F25
        nf25 += f25_class(p)
        add(f"a{i}", p, q, "f25-stream", inputs)       # F25 is fixed (3a6dc9a): no class, sugared program = ideal expansion = model, or it is a violation
    build.coverage["former_f25_class_programs"] = nf25 + sum(1 for p, _, _ in sel if f25_class(p))
    for i, (p, shape, bare) in enumerate(f26_programs(rng.fork("f26"), 5 if quick else 15)):
        q = S.expand_spec(p)
        inputs = [sgen.gen_input(rng.fork(f"f26_{i}i{j}"), p) for j in range(3 if quick else 8)]
        cls = "F26" if bare and f26_class(p) else None
        add(f"e{i}", p, q, "f26-stream", inputs, bare=bare, cls=cls, bug=(lambda inp, p=p: surfcheck.spec_sets(S.expand_spec(p, bare=True), inp)) if cls else None)
    for i, (p, shape) in enumerate(f27_programs(rng.fork("f27"), 4 if quick else 8)):
        q = S.expand_spec(p)
        inputs = [sgen.gen_input(rng.fork(f"f27_{i}i{j}"), p) for j in range(3 if quick else 8)]
        if i == 0: inputs[0] = {0: [(1, "none"), (2, ("some", 5)), (3, ("some", 0))], 1: [(1,), (2,), (3,), (4,)], 2: [], 3: []}
        cls = "F27" if f27_class(p) else None
        add(f"o{i}", p, q, "f27-stream", inputs, cls=cls, bug=(lambda inp, p=p: surfcheck.spec_sets(S.expand_spec(f27_bugspec_program(p)), inp)) if cls else None)
    return units, cases


def known(c, u, impl, model):
    cl = c.meta.get("class")
    if u.surface is None or not cl: return None
    if cl == "F27" and f27_class(u.surface):
        got, _ = engcheck.dump_sets(impl[-1]) if impl[-1].startswith("r0:") else ({}, None)
        if got and all(got.get(r, set()) == s for r, s in c.meta["bugspec"].items()):
            return ("F27", "`?None` inside a macro body: the hygiene pass renames the pattern identifier `None` like a macro-local variable (`?__None_`), "
                           "the argument then matches every value instead of only None")
    if cl == "F26" and u.meta.get("bare") and f26_class(u.surface):
        got, _ = engcheck.dump_sets(impl[-1]) if impl[-1].startswith("r0:") else ({}, None)
        if got and all(got.get(r, set()) == s for r, s in c.meta["bugspec"].items()):
            return ("F26", "an `expr` macro parameter is pasted as raw tokens, not as one expression: `v * $e` with `$e = a + 1` computes `v * a + 1`")
    return None


def extra(r, d, rng, tier):
    """rejection of recursive macros: tie A (real pipeline in process) vs the Lean expansion model vs the documentation's reading"""
    r.cov.update(getattr(build, "coverage", {}))
    progs = rec_programs()
    outs, timed_out, wall, log = surfcheck.tie_a([(i, "ascent", surfcheck.tie_a_body(p)) for i, p, _ in progs], timeout=600)
    model = None
    if surfcheck.lean_has_sprog() and os.path.exists(core.lean_driver()):
        model = core.run_model([f"eng sprog {i.replace('-', '_')} {S.sx_sprog(p)}" for i, p, _ in progs])
    r.cov["tie_a_wall_s"] = round(wall, 1)
    r.cov["recursion_programs"] = len(progs)
    for k, (i, p, exp) in enumerate(progs):
        got = outs.get(i)
        spec_rec = S.macros_recursive(p) and exp == "reject"
        line = f"tie-A {i}: {surfcheck.tie_a_body(p)}"
        def orc(_l, out, exp=exp):
            if exp == "reject": return None if out == "err " + RECURSIVE_MSG or out == "reject RecursiveMacro" else f"a macro that reaches itself must be rejected with `{RECURSIVE_MSG}`, got: {out}"
            return None if out == "ok" else f"a program without recursive macros must be accepted, got: {out}"
        mo = None
        if model is not None: mo = {"ok": "ok", "reject RecursiveMacro": "err " + RECURSIVE_MSG}.get(model[k], model[k])
        d.case(line, got if got is not None else "no-record (timeout or crash)", mo, orc)
    # the former class of FM8 (fixed by deae510): a macro that invokes itself TWICE per level — inside one disjunction, in a head macro, behind a first alternative
    # that expands. Expansion stops at the first error now, so the real pipeline must REJECT these with the documented message, quickly (each is run alone under a
    # generous time limit as a safety net: a missing record — time limit or crash — is a failure, no longer a known finding), and so must the model
    budget = 20 if tier == "quick" else 60
    ws = branching_witnesses()
    wmodel = None
    if model is not None:
        wmodel = core.run_model([f"eng sprog {i.replace('-', '_')} {S.sx_sprog(w)}" for i, w in ws])
    walls = {}
    for k, (i, w) in enumerate(ws):
        outs, timed_out, wall, log = surfcheck.tie_a([(i, "ascent", surfcheck.tie_a_body(w))], timeout=budget + 600, run_timeout=budget)
        got = outs.get(i)
        walls[i] = round(wall, 1)
        def orc(_l, out):
            return None if out == "err " + RECURSIVE_MSG else f"a macro that invokes itself twice per level must be rejected with `{RECURSIVE_MSG}` within {budget} s, got: {out}"
        mo = None
        if wmodel is not None: mo = {"ok": "ok", "reject RecursiveMacro": "err " + RECURSIVE_MSG}.get(wmodel[k], wmodel[k])
        d.case(f"tie-A {i}: {surfcheck.tie_a_body(w)}", got if got is not None else f"no-record (time limit of {budget} s or crash)", mo, orc)
    r.cov["branching_recursion_wall_s"] = walls
    if tier == "thorough":
        # one compile by rustc: the rejection must surface as a compile error carrying the documented message
        i, p, _ = progs[0]
        bins, log, wall = tieb.build("c08rec", [("rec0", S.rs_module("rec0", p))], nbins=1)
        ok = bins is None and RECURSIVE_MSG in log
        r.cov["rustc_rejects_recursive_macro"] = ok
        try: os.remove(os.path.join(tieb.ENG, "src", "gen_c08rec_b0.rs"))
        except OSError: pass
        if not ok:
            r.violation({"kind": "failing-input", "input": S.s_program(p), "impl": log[-1500:], "why": "rustc did not reject the recursive macro with the documented message"})


MODULES = [m for m in ("AscentVerif.Props.C08", "AscentVerif.Props.C08Sem") if os.path.exists(os.path.join(core.LEAN, *m.split(".")) + ".lean")]


def check(tier, replay=None):
    rule = ("programs with in-program macros (ident / expr parameters; bodies with clauses, ?patterns, negation, conditions attached to clauses and detached, disjunctions, nested invocations; head macros, "
            "nested) x call patterns forced by quota (" + ", ".join(sgen.C08_TAGS) + "; macro-local and call-site variables share their spellings v0, v1, ..) x inputs; program and "
            "printed ideal expansion both compiled by the real macros; targeted streams for the former class of F25 (attached conditions reading / binding macro-locals: fixed by 3a6dc9a, must pass), F26 (expr parameter pasted as raw tokens), F27 (`?None` in a macro body); "
            "recursive macros (direct, mutual, through heads, inside a disjunction; invoking themselves twice per level in a disjunction / a head: the former class of FM8, each under a time limit) "
            "through the in-process pipeline")
    return surfcheck.run_surface_property("C08", tier, modules=MODULES, theorems=THEOREMS, trusted=TRUSTED, group="c08", build=build, known=known,
                                          what="programs with macros vs their ideal expansion", rule=rule, extra=extra)
