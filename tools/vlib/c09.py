"""C09 — packaging variants of a program are semantically transparent."""
from . import core, eng, gen, engcheck, c06

THEOREMS = ["redeclaration_last_wins", "redeclaration_unique", "wfSt_defaultSt", "init_starts_from_initialiser", "init_agg_view_each_once", "init_then_run_view_witness"]
TRUSTED = ["Lean 4.33.0 kernel", "axioms: propext, Classical.choice, Quot.sound only (audited per theorem)",
           "statement: Props/C09.lean (re-declaration: dedup-keep-last and reverse lookup select the same declaration; initialised relations start from "
           "exactly their initialiser as sets from any well-formed value; with aggregation each tuple of an initialiser is seen once, finding F3 fixed by 8b2e261)",
           "attributes (measure_rule_times, generate_run_timeout), generics, ascent_run! capture, include_source! splicing and the segment-codegen "
           "feature are erased by the model: for them the claim is the tie obligation — every variant is compiled and must equal the base's model / oracle",
           "rustc's macro_rules expansion of ascent_source!/include_source! is trusted"]

DRIVER_TAIL = """
   impl Driver for Inst {{
      fn load(&mut self, rel: usize, rows: &[Sexp], append: bool) -> Option<()> {{
         match rel {{
{loads}
            _ => return None,
         }}
         Some(())
      }}
      fn run(&mut self) {{ {run} }}
      fn run_here(&mut self) {{ {run} }}
      fn run_timeout(&mut self, _k: usize) -> Option<bool> {{ None }}
      fn dump(&self) -> String {{ vec![{dumps}].join(" | ") }}
      fn iters(&self) -> String {{ "iters".into() }}
   }}
}}
"""


def module_run(name, p, par=False, init_rels=None):
    """`ascent_run!` with the inputs and one constant captured from locals (`init_rels`: only these relations get an initialiser)"""
    nm = eng.Names()
    macro = "ascent_run_par" if par else "ascent_run"
    n = len(p["rels"])
    tys = ["(" + "".join(t + "," for t in eng.col_types(p, r, nm)) + ")" for r in range(n)]
    inits = {r: f"in{r}" + (".into_iter().collect()" if par else "") for r in range(n) if init_rels is None or r in init_rels}
    decls = "\n            ".join(eng.rs_decls(p, nm, inits=inits))
    rules = "\n            ".join(eng.rs_rule(p, ru, nm) for ru in p["rules"])
    fields = "\n      ".join(f"pub in{r}: Vec<{tys[r]}>, pub out{r}: Vec<{tys[r]}>," for r in range(n))
    loads = "\n".join(f"            {r} => {{ let v: Vec<{tys[r]}> = parse_rows(rows)?; if append {{ self.in{r}.extend(v) }} else {{ self.in{r} = v }} }}," for r in range(n))
    caps = "\n         ".join(f"let in{r} = self.in{r}.clone();" for r in range(n))
    outs = "\n         ".join(f"self.out{r} = res.r{r}.iter().cloned().collect();" for r in range(n))
    dumps = ", ".join(f"dump_rel({r}, self.out{r}.iter().map(Row::render).collect())" for r in range(n))
    return f"""#[allow(unused, non_snake_case, clippy::all)]
pub mod {name} {{
   use ascent::*;
   use ascent::aggregators::*;
   use ascent::lattice::{{Dual, set::Set, bounded_set::BoundedSet}};
   use crate::common::*;
   #[derive(Default)]
   pub struct Inst {{
      {fields}
   }}
   pub fn make(_pool: Option<usize>) -> Box<dyn Driver> {{ Box::new(Inst::default()) }}
   impl Inst {{
      fn go(&mut self) {{
         {caps}
         let res = {macro}! {{
            struct Prog;
            {decls}
            {rules}
         }};
         {outs}
      }}
   }}
""" + DRIVER_TAIL.format(loads=loads, run="self.go()", dumps=dumps)


def module_include(name, p, pos, attrs=()):
    """part of the rules in an `ascent_source!`, spliced by `include_source!` at the first / middle / last position
    (`attrs`: program-level inner attributes in front of everything; they must survive the re-invocation through the included macro)"""
    nm = eng.Names()
    n = len(p["rules"])
    k = max(1, n // 2)
    src_rules = p["rules"][:k]
    rest = p["rules"][k:]
    src = "\n      ".join(eng.rs_rule(p, ru, nm) for ru in src_rules)
    restl = [eng.rs_rule(p, ru, nm) for ru in rest]
    cut = {"first": 0, "middle": len(restl) // 2, "last": len(restl)}[pos]
    inner = restl[:cut] + [f"include_source!({name}_src);"] + restl[cut:]
    body = "\n      ".join([f"#![{a}]" for a in attrs] + ["pub struct Prog;"] + eng.rs_decls(p, nm) + inner)
    base = eng.rs_module(name, p, attrs=attrs)
    start = base.index("ascent! {")
    end = base.index("pub struct Inst")
    return base[:start] + f"ascent_source! {{ {name}_src:\n      {src}\n   }}\n   ascent! {{\n      {body}\n   }}\n   " + base[end:]


def module_include_redecl(name, p, rng):
    """the included source declares a relation WITH an initialiser; the including program declares it again, plainly, AFTER the `include_source!`:
    the source is pasted in place, so the later (plain) declaration must win and the relation must start empty"""
    nm = eng.Names()
    r = redecl_rel(p, rng)
    ar = p["rels"][r]["arity"]
    bogus = "(" + "".join("9," for _ in range(ar)) + ")"
    n = len(p["rules"])
    k = max(1, n // 2)
    decls = eng.rs_decls(p, nm)
    src = "\n      ".join([decls[r].replace(";", f" = vec![{bogus}];")] + [eng.rs_rule(p, ru, nm) for ru in p["rules"][:k]])
    restl = [eng.rs_rule(p, ru, nm) for ru in p["rules"][k:]]
    cut = len(restl) // 2
    inner = restl[:cut] + [f"include_source!({name}_src);", decls[r]] + restl[cut:]
    body = "\n      ".join(["pub struct Prog;"] + [d for i, d in enumerate(decls) if i != r] + inner)
    base = eng.rs_module(name, p)
    start = base.index("ascent! {")
    end = base.index("pub struct Inst")
    return base[:start] + f"ascent_source! {{ {name}_src:\n      {src}\n   }}\n   ascent! {{\n      {body}\n   }}\n   " + base[end:]


def redecl_rel(p, rng):
    return rng.below(len(p["rels"]))


def module_redecl(name, p, rng):
    """an earlier declaration of a relation (same signature, different initialiser) that the later declaration must override"""
    nm = eng.Names()
    r = redecl_rel(p, rng)
    ar = p["rels"][r]["arity"]
    bogus = "(" + "".join("9," for _ in range(ar)) + ")"
    base = eng.rs_module(name, p)
    decl = eng.rs_decls(p, nm)[r]
    first = decl.replace(";", f" = vec![{bogus}];")
    return base.replace(decl, first + "\n      " + decl, 1)


def module_generic(name, p):
    base = eng.rs_module(name, p)
    base = base.replace("pub struct Prog;", "pub struct Prog<T: Clone + Eq + std::hash::Hash>;\n      relation zz_generic(T);", 1)
    return base.replace("p: Prog,", "p: Prog<String>,")


def module_init(name, p, inp):
    """inputs baked in as `relation r(..) = vec![..]` initialisers under ascent!"""
    nm = eng.Names()
    def lit(t): return "(" + "".join(f"{x}," for x in t) + ")"
    inits = {r: "vec![" + ", ".join(lit(t) for t in rows) + "]" for r, rows in inp.items() if rows}
    base = eng.rs_module(name, p)
    for r, d in enumerate(eng.rs_decls(p, nm)):
        if r in inits: base = base.replace(d, d.replace(";", f" = {inits[r]};"), 1)
    return base


def negagg_only_program(rng):
    """the initialised relations are consulted ONLY through negation / aggregation (never in a head or a positive clause); the positive
    relations are fed by a generator.  Under ascent_run! the initialisers must still be indexed before the first stratum runs."""
    R = rng.range(3, 6)
    fn = rng.choice(["count", "sum", "min", "max"])
    p = {"rels": [{"arity": 1}, {"arity": 2}, {"arity": 1}, {"arity": 1}, {"arity": 2}], "rules": []}
    p["rules"].append({"heads": [(2, [("var", 0)])], "body": [("for", 0, ("range", 0, R))]})
    p["rules"].append({"heads": [(3, [("var", 0)])], "body": [("cl", 2, [("v", 0)], []), ("agg", [], "not", [], 0, [("k", ("var", 0))])]})
    agg = ("agg", [21], fn, [] if fn == "count" else [20], 1, [("k", ("var", 0)), "_" if fn == "count" else ("b", 20)])
    p["rules"].append({"heads": [(4, [("var", 0), ("var", 21)])], "body": [("cl", 2, [("v", 0)], []), agg]})
    if rng.chance(1, 2):
        p["rules"].append({"heads": [(3, [("add", ("var", 0), 10)])], "body": [("cl", 2, [("v", 0)], []), ("agg", [], "not", [], 1, [("k", ("var", 0)), "_"])]})
    return p


def has_agg(p): return any(it[0] == "agg" for ru in p["rules"] for it in ru["body"])


def build(rng, tier):
    nb = 6 if tier == "quick" else 30
    bases = engcheck.make_programs(rng.fork("c09"), nb) + engcheck.make_programs(rng.fork("c09a"), 2 if tier == "quick" else 8, genf=gen.gen_agg_program, filt=eng.stratifiable)
    progs, mods, cases = {}, [], []
    for i, p in enumerate(bases):
        pid = f"k{i}"
        fixed_inp = gen.nodup_input(rng.fork(f"{pid}fixed"), p, max_rows=6)
        variants = [(pid, eng.rs_module(pid, p), "base"), (f"{pid}_run", module_run(f"{pid}_run", p), "ascent_run"),
                    (f"{pid}_runpar", module_run(f"{pid}_runpar", p, par=True), "ascent_run_par"),
                    (f"{pid}_mrt", eng.rs_module(f"{pid}_mrt", p, attrs=("measure_rule_times",)), "measure_rule_times"),
                    (f"{pid}_grt", eng.rs_module(f"{pid}_grt", p, attrs=("generate_run_timeout",)), "generate_run_timeout"),
                    (f"{pid}_both", eng.rs_module(f"{pid}_both", p, attrs=("measure_rule_times", "generate_run_timeout")), "both-attrs"),
                    (f"{pid}_par", eng.rs_module(f"{pid}_par", p, macro="ascent_par"), "ascent_par"),
                    (f"{pid}_redecl", module_redecl(f"{pid}_redecl", p, rng.fork(pid + "rd")), "redeclared"),
                    (f"{pid}_incrd", module_include_redecl(f"{pid}_incrd", p, rng.fork(pid + "rd")), "redeclared after include_source"),
                    (f"{pid}_gen", module_generic(f"{pid}_gen", p), "generic-struct")]
        for pos in ("first", "middle", "last"):
            variants.append((f"{pid}_inc{pos}", module_include(f"{pid}_inc{pos}", p, pos), f"include_source-{pos}"))
        # include_source! together with program-level inner attributes (the driver of this variant calls run_timeout, which exists only if
        # `#![generate_run_timeout]` survived the re-invocation)
        variants.append((f"{pid}_incattr", module_include(f"{pid}_incattr", p, "middle", attrs=("measure_rule_times", "generate_run_timeout")), "include_source+inner-attributes"))
        variants.append((f"{pid}_init", module_init(f"{pid}_init", p, fixed_inp), "initialised"))
        for vid, text, kind in variants:
            progs[vid] = p; mods.append((vid, text))
        for j in range(3 if tier == "quick" else 8):
            inp = gen.nodup_input(rng.fork(f"{pid}i{j}"), p, max_rows=8)
            for vid, text, kind in variants:
                if kind == "initialised": continue
                inst = f"{vid}_{j}"
                if kind.startswith("redeclared") and j % 2 == 1:
                    # the re-declared relation is NOT loaded: it must start empty (the later declaration has no initialiser), not from the earlier one's rows
                    rr = redecl_rel(p, rng.fork(pid + "rd"))
                    inp2 = {r: (rows if r != rr else []) for r, rows in inp.items()}
                    ops = [f"eng new {inst} {vid}"] + engcheck.load_ops(inst, {r: rows for r, rows in inp2.items() if r != rr}) + [f"eng run {inst}", f"eng dump {inst}"]
                    cases.append(engcheck.Case(vid, inst, ops, {"inp": inp2, "kind": kind + " (relation left to its declaration)"}))
                    continue
                cases.append(engcheck.Case(vid, inst, engcheck.std_history(inst, vid, inp), {"inp": inp, "kind": kind}))
        # the variants must stay transparent over a HISTORY too: run; push further facts; run again (aggregation-free bases: the
        # re-run equals a fresh run on the union, C13) — e.g. an attribute that changed how a later run() re-indexes would show here only
        if not has_agg(p):
            r3 = rng.fork(f"{pid}hist")
            inp = gen.nodup_input(r3, p, max_rows=6)
            extra = gen.nodup_input(r3, p, max_rows=3)
            union = {r: list(inp.get(r, [])) + [t for t in extra.get(r, []) if t not in inp.get(r, [])] for r in range(len(p["rels"]))}
            for vid, text, kind in variants:
                if kind in ("initialised", "ascent_run", "ascent_run_par"): continue
                inst = f"{vid}_h"
                ops = engcheck.std_history(inst, vid, inp)
                for r, rows in extra.items():
                    rows = [t for t in rows if t not in inp.get(r, [])]
                    if rows: ops.append(f"eng push {inst} r{r}" + "".join(" " + eng.sx_tuple(t) for t in rows))
                ops += [f"eng run {inst}", f"eng dump {inst}"]
                cases.append(engcheck.Case(vid, inst, ops, {"inp": union, "kind": kind + " (run; push; run)"}))
        inst = f"{pid}_init_0"
        cases.append(engcheck.Case(f"{pid}_init", inst, [f"eng new {inst} {pid}_init", f"eng run {inst}", f"eng dump {inst}"],
                                   {"inp": fixed_inp, "kind": "initialised", "baked": True}))
        # initialisers AND rows pushed by the caller before the first run() (some of them derivable by the rules): the pushed rows must be indexed like the initial ones
        if not has_agg(p):
            r5 = rng.fork(f"{pid}initpush")
            db = eng.naive_model(p, fixed_inp)
            pushed = gen.nodup_input(r5, p, max_rows=3)
            for rel in range(len(p["rels"])):
                der = [tuple(t) for t in sorted(db.get(rel, ())) if tuple(t) not in fixed_inp.get(rel, [])][: r5.range(0, 2)]
                pushed[rel] = [t for t in dict.fromkeys(list(pushed.get(rel, [])) + der) if t not in fixed_inp.get(rel, [])]
            union = {rel: list(fixed_inp.get(rel, [])) + list(pushed.get(rel, [])) for rel in range(len(p["rels"]))}
            inst = f"{pid}_init_1"
            ops = [f"eng new {inst} {pid}_init"]
            for rel, rows in pushed.items():
                if rows: ops.append(f"eng push {inst} r{rel}" + "".join(" " + eng.sx_tuple(t) for t in rows))
            ops += [f"eng run {inst}", f"eng dump {inst}"]
            cases.append(engcheck.Case(f"{pid}_init", inst, ops, {"inp": union, "kind": "initialised", "baked": True}))
    # initialised relations that only negation / aggregation consult, under ascent_run! / ascent_run_par! (only the input relations are initialised)
    for i in range(2 if tier == "quick" else 8):
        r4 = rng.fork(f"na{i}")
        p = negagg_only_program(r4)
        pid = f"na{i}"
        variants = [(pid, eng.rs_module(pid, p), "base"), (f"{pid}_run", module_run(f"{pid}_run", p, init_rels={0, 1}), "ascent_run"),
                    (f"{pid}_runpar", module_run(f"{pid}_runpar", p, par=True, init_rels={0, 1}), "ascent_run_par")]
        # ... and with a relation that has NO initialiser, no fact and no deriving rule at all (statically empty inside ascent_run!): a negation over it holds,
        # count / sum over it are 0 - the rules consulting it fire all the same
        variants1 = [(f"{pid}_run1", module_run(f"{pid}_run1", p, init_rels={0}), "ascent_run"), (f"{pid}_runpar1", module_run(f"{pid}_runpar1", p, par=True, init_rels={0}), "ascent_run_par"),
                     (f"{pid}_run0", module_run(f"{pid}_run0", p, init_rels=set()), "ascent_run")]
        # ... and the attribute variants of the same program (#![measure_rule_times], #![generate_run_timeout], both; ascent! and ascent_par!) on inputs in which the negated /
        # aggregated relations are EMPTY: an attribute that only adds bookkeeping must not turn "a body relation is empty" into "the rule cannot fire" for aggregated relations
        variants2 = [(f"{pid}_mrt", eng.rs_module(f"{pid}_mrt", p, attrs=("measure_rule_times",)), "measure_rule_times"),
                     (f"{pid}_mrtp", eng.rs_module(f"{pid}_mrtp", p, macro="ascent_par", attrs=("measure_rule_times",)), "measure_rule_times-par"),
                     (f"{pid}_both", eng.rs_module(f"{pid}_both", p, attrs=("measure_rule_times", "generate_run_timeout")), "measure_rule_times+generate_run_timeout")]
        for vid, text, kind in variants + variants1 + variants2:
            progs[vid] = p; mods.append((vid, text))
        for j in range(3 if tier == "quick" else 6):
            inp = {0: [] if j % 3 else [(r4.range(0, 6),)], 1: [] if j % 3 != 2 else [(r4.range(0, 6), 1)], 2: [], 3: [], 4: []}
            for vid, text, kind in variants2:
                inst = f"{vid}_z{j}"
                hist = engcheck.std_history(inst, vid, inp)
                if kind.endswith("-par"): hist[0] += " par 2"
                cases.append(engcheck.Case(vid, inst, hist, {"inp": inp, "kind": kind + " (negation / aggregation over an empty relation)"}))
        for j in range(2 if tier == "quick" else 5):
            inp = {0: list(dict.fromkeys((r4.range(0, 6),) for _ in range(r4.range(1, 4)))), 1: [], 2: [], 3: [], 4: []}
            for vi, (vid, text, kind) in enumerate([variants[0]] + variants1):
                if vid.endswith("_run0"): inp = dict(inp); inp[0] = []
                inst = f"{vid}_e{j}"
                cases.append(engcheck.Case(vid, inst, engcheck.std_history(inst, vid, inp), {"inp": inp, "kind": kind + " (negation / aggregation over a relation nothing fills)" if kind != "base" else kind}))
        for j in range(3 if tier == "quick" else 8):
            inp = {0: list(dict.fromkeys((r4.range(0, 6),) for _ in range(r4.range(1, 4)))), 1: list(dict.fromkeys((r4.range(0, 6), r4.range(0, 4)) for _ in range(r4.range(1, 6)))), 2: [], 3: [], 4: []}
            for vid, text, kind in variants:
                inst = f"{vid}_{j}"
                cases.append(engcheck.Case(vid, inst, engcheck.std_history(inst, vid, inp), {"inp": inp, "kind": kind + " (initialisers consulted only by negation / aggregation)" if kind != "base" else kind}))
    # a relation that is a head in SEVERAL non-recursive strata whose rules derive overlapping rows, counted and summed by a later stratum, under ascent_run! / ascent_run_par!:
    # nothing can pre-fill a relation of ascent_run!, yet a later stratum may find rows that an EARLIER stratum derived (the head update must still probe total and delta)
    for i in range(2 if tier == "quick" else 6):
        r5 = rng.fork(f"ov{i}")
        p = {"rels": [{"arity": 1}, {"arity": 1}, {"arity": 1}, {"arity": 1}, {"arity": 1}],
             "rules": [{"heads": [(2, [("var", 0)])], "body": [("cl", 0, [("v", 0)], [])]},
                       {"heads": [(2, [("var", 0)])], "body": [("cl", 1, [("v", 0)], [])]},
                       {"heads": [(2, [("var", 0)])], "body": [("for", 0, ("range", 2, 5))]},
                       {"heads": [(3, [("var", 21)])], "body": [("agg", [21], "count", [], 2, ["_"])]},
                       {"heads": [(4, [("var", 21)])], "body": [("agg", [21], "sum", [20], 2, [("b", 20)])]}]}
        if i % 2: p["rules"] = [p["rules"][k] for k in (2, 1, 0, 4, 3)]
        pid = f"ov{i}"
        variants = [(pid, eng.rs_module(pid, p), "base"), (f"{pid}_run", module_run(f"{pid}_run", p, init_rels={0, 1}), "ascent_run"),
                    (f"{pid}_runpar", module_run(f"{pid}_runpar", p, par=True, init_rels={0, 1}), "ascent_run_par")]
        for vid, text, kind in variants:
            progs[vid] = p; mods.append((vid, text))
        for j in range(3 if tier == "quick" else 8):
            a = list(dict.fromkeys((r5.range(0, 6),) for _ in range(r5.range(2, 5))))
            b = list(dict.fromkeys([a[0]] + [(r5.range(0, 8),) for _ in range(r5.range(1, 4))]))
            inp = {0: a, 1: b, 2: [], 3: [], 4: []}
            for vid, text, kind in variants:
                inst = f"{vid}_{j}"
                cases.append(engcheck.Case(vid, inst, engcheck.std_history(inst, vid, inp), {"inp": inp, "kind": kind + " (a relation derived by several strata with overlapping rows)" if kind != "base" else kind}))
    # witness of finding F3 (fixed by 8b2e261; replayed on every run and must pass)
    w = {"rels": [{"arity": 2}, {"arity": 1}, {"arity": 2}],
         "rules": [{"heads": [(2, [("var", 0), ("var", 21)])], "body": [("cl", 1, [("v", 0)], []), ("agg", [21], "count", [], 0, [("k", ("var", 0)), "_"])]}]}
    winp = {0: [(1, 1), (1, 2), (2, 5)], 1: [(1,), (2,)]}
    progs["f3w_init"] = w; mods.append(("f3w_init", module_init("f3w_init", w, winp)))
    cases.append(engcheck.Case("f3w_init", "f3w_init_0", ["eng new f3w_init_0 f3w_init", "eng run f3w_init_0", "eng dump f3w_init_0"],
                               {"inp": winp, "kind": "initialised", "was": "F3", "baked": True}))
    return progs, mods, cases


def oracle(c, p, out):
    w = engcheck.check_sets(p, out[-1], engcheck.spec_sets(p, c.meta["inp"]))
    if w or not c.meta["kind"].startswith("ascent_run"): return w
    # ascent_run! / ascent_run_par! hand the relation vectors back: as after ascent! + run(), a row that the rules derive is stored ONCE (a row of an initialiser keeps the
    # multiplicity it had there) - `len()` of a result vector is part of what the packaging must not change
    _, mult = engcheck.dump_sets(out[-1])
    for r, d in enumerate(p["rels"]):
        if d.get("lat"): continue
        given = {}
        for t in c.meta["inp"].get(r, []): given[eng.sx_tuple(t)] = given.get(eng.sx_tuple(t), 0) + 1
        for t, m in mult.get(r, {}).items():
            if m != max(1, given.get(t, 0)): return f"relation r{r}: the row {t} is stored {m} times (the initialiser holds it {given.get(t, 0)} times; ascent! + run() stores a derived row once)"
    return None


def canon(c, out):
    # variants whose driver differs from the model's history (ascent_run has no scc_iters; baked inputs are not `load`ed): judged by the oracle
    if c.meta["kind"] == "initialised":
        return ["<inputs baked into the program text: judged by the oracle>" for l in out]
    if c.meta["kind"].startswith("ascent_run"):
        return ["<variant driver: judged by the oracle>" if not l.startswith("r0:") else "|".join(sorted(set(x.rsplit("*", 1)[0] for x in l.split()))) for l in out]
    return out


def known(c, p, impl, model):
    return None      # F3 (double indexing of initialisers) is fixed by 8b2e261: nothing is attributed to it any more


def check(tier, replay=None):
    return engcheck.run_property("C09", tier, modules=["AscentVerif.Props.C09"], theorems=THEOREMS, trusted=TRUSTED, group="c09",
                                 build=build, oracle=oracle, canon=canon, known=known, what="packaging variants of compiled programs",
                                 rule="base programs x variants {ascent!, ascent_run! and ascent_run_par! with inputs captured from locals, ascent_par!, "
                                      "measure_rule_times, generate_run_timeout, both, an overridden earlier re-declaration, generic struct signature, "
                                      "include_source! of an ascent_source! at first / middle / last position (also together with inner attributes), relation initialisers} x inputs, plus the history run; push; run for every variant; every variant's "
                                      "relations must equal the base's naive model; thorough tier rebuilds everything with the segment-codegen feature")
