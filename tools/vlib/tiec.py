"""Tie C plumbing: run an op file through the real code (harness `ds`) and the Lean driver,
compare line by line, consult the property-level oracle, decide."""
import os, time
from . import core


def build_ds(report):
    ok, out, bindir, wall = core.build_harness("ds")
    report.cov["harness_build_s"] = round(wall, 1)
    if not ok:
        return None, out
    return os.path.join(bindir, "verif_ds"), out


def run_both(binary, lines, model_ok=True):
    rc, impl, err = core.run_impl(binary, lines)
    model = None
    if model_ok:
        model = core.run_model(lines)
    return rc, impl, model, err


class Decision:
    """Separates the three comparisons: impl = model (correspondence), impl = spec (the
    property, decided by `oracle`), model = spec (sanity of the statement)."""

    def __init__(self, report, max_replays=3):
        self.r = report
        self.max_replays = max_replays
        self.evals = 0
        self.corr_mismatch = []     # impl != model but oracle accepts impl
        self.model_vs_spec = []     # model output rejected by the oracle
        self.failing = []           # impl rejected by the oracle (a failing input)
        self.distinct = set()

    def case(self, line, impl, model, oracle, nontrivial=True, known=None):
        """oracle(line, output) -> None if acceptable, else a string saying what is wrong.
        known(line, impl) -> finding id if this failure is a listed known finding."""
        self.evals += 1
        if nontrivial:
            self.distinct.add(line)
        why = oracle(line, impl)
        if why is not None:
            fid = known(line, impl, model) if known else None
            if fid:
                self.r.known(fid[0], fid[1])
            else:
                self.failing.append({"input": line, "impl": impl, "model": model, "why": why})
        elif model is not None and impl != model:
            self.corr_mismatch.append({"input": line, "impl": impl, "model": model})
        if model is not None:
            w2 = oracle(line, model)
            if w2 is not None and why is None:
                self.model_vs_spec.append({"input": line, "model": model, "why": w2})

    def conclude(self, proof, what):
        r = self.r
        r.cov["evaluations"] = r.cov.get("evaluations", 0) + self.evals
        r.cov["distinct_nontrivial"] = r.cov.get("distinct_nontrivial", 0) + len(self.distinct)
        r.cov["traces_validated_against_impl"] = r.cov.get("traces_validated_against_impl", 0) + self.evals
        r.cov["correspondence_mismatches"] = len(self.corr_mismatch)
        r.cov["impl_vs_spec_failures"] = len(self.failing)
        r.cov["model_vs_spec_failures"] = len(self.model_vs_spec)
        self.failing.sort(key=lambda f: len(f["input"]))
        seen, uniq = set(), []
        for f in self.failing:
            if f["input"] not in seen:
                seen.add(f["input"])
                uniq.append(f)
        self.failing = uniq
        for f in self.failing[: self.max_replays]:
            r.violation({"kind": "failing-input", "what": what, **f,
                         "replay_cmd": f"./check {r.pid} --replay <this file>"})
        if self.failing:
            return
        broken = []
        if proof is not None and not proof.ok:
            broken += ["proof: " + p for p in proof.problems]
        if self.corr_mismatch:
            broken.append(f"correspondence impl=model ({what}): {len(self.corr_mismatch)} disagreements")
        if self.model_vs_spec:
            broken.append(f"model disagrees with the property oracle on {len(self.model_vs_spec)} cases")
        if broken:
            r.violation({"kind": "obligation-broken", "no_longer_checks": broken,
                         "first_disagreements": (self.corr_mismatch + self.model_vs_spec)[:5],
                         "searched": f"{self.evals} cases against the property oracle, none failed"}, no_input=True)
