"""C15 generator: well-formed SURFACE Ascent programs (text + check-relevant summary) and one-violation mutants.

Surface AST (plain Python, printed both as Rust/Ascent text and as the s-expression summary read by the Lean model
`AscentVerif.Model.Check`; the text -> summary mapping is trusted and purely structural: both printers walk the same tree):

  prog  = {"kind": ascent|ascent_par|ascent_run|ascent_run_par|ascent_source, "attrs": [attr], "sig": None|sig, "items": [top]}
  attr  = {"name": str, "shape": "path"|"list"|"nv", "text": str}            (`#![text]` / `#[text]`)
  sig   = {"s": struct name, "i": impl name|None, "gm": generics strings equal?, "text": str}
  top   = {"t":"rel","name","cols":[type],"lat":bool,"trail":bool,"attrs":[attr]}
        | {"t":"mac","name","params":[(name,"ident"|"expr")],"head":bool,"body":[item|hitem],"trail":bool,"nattrs":int}
        | {"t":"rule","heads":[hitem],"brace":bool,"htrail":bool,"body":[item],"nattrs":int}
        | {"t":"incl","path":str,"nattrs":int}
  item  = {"t":"cl","rel","args":[arg],"conds":[binder]}
        | {"t":"b","kw":"let"|"iflet"|"for"|"if","pat":str,"seen":[var],"hid":[var],"expr":str}
        | {"t":"agg","pat":str,"seen":[var],"hid":[var],"fn":str,"bound":[var],"rel","args":[arg]}
        | {"t":"neg","rel","args":[arg]}
        | {"t":"or","alts":[[item]]}
        | {"t":"m","name","args":[arg]}
  arg   = {"t":"v","n":var} | {"t":"w"} | {"t":"e","s":text} | {"t":"p","s":pattern text,"seen":[var],"hid":[var]}
  hitem = {"t":"h","rel","args":[text]} | {"t":"m","name","args":[arg]}
`seen` are the variables `pattern_get_vars` (syn_utils.rs) reports for the pattern, `hid` the variables the pattern binds
that `pattern_get_vars` does not report (none of the generated forms since fix f47e99d added the `Pat::Paren` arm; before it:
variables under a parenthesised sub-pattern — the field stays in the summary for pattern forms no syntactic analysis can see).
Variables inside macro bodies that refer to a parameter are written `$p`.
A relation may be declared MORE THAN ONCE (`rel` items with the same name, cols, lat): legal, `dedup_all_keep_last_by` (ascent_hir.rs) drops every
declaration that has a later one of the same identity, the LAST copy is the declaration (its attributes count; those of the replaced copies are never
looked at).  Both printers emit every copy, in order; everything that looks a relation up by name takes the last copy (`rels_of`, `last_decls`), and
the declaration-level mutators plant their violation on the last copy.

Typing discipline (so that the well-formed texts compile under rustc): every column is `i32` except an optional last
`Option<i32>` column (only reached through `?Some(v)`, `_`, or `Some(e)` in heads) — a variable occurrence inside an
expression is printed `(v + 0)`, which is an `i32` whether `v` is `i32` or `&i32`."""
import copy

KINDS = ["ascent", "ascent_par", "ascent_run", "ascent_run_par"]

# ------------------------------------------------------------------ printers

def t_attr(a, inner=False): return ("#![" if inner else "#[") + a["text"] + "]"

def t_arg(a):
    k = a["t"]
    if k == "v": return a["n"]
    if k == "w": return "_"
    if k == "e": return a["s"]
    return "?" + a["s"]

def t_binder(b):
    kw = b["kw"]
    if kw == "raw": return b["text"]
    if kw == "if": return "if " + b["expr"]
    if kw == "let": return f"let {b['pat']} = {b['expr']}"
    if kw == "iflet": return f"if let {b['pat']} = {b['expr']}"
    return f"for {b['pat']} in {b['expr']}"

def t_item(it):
    k = it["t"]
    if k == "cl":
        return f"{it['rel']}({', '.join(t_arg(a) for a in it['args'])})" + "".join(" " + t_binder(c) for c in it["conds"])
    if k == "b": return t_binder(it)
    if k == "agg":
        return f"agg {it['pat']} = {it['fn']}({', '.join(it['bound'])}) in {it['rel']}({', '.join(t_arg(a) for a in it['args'])})"
    if k == "neg": return f"!{it['rel']}({', '.join(t_arg(a) for a in it['args'])})"
    if k == "or": return "(" + " | ".join(", ".join(t_item(x) for x in alt) for alt in it["alts"]) + ")"
    if k == "m": return f"{it['name']}!({', '.join(t_arg(a) for a in it['args'])})"
    if k == "h": return f"{it['rel']}({', '.join(it['args'])})"
    raise ValueError(it)

def t_top(it):
    k = it["t"]
    if k == "rel":
        pre = "".join(t_attr(a) + " " for a in it["attrs"])
        return f"{pre}{'lattice' if it['lat'] else 'relation'} {it['name']}({', '.join(it['cols'])}{',' if it['trail'] else ''});"
    pre = "#[doc = \"x\"] " * it.get("nattrs", 0)
    if k == "mac":
        ps = ", ".join(f"${n}: {kd}" for n, kd in it["params"])
        return f"{pre}macro {it['name']}({ps}) {{ {', '.join(t_item(x) for x in it['body'])}{',' if it['trail'] else ''} }}"
    if k == "incl": return f"{pre}include_source!({it['path']});"
    hs = ", ".join(t_item(h) for h in it["heads"]) + ("," if it["htrail"] else "")
    if it["brace"]: hs = "{ " + hs + " }"
    if not it["body"]: return f"{pre}{hs};"
    return f"{pre}{hs} <-- {', '.join(t_item(x) for x in it['body'])};"

def text(p, name="src0"):
    parts = [t_attr(a, inner=True) for a in p["attrs"]]
    if p["sig"]: parts.append(p["sig"]["text"])
    parts += [t_top(it) for it in p["items"]]
    body = " ".join(parts)
    return f"{name}: {body}" if p["kind"] == "ascent_source" else body

def sx_vars(vs): return "(" + " ".join(vs) + ")"

def sx_arg(a):
    k = a["t"]
    if k == "v": return a["n"]
    if k in ("w", "e"): return "_"
    return f"(p {sx_vars(a['seen'])} {sx_vars(a['hid'])})"

def sx_binder(b): return f"(b {sx_vars(b['seen'])} {sx_vars(b['hid'])})"

def sx_item(it):
    k = it["t"]
    if k == "cl": return f"(cl {it['rel']} ({' '.join(sx_arg(a) for a in it['args'])}) ({' '.join(sx_binder(c) for c in it['conds'])}))"
    if k == "b": return sx_binder(it)
    if k == "agg": return f"(agg {it['rel']} ({' '.join(sx_arg(a) for a in it['args'])}) {sx_vars(it['seen'])} {sx_vars(it['hid'])} {sx_vars(it['bound'])})"
    if k == "neg": return f"(neg {it['rel']} {len(it['args'])})"
    if k == "or": return "(or " + " ".join("(" + " ".join(sx_item(x) for x in alt) + ")" for alt in it["alts"]) + ")"
    if k == "m": return f"(m {it['name']} ({' '.join(sx_arg(a) for a in it['args'])}))"
    if k == "h": return f"(h {it['rel']} {len(it['args'])})"
    raise ValueError(it)

def sx_attr(a): return f"(a {a['name']} {a['shape']})"

def sx_top(it):
    k = it["t"]
    if k == "rel":
        return f"(rel {it['name']} {len(it['cols'])} {int(it['lat'])} {int(it['trail'])} ({' '.join(sx_attr(a) for a in it['attrs'])}))"
    n = it.get("nattrs", 0)
    if k == "mac":
        ps = " ".join("$" + nm for nm, _ in it["params"])
        return f"({'hmac' if it['head'] else 'mac'} {it['name']} {n} ({ps}) {int(it['trail'])} ({' '.join(sx_item(x) for x in it['body'])}))"
    if k == "incl": return f"(incl {n})"
    return f"(rule {n} {int(it['brace'])} {int(it['htrail'])} ({' '.join(sx_item(h) for h in it['heads'])}) ({' '.join(sx_item(x) for x in it['body'])}))"

def summary(p):
    sig = "nosig" if not p["sig"] else f"(sig {p['sig']['s']} {p['sig']['i'] or '-'} {int(p['sig']['gm'])})"
    return f"(prog {p['kind']} ({' '.join(sx_attr(a) for a in p['attrs'])}) {sig} ({' '.join(sx_top(it) for it in p['items'])}))"

# ------------------------------------------------------------------ small constructors

def V(n): return {"t": "v", "n": n}
def W(): return {"t": "w"}
def E(s): return {"t": "e", "s": s}
def PAT(s, seen, hid=()): return {"t": "p", "s": s, "seen": list(seen), "hid": list(hid)}
def use(v): return f"({v} + 0)"
def B(kw, pat, seen, expr, hid=()): return {"t": "b", "kw": kw, "pat": pat, "seen": list(seen), "hid": list(hid), "expr": expr}
def IF(expr): return B("if", "", [], expr)
def CL(rel, args, conds=()): return {"t": "cl", "rel": rel, "args": list(args), "conds": list(conds)}
def NEG(rel, args): return {"t": "neg", "rel": rel, "args": list(args)}
def AGG(pat, seen, fn, bound, rel, args, hid=()):
    return {"t": "agg", "pat": pat, "seen": list(seen), "hid": list(hid), "fn": fn, "bound": list(bound), "rel": rel, "args": list(args)}
def OR(alts): return {"t": "or", "alts": [list(a) for a in alts]}
def M(name, args): return {"t": "m", "name": name, "args": list(args)}
def H(rel, args): return {"t": "h", "rel": rel, "args": list(args)}
def ATTR(name, shape="path", txt=None): return {"name": name, "shape": shape, "text": txt or name}
def REL(name, cols, lat=False, attrs=(), trail=False): return {"t": "rel", "name": name, "cols": list(cols), "lat": lat, "trail": trail, "attrs": list(attrs)}
def MAC(name, params, body, head=False, trail=False): return {"t": "mac", "name": name, "params": list(params), "head": head, "body": list(body), "trail": trail, "nattrs": 0}
def RULE(heads, body, brace=False, htrail=False): return {"t": "rule", "heads": list(heads), "brace": brace, "htrail": htrail, "body": list(body), "nattrs": 0}
def PROG(kind, items, attrs=(), sig=None): return {"kind": kind, "attrs": list(attrs), "sig": sig, "items": list(items)}

# ------------------------------------------------------------------ program facts used by generator and mutators

def rels_of(p): return {it["name"]: it for it in p["items"] if it["t"] == "rel"}      # last declaration wins, as in prog_get_relation
def last_decls(p):
    """relation name -> index in p["items"] of its LAST declaration: the one `prog_get_relation` finds and (all copies of a well-formed program being
    identical) the one that survives `dedup_all_keep_last_by` - the effective declaration"""
    return {it["name"]: i for i, it in enumerate(p["items"]) if it["t"] == "rel"}
def replaced_decls(p):
    """indices of the declarations that have a later declaration of the same identity (name, columns, lattice or not): dropped by the dedup"""
    out = []
    for i, it in enumerate(p["items"]):
        if it["t"] == "rel" and any(x["t"] == "rel" and (x["name"], x["cols"], x["lat"]) == (it["name"], it["cols"], it["lat"]) for x in p["items"][i + 1:]):
            out.append(i)
    return out
def macs_of(p): return {it["name"]: it for it in p["items"] if it["t"] == "mac"}
def rules_of(p): return [(i, it) for i, it in enumerate(p["items"]) if it["t"] == "rule"]

def invocations(items):
    """macro invocations anywhere inside a list of body / head items"""
    for it in items:
        if it["t"] == "m": yield it
        elif it["t"] == "or":
            for alt in it["alts"]: yield from invocations(alt)

def invoked_macros(p):
    macs, seen, todo = macs_of(p), set(), []
    for _, r in rules_of(p):
        todo += [m["name"] for m in invocations(r["body"])] + [m["name"] for m in invocations(r["heads"])]
    while todo:
        n = todo.pop()
        if n in seen or n not in macs: continue
        seen.add(n)
        todo += [m["name"] for m in invocations(macs[n]["body"])]
    return seen

def callers(p):
    """macro name -> indices of the rules whose expansion reaches it"""
    macs, out = macs_of(p), {}
    for i, r in rules_of(p):
        seen, todo = set(), [m["name"] for m in invocations(r["body"])] + [m["name"] for m in invocations(r["heads"])]
        while todo:
            n = todo.pop()
            if n in seen or n not in macs: continue
            seen.add(n); out.setdefault(n, set()).add(i)
            todo += [m["name"] for m in invocations(macs[n]["body"])]
    return out

def mac_locals(mac):
    """names written literally in binding positions of a macro body (not parameters)"""
    out = set()
    def walk(items):
        for it in items:
            for v in item_binds(it, None, deep=False):
                if not v.startswith("$"): out.add(v)
            if it["t"] == "or":
                for alt in it["alts"]: walk(alt)
    walk([x for x in mac["body"] if x["t"] != "h"])
    return out

def transparent(p, name, _seen=None):
    """no renaming happens for this macro under the in-process driver (where every span compares equal): the macro and every
    macro it invokes bind nothing but their parameters"""
    macs = macs_of(p)
    _seen = _seen or set()
    if name in _seen or name not in macs: return True
    _seen.add(name)
    m = macs[name]
    if mac_locals(m): return False
    return all(transparent(p, x["name"], _seen) for x in invocations(m["body"]))

def item_binds(it, p, deep=True, inproc=False):
    """variables an item grounds for the items after it (in some expansion)"""
    k = it["t"]
    if k == "cl":
        out = []
        for a in it["args"]:
            if a["t"] == "v": out.append(a["n"])
            elif a["t"] == "p": out += a["seen"] + a["hid"]
        for c in it["conds"]: out += c["seen"] + c["hid"]
        return out
    if k in ("b", "agg"): return it["seen"] + it["hid"]
    if k == "or" and deep: return [v for alt in it["alts"] for x in alt for v in item_binds(x, p, deep, inproc)]
    if k == "m" and deep:
        if inproc and p is not None and not transparent(p, it["name"]): return []
        return [a["n"] for a in it["args"] if a["t"] == "v"]
    return []

def get(p, path):
    x = p
    for k in path: x = x[k]
    return x

def containers(p, heads=False):
    """every list of body items: (path, ctx). ctx: top = rule|macro, idx = index in items, disj = nesting depth"""
    out = []
    def walk(path, items, ctx):
        out.append((path, ctx))
        for k, x in enumerate(items):
            if x["t"] == "or":
                for a, alt in enumerate(x["alts"]):
                    walk(path + (k, "alts", a), alt, dict(ctx, disj=ctx["disj"] + 1))
    for i, it in enumerate(p["items"]):
        if it["t"] == "rule": walk(("items", i, "body"), it["body"], {"top": "rule", "idx": i, "disj": 0})
        elif it["t"] == "mac" and not it["head"]: walk(("items", i, "body"), it["body"], {"top": "macro", "idx": i, "disj": 0, "name": it["name"]})
    return out

def grounded_before(p, path, k, inproc=False):
    """variables grounded when control reaches position k of the container at `path` (in some expansion); for a macro body the
    variables of the call sites are not included"""
    out, cur = [], p
    base = path[:3]
    items = get(p, base)
    rest = list(path[3:]) + [k]
    while True:
        idx = rest[0]
        for x in items[:idx]: out += item_binds(x, p, True, inproc)
        if len(rest) == 1: break
        items = items[idx]["alts"][rest[2]]
        rest = rest[3:]
    return out

def expr_terminated(it):
    """the item's text ends with a Rust expression: inside a disjunct that is not the last one, the following `|` would be parsed
    as a binary operator of that expression (a property of the surface syntax, not a defect)"""
    return it["t"] == "b" or (it["t"] == "cl" and bool(it["conds"]))


def syntax_ok(p):
    ok = [True]
    def walk(items):
        for x in items:
            if x["t"] == "or":
                for a, alt in enumerate(x["alts"]):
                    if a < len(x["alts"]) - 1 and alt and expr_terminated(alt[-1]): ok[0] = False
                    walk(alt)
    for it in p["items"]:
        if it["t"] == "rule" or (it["t"] == "mac" and not it["head"]): walk(it["body"])
    return ok[0]


def poskind(ctx):
    return ("macro-body" if ctx["top"] == "macro" else "rule-body") + ("/disjunct" if ctx["disj"] else "")

# ------------------------------------------------------------------ generator of well-formed programs

class Gen:
    def __init__(self, rng, kind, feats=None):
        self.rng, self.kind = rng, kind
        self.nv = 0
        self.feats = feats or {}
        # a quarter of the programs spell their variables with a capital first letter (`X1`): a variable is a variable whatever its spelling
        # (a check that guesses "constant / enum variant" from the spelling would exempt them)
        self.cap = rng.fork("cap").chance(1, 4)

    def fresh(self, pre="x"):
        self.nv += 1
        return f"{'X' if self.cap and pre == 'x' else pre}{self.nv}"

    def int_expr(self, bound):
        r = self.rng
        if bound and r.chance(3, 4):
            v = r.choice(bound)
            return r.choice([use(v), f"({use(v)} + {r.range(0, 3)}) % 7", f"({use(v)} * 2) % 7"])      # a finite domain: every program terminates
        return str(r.range(0, 5))

    def clause(self, rel, decl, bound, newvars, allow_pat=True, join_p=40):
        """a body clause over `rel`; appends the variables it grounds to `newvars`"""
        r = self.rng
        args = []
        cols = decl["cols"]
        for j, ty in enumerate(cols):
            last_lat = decl["lat"] and j == len(cols) - 1
            if ty != "i32":
                if allow_pat and r.chance(1, 2):
                    v = self.fresh(); args.append(PAT(f"Some({v})", [v])); newvars.append(v)
                else: args.append(W())
                continue
            if last_lat:
                args.append(W() if r.chance(1, 2) else V(self.fresh("w")))      # a fresh, never used variable
                continue
            x = r.below(100)
            if bound and x < join_p: args.append(V(r.choice(bound)))
            elif x < 80 or not bound:
                v = self.fresh(); args.append(V(v)); newvars.append(v)
            elif x < 88: args.append(W())
            elif x < 94: args.append(E(str(r.range(0, 3))))
            else: args.append(E(f"({use(r.choice(bound))} + 1) % 7"))
        return CL(rel, args)

    def free_binder(self, bound, newvars):
        r = self.rng
        k = r.below(4)
        v = self.fresh()
        if k == 0: it = B("let", v, [v], self.int_expr(bound))
        elif k == 1: it = B("iflet", f"Some({v})", [v], f"Some({self.int_expr(bound)})")
        elif k == 2: it = B("for", v, [v], r.choice(["0..3", "[1, 2]", f"0..{r.range(1, 3)}"]))
        else:
            v2 = self.fresh()
            it = B("let", f"({v}, {v2})", [v, v2], f"({self.int_expr(bound)}, {r.range(0, 3)})"); newvars.append(v2)
        newvars.append(v)
        return it

    def agg_item(self, rel, decl, bound, newvars):
        """aggregation / negation over a relation of a lower stratum"""
        r = self.rng
        cols = decl["cols"]
        icols = [j for j, ty in enumerate(cols) if ty == "i32" and not (decl["lat"] and j == len(cols) - 1)]
        if r.chance(1, 3):
            args = [(V(r.choice(bound)) if (bound and j in icols and r.chance(2, 3)) else (E(str(r.range(0, 2))) if j in icols and r.chance(1, 3) else W())) for j in range(len(cols))]
            return NEG(rel, args)
        fn = r.choice(["count", "min", "max", "sum"]) if icols else "count"
        args, bnd = [], []
        tgt = r.choice(icols) if icols and fn != "count" else None
        for j in range(len(cols)):
            if j == tgt:
                b = self.fresh("g"); args.append(V(b)); bnd.append(b)
            elif j in icols and bound and r.chance(1, 2): args.append(V(r.choice(bound)))
            else: args.append(W())
        out = self.fresh("c" if fn == "count" else "x")
        newvars.append(out)
        self.usize = getattr(self, "usize", set())
        if fn == "count": self.usize.add(out)
        return AGG(out, [out], fn, bnd, rel, args)

    def cond_for(self, bound):
        r = self.rng
        if not bound or r.chance(1, 2): return None
        v = r.choice(bound)
        k = r.below(3)
        if k == 0: return IF(f"{use(v)} {r.choice(['<', '<=', '!='])} {r.range(1, 6)}")
        w = self.fresh()
        if k == 1: return B("let", w, [w], f"({use(v)} + 1) % 7")
        return B("iflet", f"Some({w})", [w], f"Some({use(v)})")


def usable(bound, usize):
    return [v for v in bound if v not in usize]


DS = lambda: ATTR("ds", "list", "ds(ascent::rel)")


def redeclare(p, rng, n):
    """re-declare `n` relations of a well-formed program: an exact copy (name, columns, lattice or not) of the declaration is inserted at a random
    EARLIER position of the item list, so the original stays the last = effective declaration.  The copy may differ in what is not part of the
    identity, in ways that are well-formed whichever copy counts: the trailing comma, and its attributes (the same / none / a `doc` / for a relation
    a `ds(..)` provider)."""
    r = rng
    for _ in range(n):
        i = r.choice(sorted(last_decls(p).values()))
        c = copy.deepcopy(p["items"][i])
        x = r.below(5)
        if x == 0: c["attrs"] = []
        elif x == 1: c["attrs"] = [ATTR("doc", "nv", 'doc = "an earlier declaration"')]
        elif x == 2 and not c["lat"]: c["attrs"] = [DS()]
        elif x == 3 and not c["lat"]: c["attrs"] = [a for a in c["attrs"] if a["name"] != "ds"]
        if not c["lat"]: c["trail"] = r.chance(1, 4)
        p["items"].insert(r.below(i + 1), c)
    return p


def gen_program(rng, kind, feats=None):
    """a well-formed program; feats: macros, disj, agg, pats, ds, attrs, multihead, sig (all default on, chosen by quota); redecl: how many relations are
    declared twice (None: one, with chance 1/8; the quota of c15.build_streams forces 1 or 2 on a fixed subset of the programs)"""
    f = dict(macros=True, disj=True, agg=True, pats=True, ds=True, attrs=True, multihead=True, sig=True, shuffle=True, redecl=None)
    f.update(feats or {})
    g = Gen(rng, kind, f)
    g.usize = set()
    r = rng
    par = kind in ("ascent_par", "ascent_run_par")
    # ---- relations in strata
    nlev = r.range(2, 3)
    rels = []
    n = r.range(3, 6)
    for i in range(n):
        lev = 0 if i == 0 else (nlev - 1 if i == n - 1 else r.below(nlev))
        ar = r.range(1, 3)
        cols = ["i32"] * ar
        lat = False
        x = r.below(10)
        if x == 0 and ar >= 2: lat = True
        elif x == 1 and f["pats"]: cols[-1] = "Option<i32>"
        attrs = []
        if f["ds"] and not lat and r.chance(1, 4): attrs.append(ATTR("ds", "list", "ds(ascent::rel)"))
        if r.chance(1, 10): attrs.append(ATTR("doc", "nv", 'doc = "a relation"'))
        d = REL(f"r{i}", cols, lat, attrs, trail=(not lat and r.chance(1, 8)))
        d["lev"] = lev
        rels.append(d)
    by_lev = lambda pred: [d for d in rels if pred(d["lev"])]
    # ---- macros
    macs = []
    if f["macros"]:
        for mi in range(r.range(0, 3)):
            lev = r.choice(sorted({d["lev"] for d in rels}))
            pos = by_lev(lambda l: l <= lev)
            head = r.chance(1, 4)
            nid = r.range(1, 2)
            params = [(f"p{j}", "ident") for j in range(nid)]
            if r.chance(1, 3): params.append(("e0", "expr"))
            pv = ["$" + nm for nm, kd in params if kd == "ident"]
            if head:
                hl = by_lev(lambda l: l == lev)
                body = []
                for _ in range(r.range(1, 2)):
                    d = r.choice(hl)
                    body.append(H(d["name"], head_args(g, d, pv + ([] if len(params) == nid else ["$e0"]))))
                m = MAC(f"h{mi}", params, body, head=True, trail=r.chance(1, 4))
                m["lev"] = lev; m["modes"] = ["use"] * nid
                macs.append(m); continue
            body, newv, bound = [], [], []
            # first clause grounds every ident parameter
            d0 = r.choice(pos)
            icols = [j for j, ty in enumerate(d0["cols"]) if ty == "i32" and not (d0["lat"] and j == len(d0["cols"]) - 1)]
            tries = 0
            while len(icols) < nid and tries < 20:
                d0 = r.choice(pos); tries += 1
                icols = [j for j, ty in enumerate(d0["cols"]) if ty == "i32" and not (d0["lat"] and j == len(d0["cols"]) - 1)]
            if len(icols) < nid:
                nid = len(icols) if icols else 0
                params = params[:nid] + params[len(pv):]
                pv = pv[:nid]
                if nid == 0: continue
            args = []
            slots = r.shuffle(icols)[:nid]
            for j, ty in enumerate(d0["cols"]):
                if j in slots: args.append(V(pv[slots.index(j)]))
                elif ty == "i32" and not (d0["lat"] and j == len(d0["cols"]) - 1) and r.chance(1, 2):
                    l = g.fresh("l"); args.append(V(l)); newv.append(l)
                else: args.append(W())
            body.append(CL(d0["name"], args))
            bound = pv + newv
            modes = ["join"] * nid
            for _ in range(r.range(0, 2)):
                x = r.below(6)
                nv2 = []
                ub = usable(bound, g.usize)
                lowm = [m2 for m2 in macs if not m2["head"] and m2["lev"] <= lev]
                if x <= 1:
                    d = r.choice(pos); body.append(g.clause(d["name"], d, ub, nv2))
                elif x == 2: body.append(g.free_binder(ub, nv2))
                elif x == 3 and len(params) > nid:
                    l = g.fresh("l"); body.append(B("let", l, [l], "(($e0) + 0) % 7")); nv2.append(l)
                elif x == 4 and f["agg"] and by_lev(lambda l: l < lev):
                    d = r.choice(by_lev(lambda l: l < lev)); body.append(g.agg_item(d["name"], d, ub, nv2))
                elif x == 5 and lowm: body.append(invoke(g, r.choice(lowm), ub, nv2))
                else: body.append(IF(f"{use(r.choice(ub))} < 9"))
                bound = bound + nv2
            m = MAC(f"m{mi}", params, body, head=False, trail=r.chance(1, 5))
            m["lev"] = lev; m["modes"] = modes
            macs.append(m)
    # ---- rules
    rules = []
    nrules = r.range(2, 5)
    for ri in range(nrules):
        lev = r.below(nlev) if ri else nlev - 1
        hl = by_lev(lambda l: l == lev)
        if not hl: lev = 0; hl = by_lev(lambda l: l == 0)
        pos = by_lev(lambda l: l <= lev)
        low = by_lev(lambda l: l < lev)
        bound, body = [], []
        nitems = r.range(1, 4)
        for bi in range(nitems):
            nv2 = []
            ub = usable(bound, g.usize)
            x = r.below(100)
            if bi == 0 or x < 40:
                d = r.choice(pos)
                cl = g.clause(d["name"], d, ub, nv2, allow_pat=f["pats"])
                c = g.cond_for(ub + nv2)
                if c is not None:
                    cl["conds"].append(c); nv2 += c["seen"]
                body.append(cl)
            elif x < 52: body.append(g.free_binder(ub, nv2))
            elif x < 60 and ub: body.append(IF(f"{use(r.choice(ub))} != 7"))
            elif x < 72 and f["agg"] and low:
                d = r.choice(low); body.append(g.agg_item(d["name"], d, ub, nv2))
            elif x < 86 and f["disj"]:
                y = g.fresh("y")
                alts = []
                for _ in range(r.range(2, 3)):
                    alt, inner = [], []
                    d = r.choice(pos)
                    icols = [j for j, ty in enumerate(d["cols"]) if ty == "i32" and not (d["lat"] and j == len(d["cols"]) - 1)]
                    if icols and r.chance(3, 4):
                        cl = g.clause(d["name"], d, ub, inner, allow_pat=False)
                        cl["args"][r.choice(icols)] = V(y)
                        alt.append(cl)
                    else: alt.append(B("let", y, [y], g.int_expr(ub)))
                    if r.chance(1, 4) and f["macros"] and [m for m in macs if not m["head"] and m["lev"] <= lev]:
                        alt.append(invoke(g, r.choice([m for m in macs if not m["head"] and m["lev"] <= lev]), ub + [y], inner))
                    elif r.chance(1, 4): alt.append(IF(f"{use(y)} < 8"))
                    elif r.chance(1, 6) and f["disj"]:
                        dw = r.choice(pos)
                        alt.append(OR([[IF(f"{use(y)} < 5"), CL(dw["name"], [W()] * len(dw["cols"]))], [IF(f"{use(y)} > 6")]]))
                    alts.append(alt)
                for alt in alts[:-1]:
                    if expr_terminated(alt[-1]):
                        dw = r.choice(pos); alt.append(CL(dw["name"], [W()] * len(dw["cols"])))
                body.append(OR(alts)); nv2.append(y)
            elif f["macros"] and [m for m in macs if not m["head"] and m["lev"] <= lev]:
                body.append(invoke(g, r.choice([m for m in macs if not m["head"] and m["lev"] <= lev]), ub, nv2))
            else:
                d = r.choice(pos); body.append(g.clause(d["name"], d, ub, nv2, allow_pat=f["pats"]))
            bound += nv2
        ub = usable(bound, g.usize)
        heads = []
        nh = 2 if (f["multihead"] and r.chance(1, 4)) else 1
        for _ in range(nh):
            hm = [m for m in macs if m["head"] and m["lev"] == lev]
            if hm and ub and r.chance(1, 2):
                m = r.choice(hm)
                args = [V(r.choice(ub)) for nm, kd in m["params"] if kd == "ident"] + [E(g.int_expr(ub)) for nm, kd in m["params"] if kd == "expr"]
                heads.append(M(m["name"], args))
            else:
                d = r.choice(hl)
                heads.append(H(d["name"], head_args(g, d, bound)))
        brace = r.chance(1, 6)
        rules.append(RULE(heads, body, brace=brace, htrail=brace and r.chance(1, 2)))
    if r.chance(1, 5):
        d = r.choice(by_lev(lambda l: l == 0))
        rules.append(RULE([H(d["name"], head_args(g, d, []))], []))           # a fact
    # ---- program level
    attrs = []
    if f["attrs"]:
        if r.chance(1, 4): attrs.append(ATTR("measure_rule_times"))
        if r.chance(1, 5) and kind in ("ascent", "ascent_par"): attrs.append(ATTR("generate_run_timeout"))
        if par and r.chance(1, 3): attrs.append(ATTR("inter_rule_parallelism"))
        if r.chance(1, 8): attrs.append(ATTR("ds", "list", "ds(ascent::rel)"))
    sig = None
    if f["sig"] and r.chance(1, 3):
        x = r.below(3)
        if x == 0: sig = {"s": "Prg", "i": None, "gm": True, "text": "pub struct Prg;"}
        elif x == 1: sig = {"s": "Prg", "i": "Prg", "gm": True, "text": "struct Prg; impl Prg;"}
        else: sig = {"s": "Prg", "i": "Prg", "gm": True, "text": "pub struct Prg; impl Prg;"}
    items = rels + macs + rules
    if f["shuffle"] and r.chance(1, 2): items = r.shuffle(items)
    for it in items:
        it.pop("lev", None); it.pop("modes", None)
    p = PROG(kind, items, attrs, sig)
    p["usize"] = sorted(g.usize)
    rr = rng.fork("redecl")            # (a fork: the programs without re-declarations are the ones generated before the feature existed)
    nre = f["redecl"] if f["redecl"] is not None else (1 if rr.chance(1, 8) else 0)
    if nre: redeclare(p, rr, nre)
    return p


def head_args(g, d, bound):
    r = g.rng
    ub = usable([b for b in bound], getattr(g, "usize", set()))
    out = []
    for j, ty in enumerate(d["cols"]):
        if ty != "i32":
            out.append(f"Some({g.int_expr(ub)})" if r.chance(2, 3) else "None")
        elif ub and r.chance(1, 2): out.append(r.choice(ub))
        else: out.append(g.int_expr(ub))
    return out


def invoke(g, mac, bound, newvars):
    """an invocation of a body macro: identifier parameters receive bound variables (join) or fresh ones (then grounded by the macro)"""
    r = g.rng
    args = []
    for nm, kd in mac["params"]:
        if kd == "ident":
            if bound and r.chance(1, 2): args.append(V(r.choice(bound)))
            else:
                v = g.fresh(); args.append(V(v)); newvars.append(v)
        else: args.append(E(g.int_expr(bound) if r.chance(3, 4) else "4"))
    return M(mac["name"], args)

# ------------------------------------------------------------------ mutators: exactly one violation, at every position

def mutant(p, cls, variant, pos, expect="err", **kw):
    d = {"prog": p, "class": cls, "variant": variant, "pos": pos, "expect": expect, "faithful": True, "alone": False}
    d.update(kw)
    return d


def occurrences(p, only_invoked=True):
    """every relation occurrence: (path to the item, key, ctx) for body clauses / agg / neg and head clauses, in rules and macro bodies"""
    inv = invoked_macros(p)
    out = []
    def walk(path, items, ctx):
        for k, x in enumerate(items):
            t = x["t"]
            if t in ("cl", "agg", "neg"): out.append((path + (k,), dict(ctx, what={"cl": "clause", "agg": "agg", "neg": "negation"}[t])))
            elif t == "h": out.append((path + (k,), dict(ctx, what="head")))
            elif t == "or":
                for a, alt in enumerate(x["alts"]): walk(path + (k, "alts", a), alt, dict(ctx, disj=ctx["disj"] + 1))
    for i, it in enumerate(p["items"]):
        if it["t"] == "rule":
            walk(("items", i, "body"), it["body"], {"top": "rule", "idx": i, "disj": 0})
            walk(("items", i, "heads"), it["heads"], {"top": "rule", "idx": i, "disj": 0})
        elif it["t"] == "mac" and (it["name"] in inv or not only_invoked):
            walk(("items", i, "body"), it["body"], {"top": "macro", "idx": i, "disj": 0, "name": it["name"]})
    return out


def occ_pos(ctx):
    base = "macro" if ctx["top"] == "macro" else "rule"
    return f"{base}/{ctx['what']}" + ("/disjunct" if ctx["disj"] else "")


def mut_undeclared(p):
    for path, ctx in occurrences(p):
        q = copy.deepcopy(p)
        get(q, path)["rel"] = "undeclared9"
        yield mutant(q, "undeclared", "use", occ_pos(ctx))
    used = {get(p, path)["rel"] for path, _ in occurrences(p)}
    for nm in last_decls(p):
        if nm in used:
            # EVERY declaration of the relation goes (removing one copy of a re-declared relation leaves a well-formed program)
            q = copy.deepcopy(p); q["items"] = [it for it in q["items"] if not (it["t"] == "rel" and it["name"] == nm)]
            yield mutant(q, "undeclared", "declaration-removed", "declaration")


def mut_arity(p):
    for path, ctx in occurrences(p):
        for how in ("extra", "missing"):
            q = copy.deepcopy(p)
            x = get(q, path)
            if how == "extra":
                x["args"].append("0" if x["t"] == "h" else E("0"))
            else:
                if not x["args"]: continue
                a = x["args"].pop()
                if x["t"] == "agg" and a["t"] == "v" and a["n"] in x["bound"]: x["bound"].remove(a["n"])
            yield mutant(q, "arity", how, occ_pos(ctx))
    used = {get(p, path)["rel"] for path, _ in occurrences(p)}
    for i in sorted(last_decls(p).values()):          # the LAST declaration of the name is the one the rules are resolved against
        it = p["items"][i]
        if it["name"] in used and not it["lat"]:
            q = copy.deepcopy(p); q["items"][i]["cols"].append("i32")
            yield mutant(q, "arity", "declaration-widened", "declaration")


def rule_deps(p):
    """rule index -> set of rule indices it depends on (through the relations in its expanded body)"""
    macs = macs_of(p)
    def rels_in(items, seen):
        out = set()
        for x in items:
            if x["t"] in ("cl", "agg", "neg", "h"): out.add(x["rel"])
            elif x["t"] == "or":
                for alt in x["alts"]: out |= rels_in(alt, seen)
            elif x["t"] == "m" and x["name"] in macs and x["name"] not in seen:
                out |= rels_in(macs[x["name"]]["body"], seen | {x["name"]})
        return out
    rl = rules_of(p)
    heads = {i: rels_in(r["heads"], set()) for i, r in rl}
    body = {i: rels_in(r["body"], set()) for i, r in rl}
    return heads, body


def mut_strat(p, rng):
    """aggregate / negate a relation inside its own recursive stratum: directly (a head of the same rule) or through another rule"""
    heads, body = rule_deps(p)
    rels = rels_of(p)
    call = callers(p)
    def reach(i):            # rules reachable from rule i along head -> body edges
        seen, todo = set(), [i]
        while todo:
            a = todo.pop()
            for b in body:
                if b not in seen and heads[a] & body[b]:
                    seen.add(b); todo.append(b)
        return seen
    for path, ctx in containers(p):
        if ctx["top"] == "rule": targets = [ctx["idx"]]
        else:
            if ctx["name"] not in invoked_macros(p): continue
            targets = sorted(call.get(ctx["name"], ()))[:1]
        for i in targets:
            cands = [("direct", h) for h in sorted(heads[i]) if h in rels]
            for j in sorted(reach(i)):
                if j != i: cands += [("mutual", h) for h in sorted(heads[j]) if h in rels and h not in heads[i]]
            seen_v = set()
            for variant, h in cands:
                if variant in seen_v: continue
                seen_v.add(variant)
                items = get(p, path)
                for k in sorted({0, len(items)}):
                    for form in ("neg", "agg"):
                        q = copy.deepcopy(p)
                        n = len(rels[h]["cols"])
                        new = NEG(h, [W()] * n) if form == "neg" else AGG("zc9", ["zc9"], "count", [], h, [W()] * n)
                        get(q, path).insert(k, new)
                        yield mutant(q, "stratification", f"{variant}-{form}", poskind(ctx))


BINDERS = ["let", "iflet", "for", "aggpat", "patarg", "clausecond"]
EXTRA = "zr9"

def with_extra(q):
    """declare the relation the planted aggregations / clauses range over (never a head: any use of it is stratified)"""
    if not any(it["t"] == "rel" and it["name"] == EXTRA for it in q["items"]):
        q["items"].insert(0, REL(EXTRA, ["i32", "Option<i32>"]))
    return q

def extra_shift(p):
    """by how much `with_extra` moves the items of `p` (0 when the relation is declared already: the program is itself a mutant)"""
    return 0 if any(it["t"] == "rel" and it["name"] == EXTRA for it in p["items"]) else 1

WRAPS = {
    # pattern kinds `pattern_get_vars` / `pattern_visit_vars_mut` must look into: (pattern, value, values of a `for`)
    "paren": (lambda v: f"({v})", "7", "0..2"),
    "slice": (lambda v: f"[{v}, _]", "[7, 8]", "[[0, 1], [1, 2]]"),
    "tuple": (lambda v: f"({v}, _)", "(7, 8)", "[(0, 1), (1, 2)]"),
    "ref": (lambda v: f"&{v}", "&7", "[0, 1].iter()"),
    "at": (lambda v: f"{v} @ _", "7", "0..2"),
}


def rebinder(form, v, paren=False):
    """a binder of `v`; `paren`: False | True (= "paren") | one of WRAPS — the variable sits under that kind of sub-pattern"""
    wrap = "paren" if paren is True else paren
    seen, hid = [v], []      # `pattern_get_vars` descends into every sub-pattern kind (Pat::Paren since fix f47e99d, finding FM1)
    if not wrap:
        pv, val, vals = v, "7", "0..2"
    else:
        mk, val, vals = WRAPS[wrap]
        pv = mk(v)
    if form == "let": return B("let", pv, seen, val, hid)
    if form == "iflet": return B("iflet", f"Some({pv})" if wrap != "typed" else f"Some(({v}, _))", seen, f"Some({val})", hid)
    if form == "for": return B("for", pv if wrap != "typed" else f"({v}, _)", seen, vals or "[(0, 1), (1, 2)]", hid)
    if form == "clausecond": return CL(EXTRA, [W(), W()], [B("iflet", f"Some({pv})" if wrap != "typed" else f"Some(({v}, _))", seen, f"Some({val})", hid)])
    if wrap not in (False, None, "paren", "at"): return None      # the aggregation result and a column of the relation are plain i32 values
    if form == "aggpat": return AGG(pv, seen, "min", ["zg9"], EXTRA, [V("zg9"), W()], hid)
    return CL(EXTRA, [W(), PAT(f"Some({pv})", seen, hid)])


def mut_rebind(p, paren=False):
    """a binder for a variable that is already grounded at that position (every body position of every rule / disjunct / invoked macro)"""
    rels = rels_of(p)
    inv = invoked_macros(p)
    usz = set(p.get("usize", ()))
    for path, ctx in containers(p):
        if ctx["top"] == "macro" and ctx["name"] not in inv: continue
        items = get(p, path)
        for k in range(1, len(items) + 1):
            g_all = [v for v in grounded_before(p, path, k) if not v.startswith("w")]
            if not g_all: continue
            g_in = set(grounded_before(p, path, k, inproc=True))
            v = g_all[(k * 7) % len(g_all)]
            for form in BINDERS:
                new = rebinder(form, v, paren)
                if new is None: continue
                q = with_extra(copy.deepcopy(p))
                qpath = ("items", path[1] + extra_shift(p)) + tuple(path[2:])
                get(q, qpath).insert(k, new)
                if ctx["top"] == "macro":
                    # since fix 3a6dc9a (finding FM11) hygiene renaming also visits the conditions attached to clauses: the `clausecond`
                    # form behaves like every other binder, in process (all spans equal) as under rustc
                    faithful = True
                else: faithful = v in g_in
                yield mutant(q, "rebind", form + (("-" + ("paren" if paren is True else paren)) if paren else ""), poskind(ctx), faithful=faithful)
    if paren: return
    # two occurrences of one fresh variable inside a single pattern
    for path, ctx in containers(p):
        if ctx["top"] == "macro" and ctx["name"] not in inv: continue
        q = copy.deepcopy(p)
        get(q, path).append(B("let", "(zd9, zd9)", ["zd9", "zd9"], "(1, 2)"))
        yield mutant(q, "rebind", "twice-in-pattern", poskind(ctx))
    # a parameter rebound inside the macro although the call site passes a grounded variable
    macs = macs_of(p)
    for i, r in rules_of(p):
        for path, ctx in containers(p):
            if ctx["top"] != "rule" or ctx["idx"] != i: continue
            items = get(p, path)
            for k, x in enumerate(items):
                if x["t"] != "m" or x["name"] not in macs or macs[x["name"]]["head"]: continue
                gb = grounded_before(p, path, k)
                m = macs[x["name"]]
                for j, (a, (nm, kd)) in enumerate(zip(x["args"], m["params"])):
                    if kd == "ident" and a["t"] == "v" and a["n"] in gb:
                        q = copy.deepcopy(p)
                        mi = next(t for t, it in enumerate(q["items"]) if it["t"] == "mac" and it["name"] == x["name"])
                        q["items"][mi]["body"].insert(0, B("let", "$" + nm, ["$" + nm], "7"))
                        yield mutant(q, "rebind", "parameter-in-macro", "macro-body/call-site-variable", faithful=transparent(q, x["name"]))
                        break


def mut_aggbound(p):
    """the bound argument of an aggregation names a variable that is already grounded (rejected since fix 4509942: formerly finding FM2)"""
    rels = rels_of(p)
    for path, ctx in containers(p):
        if ctx["top"] == "macro": continue
        items = get(p, path)
        for k in range(1, len(items) + 1):
            gb = [v for v in grounded_before(p, path, k, inproc=True) if v[0] == "x"]
            if not gb: continue
            v = gb[0]
            q = with_extra(copy.deepcopy(p))
            qpath = ("items", path[1] + extra_shift(p)) + tuple(path[2:])
            get(q, qpath).insert(k, AGG("zm9", ["zm9"], "min", [v], EXTRA, [V(v), W()]))
            yield mutant(q, "rebind", "agg-bound-arg", poskind(ctx))
            break


def mut_recmacro(p):
    """self-referential macros: direct (m invokes m), mutual (m -> n -> m); at every body position of every invoked macro"""
    inv = invoked_macros(p)
    macs = macs_of(p)
    for i, it in enumerate(p["items"]):
        if it["t"] != "mac": continue
        self_call = M(it["name"], [V("$" + nm) if kd == "ident" else E("$" + nm) for nm, kd in it["params"]])
        if it["name"] not in inv:
            q = copy.deepcopy(p); q["items"][i]["body"].append(self_call)
            yield mutant(q, "recursive-macro", "direct-never-invoked", "macro-head" if it["head"] else "macro-body", expect="ok")
            continue
        if it["head"]:
            for k in range(len(it["body"]) + 1):
                q = copy.deepcopy(p); q["items"][i]["body"].insert(k, self_call)
                yield mutant(q, "recursive-macro", "direct", "macro-head")
            q = copy.deepcopy(p); q["items"][i]["body"] += [self_call, copy.deepcopy(self_call)]
            yield mutant(q, "recursive-macro", "direct-branching-head", "macro-head", alone=True)       # 2^100 expansions before fix deae510 (was FM8): an ordinary rejection now, run in a process of its own as a safety net
        else:
            for path, ctx in containers(p):
                if ctx["top"] != "macro" or ctx["idx"] != i: continue
                for k in range(len(get(p, path)) + 1):
                    q = copy.deepcopy(p); get(q, path).insert(k, copy.deepcopy(self_call))
                    yield mutant(q, "recursive-macro", "direct", poskind(ctx))
            q = copy.deepcopy(p); q["items"][i]["body"] += [self_call, copy.deepcopy(self_call)]
            yield mutant(q, "recursive-macro", "direct-twice-in-sequence", "macro-body")
            q = copy.deepcopy(p); q["items"][i]["body"].append(OR([[copy.deepcopy(self_call)], [copy.deepcopy(self_call)]]))
            yield mutant(q, "recursive-macro", "direct-branching-disjunction", "macro-body/disjunct", alone=True)
            # mutual: a new macro with the same parameters that calls back
            q = copy.deepcopy(p)
            other = MAC("zmut9", it["params"], [copy.deepcopy(self_call)], head=False)
            q["items"].append(other)
            q["items"][i]["body"].append(M("zmut9", self_call["args"]))
            yield mutant(q, "recursive-macro", "mutual", "macro-body")
            q = copy.deepcopy(q)
            third = MAC("zmut8", it["params"], [M("zmut9", self_call["args"])], head=False)
            q["items"].append(third)
            q["items"][i]["body"][-1] = M("zmut8", self_call["args"])
            yield mutant(q, "recursive-macro", "mutual-3-cycle", "macro-body")


def mut_macro_misc(p):
    for path, ctx in containers(p):
        if ctx["top"] == "macro" and ctx["name"] not in invoked_macros(p): continue
        q = copy.deepcopy(p); get(q, path).append(M("zundef9", [E("1")]))
        yield mutant(q, "macro-use", "undefined-macro", poskind(ctx))
    macs = macs_of(p)
    for path, ctx in containers(p):
        for k, x in enumerate(get(p, path)):
            if x["t"] == "m" and x["name"] in macs and (ctx["top"] == "rule" or ctx["name"] in invoked_macros(p)):
                if x["args"]:
                    q = copy.deepcopy(p); get(q, path)[k]["args"].pop()
                    yield mutant(q, "macro-use", "too-few-arguments", poskind(ctx))
                q = copy.deepcopy(p); get(q, path)[k]["args"].append(E("1"))
                yield mutant(q, "macro-use", "too-many-arguments", poskind(ctx))


def mut_include(p):
    """`include_source!` at every top-level position of an `ascent_source!`"""
    for k in range(len(p["items"]) + 1):
        q = copy.deepcopy(p); q["kind"] = "ascent_source"; q["attrs"] = []; q["sig"] = None
        q["items"].insert(k, {"t": "incl", "path": "crate::some_src", "nattrs": 0})
        yield mutant(q, "include-in-source", "include_source", f"top-level")


def mut_ds(p):
    last = sorted(last_decls(p).values())        # the violation sits on the effective (= last) declaration of a relation: a replaced copy takes no part
    for i in last:
        it = p["items"][i]
        if it["lat"]:
            q = copy.deepcopy(p); q["items"][i]["attrs"].insert(0, ATTR("ds", "list", "ds(ascent::rel)"))
            yield mutant(q, "ds-on-lattice", "ds", "declaration")
            q = copy.deepcopy(p); q["items"][i]["attrs"] += [ATTR("ds", "list", "ds(ascent::rel)"), ATTR("ds", "list", "ds(ascent::rel)")]
            yield mutant(q, "ds-on-lattice", "two-ds", "declaration")
        else:
            q = copy.deepcopy(p)
            q["items"][i]["attrs"] = [a for a in q["items"][i]["attrs"] if a["name"] != "ds"] + [ATTR("ds", "list", "ds(ascent::rel)"), ATTR("ds", "list", "ds(ascent::rel)")]
            yield mutant(q, "two-ds", "relation", "declaration")
            q = copy.deepcopy(p); q["items"][i]["attrs"] = [a for a in q["items"][i]["attrs"] if a["name"] != "ds"] + [ATTR("ds", "path", "ds")]
            yield mutant(q, "attribute-shape", "ds-without-arguments", "declaration")
    q = copy.deepcopy(p); q["attrs"] = [a for a in q["attrs"] if a["name"] != "ds"] + [ATTR("ds", "list", "ds(ascent::rel)"), ATTR("ds", "list", "ds(ascent::rel)")]
    yield mutant(q, "two-ds", "program", "program-attribute")
    if not any(it["t"] == "rel" and it["lat"] for it in p["items"]):
        # turn a relation into a lattice that keeps its ds attribute
        for i in last:
            it = p["items"][i]
            if len(it["cols"]) >= 2 and all(c == "i32" for c in it["cols"]):
                q = copy.deepcopy(p); q["items"][i]["lat"] = True; q["items"][i]["trail"] = False
                q["items"][i]["attrs"] = [a for a in q["items"][i]["attrs"] if a["name"] != "ds"] + [ATTR("ds", "list", "ds(ascent::rel)")]
                yield mutant(q, "ds-on-lattice", "ds", "declaration")
                break


DUP, LATX = "zd9", "zl9"

def lattice_target(q):
    """index of the effective (last) declaration of a lattice of `q`; a lattice `zl9(i32, i32)` is appended when the program has none"""
    ls = [i for i in sorted(last_decls(q).values()) if q["items"][i]["lat"]]
    if ls: return ls[-1]
    q["items"].append(REL(LATX, ["i32", "i32"], lat=True))
    return len(q["items"]) - 1


def mut_redecl(p):
    """re-declared relations (legal: `dedup_all_keep_last_by` keeps the last copy) around the declaration-level checks.
    FORCED ill-formed programs: `#[ds(..)]` on a lattice that is declared BEHIND a duplicated declaration - the `ds` test must look at the attributes of
    the lattice itself, whatever the dedup dropped in front of it (an implementation that pairs the de-duplicated declarations with attributes collected
    before the dedup accepts these).  Well-formed variants: the offending attribute sits on a REPLACED copy, which takes no part in the program."""
    pos = "declaration/after-redeclaration"
    def base():
        q = copy.deepcopy(p)
        return q, lattice_target(q)
    def dup(): return REL(DUP, ["i32"])
    # a fresh relation declared twice (three times) directly in front of the lattice / at the start of the program / one copy each
    for variant, plan in (("after-duplicated-relation-adjacent", lambda q, li: [li, li]), ("after-duplicated-relation-at-start", lambda q, li: [0, 0]),
                          ("after-duplicated-relation-split", lambda q, li: [li, 0]), ("after-triplicated-relation", lambda q, li: [li, li, 0])):
        q, li = base()
        for at in plan(q, li): q["items"].insert(at, dup())          # (every insertion is at or in front of the lattice: it moves one down)
        li = lattice_target(q)
        q["items"][li]["attrs"].insert(0, DS())
        yield mutant(q, "ds-on-lattice", variant, pos)
    # a relation of the program itself re-declared (without attributes) at the start
    q, li = base()
    others = [i for i in sorted(last_decls(q).values()) if i != li]
    cand = [i for i in others if i < li] or others
    if cand:
        c = copy.deepcopy(q["items"][cand[0]]); c["attrs"] = []
        q["items"].insert(0, c)
        li = lattice_target(q)
        q["items"][li]["attrs"].insert(0, DS())
        yield mutant(q, "ds-on-lattice", "after-redeclared-relation-of-the-program", pos)
    # the lattice itself declared twice, the provider on the effective (last) copy
    q, li = base()
    q["items"].insert(li, copy.deepcopy(q["items"][li]))
    q["items"][li + 1]["attrs"].insert(0, DS())
    yield mutant(q, "ds-on-lattice", "on-the-last-copy-of-a-redeclared-lattice", pos)
    # ---- accepted: the attribute sits on a copy that a later identical declaration replaces
    posr = "declaration/replaced"
    for variant, at_start in (("ds-on-replaced-lattice-declaration", False), ("ds-on-replaced-lattice-declaration-at-start", True)):
        q, li = base()
        c = copy.deepcopy(q["items"][li]); c["attrs"].insert(0, DS())
        q["items"].insert(0 if at_start else li, c)
        yield mutant(q, "wellformed-variant", variant, posr, expect="ok")
    rl = [i for i in sorted(last_decls(p).values()) if not p["items"][i]["lat"]]
    if rl:
        i = rl[0]
        for variant, attrs in (("two-ds-on-replaced-relation-declaration", [DS(), DS()]), ("ds-without-arguments-on-replaced-relation-declaration", [ATTR("ds", "path", "ds")])):
            q = copy.deepcopy(p)
            c = copy.deepcopy(q["items"][i]); c["attrs"] = [a for a in c["attrs"] if a["name"] != "ds"] + attrs
            q["items"].insert(0, c)
            yield mutant(q, "wellformed-variant", variant, posr, expect="ok")


def mut_attrs(p):
    par = p["kind"] in ("ascent_par", "ascent_run_par")
    n = len(p["attrs"])
    for k in range(n + 1):
        for nm in ("foo", "measure_rule_time", "inline"):
            q = copy.deepcopy(p); q["attrs"].insert(k, ATTR(nm))
            yield mutant(q, "unknown-attribute", nm, f"program-attribute")
        q = copy.deepcopy(p); q["attrs"].insert(k, ATTR("foo", "list", "foo(bar)"))
        yield mutant(q, "unknown-attribute", "foo(bar)", "program-attribute")
    if not par:
        for k in range(n + 1):
            q = copy.deepcopy(p); q["attrs"] = [a for a in q["attrs"] if a["name"] != "inter_rule_parallelism"]
            q["attrs"].insert(min(k, len(q["attrs"])), ATTR("inter_rule_parallelism"))
            yield mutant(q, "parallel-only-attribute", "inter_rule_parallelism", "program-attribute")
    for nm in ("measure_rule_times", "generate_run_timeout", "inter_rule_parallelism"):
        q = copy.deepcopy(p); q["attrs"] = [a for a in q["attrs"] if a["name"] != nm] + [ATTR(nm, "list", nm + "(3)")]
        yield mutant(q, "attribute-shape", nm + "(3)", "program-attribute")
        q = copy.deepcopy(p); q["attrs"] = [a for a in q["attrs"] if a["name"] != nm] + [ATTR(nm, "nv", nm + " = 3")]
        yield mutant(q, "attribute-shape", nm + " = 3", "program-attribute")
    for i, it in enumerate(p["items"]):
        if it["t"] in ("rule", "mac"):
            q = copy.deepcopy(p); q["items"][i]["nattrs"] = 1
            yield mutant(q, "attribute-on-rule", "rule" if it["t"] == "rule" else "macro", "top-level")


def mut_known_shapes(p):
    """further ill-formed shapes found while building the check (each was a recorded finding — FM4, FM5, FM6, FM7, FM9, all repaired — or is a sanity class)"""
    # struct / impl signatures that do not match: "the identifiers / the generic parameters of struct and impl must match" (fix dfbe0be)
    q = copy.deepcopy(p); q["sig"] = {"s": "Prg", "i": "Other", "gm": True, "text": "struct Prg; impl Other;"}
    yield mutant(q, "signature-mismatch", "impl-name", "signature")
    q = copy.deepcopy(p); q["sig"] = {"s": "Prg", "i": "Prg", "gm": False, "text": "struct Prg<T>; impl<T> Prg<U>;"}
    yield mutant(q, "signature-mismatch", "impl-generics", "signature")
    # aggregation whose bound argument is not an argument of the aggregated relation: "aggregated variable `zq9` must be an argument .." (fix 5862f99)
    rels = rels_of(p)
    for path, ctx in containers(p):
        if ctx["top"] == "macro" and ctx["name"] not in invoked_macros(p): continue
        q = with_extra(copy.deepcopy(p))
        qpath = ("items", path[1] + extra_shift(p)) + tuple(path[2:])
        get(q, qpath).append(AGG("zm9", ["zm9"], "min", ["zq9"], EXTRA, [W(), W()]))
        yield mutant(q, "agg-bound-arg-missing", "min(z) in r(_, _)", poskind(ctx))
    # lattice declared with a trailing comma (well-formed!)
    for i, it in enumerate(p["items"]):
        if it["t"] == "rel" and it["lat"]:
            q = copy.deepcopy(p); q["items"][i]["trail"] = True
            yield mutant(q, "wellformed-variant", "lattice-trailing-comma", "declaration", expect="ok")
    # an empty macro (legal: bodies are parsed with parse_terminated) invoked where a comma follows
    for path, ctx in containers(p):
        if ctx["top"] == "rule" and ctx["disj"] == 0:
            q = copy.deepcopy(p); q["items"].append(MAC("zempty9", [], [], head=False))
            get(q, path).insert(0, M("zempty9", []))
            yield mutant(q, "wellformed-variant", "empty-macro-top-level", poskind(ctx), expect="ok")
            continue
        q = copy.deepcopy(p); q["items"].append(MAC("zempty9", [], [], head=False))
        get(q, path).insert(0, M("zempty9", []))
        yield mutant(q, "wellformed-variant", "empty-macro-then-comma", poskind(ctx), expect="ok")
        q = copy.deepcopy(p); q["items"].append(MAC("zempty9", [], [], head=False))
        get(q, path).append(M("zempty9", []))
        tr = ctx["top"] == "macro" and ctx["disj"] == 0 and get(q, path[:2])["trail"]
        yield mutant(q, "wellformed-variant", "empty-macro-last" + ("-trailing-comma" if tr else ""), poskind(ctx), expect="ok")
    for i, r in rules_of(p):
        q = copy.deepcopy(p); q["items"].append(MAC("zhempty9", [], [], head=True))
        q["items"][i]["heads"].insert(0, M("zhempty9", []))
        yield mutant(q, "wellformed-variant", "empty-head-macro-then-comma", "rule-head", expect="ok")
    # an empty disjunction `()`: a parse error of the rule ("empty disjunction", fix 361e42e); inside a macro definition the body is a token
    # stream that is only parsed when the macro is invoked: an error of the expansion there, and no error at all when nothing invokes the macro
    inv = invoked_macros(p)
    for path, ctx in containers(p):
        items = get(p, path)
        for k in sorted({0, len(items)}):
            q = copy.deepcopy(p); get(q, path).insert(k, OR([]))
            if ctx["top"] == "macro" and ctx["name"] not in inv:
                yield mutant(q, "wellformed-variant", "empty-disjunction-in-never-invoked-macro", poskind(ctx), expect="ok")
            else: yield mutant(q, "empty-disjunction", "()" + ("-first" if k == 0 else "-last"), poskind(ctx))
    # .. and it is reported although another violation sits in the same rule (formerly the rule and the violation disappeared together)
    for path, ctx in occurrences(p):
        if ctx["top"] != "rule" or ctx["what"] != "head": continue
        q = copy.deepcopy(p)
        get(q, path)["rel"] = "undeclared9"
        q["items"][ctx["idx"]]["body"].append(OR([]))
        yield mutant(q, "undeclared", "use+empty-disjunction", "rule/head")
        break


def mut_badcond(p):
    """a condition attached to a clause that is not syntactically complete (text only: no summary, judged by the property oracle alone)"""
    for path, ctx in occurrences(p):
        if ctx["what"] != "clause": continue
        for bad in ("if 1 >", "let zb9 = 1 +", "if let Some(zb9) =", "if", "if 1 == 1 ||"):
            q = copy.deepcopy(p)
            x = get(q, path)
            x["conds"] = x["conds"] + [{"kw": "raw", "text": bad, "seen": [], "hid": []}]
            # only where the clause is the last item of its list or a comma follows (otherwise the next token ends the expression differently)
            yield mutant(q, "malformed-condition", bad, occ_pos(ctx), nosummary=True)


def nest(item, depth):
    for _ in range(depth): item = OR([[item]])
    return item


def mut_depth(p):
    """disjunction nesting and macro chains at the depth budget (100)"""
    for i, r in rules_of(p):
        if not r["body"]: continue
        for depth, exp in ((99, "ok"), (100, "ok")):
            q = copy.deepcopy(p); q["items"][i]["body"][0] = nest(q["items"][i]["body"][0], depth)
            yield mutant(q, "wellformed-variant", f"disjunction-nesting-{depth}", "rule-body", expect=exp)
        break
    rels = rels_of(p)
    nm = sorted(rels)[0]
    for n, exp in ((99, "ok"), (100, "ok")):
        q = copy.deepcopy(p)
        for j in range(n):
            body = [M(f"zc{j + 1}", [])] if j + 1 < n else [CL(nm, [W()] * len(rels[nm]["cols"]))]
            q["items"].append(MAC(f"zc{j}", [], body))
        for i, r in rules_of(q):
            q["items"][i]["body"].append(M("zc0", []))
            break
        yield mutant(q, "wellformed-variant", f"macro-chain-{n}", "rule-body", expect=exp)


def mut_hygiene(p):
    """well-formed uses of private macro names (MACROS.MD: identifiers bound in macro bodies remain private to the invocation)"""
    rels = rels_of(p)
    for i, r in rules_of(p):
        if not r["body"]: continue
        # the same macro twice in one rule, its private name also used by the rule itself
        q = with_extra(copy.deepcopy(p))
        q["items"].append(MAC("zhy9", [("p0", "ident")], [CL(EXTRA, [V("$p0"), W()]), B("let", "zl9", ["zl9"], "($p0 + 0) + 1"), IF("(zl9 + 0) < 99")]))
        body = q["items"][i + extra_shift(p)]["body"]
        body.insert(0, B("let", "zl9", ["zl9"], "1"))
        body += [M("zhy9", [V("za9")]), M("zhy9", [V("zb9")])]
        yield mutant(q, "wellformed-variant", "private-macro-names", "rule-body", expect="ok")
        # a private name used in a condition attached to a clause of the macro body
        q = with_extra(copy.deepcopy(p))
        q["items"].append(MAC("zhy8", [("p0", "ident")], [CL(EXTRA, [V("$p0"), W()]), CL(EXTRA, [V("zl8"), W()], [IF("(zl8 + 0) < 99")])]))
        q["items"][i + extra_shift(p)]["body"].append(M("zhy8", [V("za9")]))
        yield mutant(q, "wellformed-variant", "private-name-in-clause-condition", "macro-body", expect="ok")     # compiles since fix 3a6dc9a (was FM11)
        break


def mut_order(p, rng):
    """two (or three) violations in one program whose answer is decided by the ORDER of the pipeline: planted deterministically around the checks
    that the repairs 5862f99 / dfbe0be / 361e42e added (the random two-violation programs of c15.build_streams hit these pairs only by chance).
    The property asks for a rejection, the tie for the SAME error kind as the model."""
    def first(gen):
        for m in gen:
            if m["faithful"] and m["expect"] == "err" and syntax_ok(m["prog"]): return m
        return None
    # the signatures are compared after the rules, the program attributes and the declarations, BEFORE the stratification test
    sigs = [("name", {"s": "Prg", "i": "Other", "gm": True, "text": "struct Prg; impl Other;"}),
            ("generics", {"s": "Prg", "i": "Prg", "gm": False, "text": "struct Prg<T>; impl<T> Prg<U>;"})]
    for gen in (mut_strat(p, rng), mut_undeclared(p), mut_arity(p), mut_ds(p), mut_attrs(p), (m for m in mut_known_shapes(p) if m["class"] == "agg-bound-arg-missing")):
        m = first(gen)
        if m is None: continue
        for nm, sg in sigs:
            q = copy.deepcopy(m["prog"]); q["sig"] = dict(sg)
            yield mutant(q, "two-violations", f"signature-mismatch({nm})+{m['class']}", "signature")
    # inside one aggregation: the test of the aggregated variable comes before the shadowing test of the pattern and before prog_get_relation
    for path, ctx in containers(p):
        if ctx["top"] == "macro": continue
        items = get(p, path)
        done = False
        for k in range(1, len(items) + 1):
            gb = [v for v in grounded_before(p, path, k, inproc=True) if not v.startswith("w")]
            if not gb: continue
            v = gb[0]
            qpath = ("items", path[1] + extra_shift(p)) + tuple(path[2:])
            for variant, agg in (("rebind+undeclared", AGG(v, [v], "min", ["zq9"], "undeclared9", [W(), W()])),
                                 ("rebind", AGG(v, [v], "min", ["zq9"], EXTRA, [W(), W()])),
                                 ("arity", AGG("zm9", ["zm9"], "min", ["zq9"], EXTRA, [W(), W(), W()])),
                                 ("undeclared", AGG("zm9", ["zm9"], "min", ["zq9"], "undeclared9", [W()]))):
                q = with_extra(copy.deepcopy(p))
                get(q, qpath).insert(k, agg)
                yield mutant(q, "two-violations", f"agg-bound-arg-missing+{variant} (one aggregation)", poskind(ctx))
            # the bound arguments are tested like binders (fix 4509942) AFTER the test "is an argument of the aggregated relation", BEFORE the pattern
            # and prog_get_relation; a repeated bound argument is a rebind too
            for variant, agg in (("agg-bound-arg-missing+bound-arg-rebind", AGG("zm9", ["zm9"], "min", [v, "zq9"], EXTRA, [V(v), W()])),
                                 ("bound-arg-rebind+undeclared", AGG("zm9", ["zm9"], "min", [v], "undeclared9", [V(v), W()])),
                                 ("bound-arg-rebind+arity", AGG("zm9", ["zm9"], "min", [v], EXTRA, [V(v), W(), W()])),
                                 ("bound-arg-twice+undeclared", AGG("zm9", ["zm9"], "min", ["zq9", "zq9"], "undeclared9", [V("zq9"), W()]))):
                q = with_extra(copy.deepcopy(p))
                get(q, qpath).insert(k, agg)
                yield mutant(q, "two-violations", f"{variant} (one aggregation)", poskind(ctx))
            # .. but an earlier item of the same body is answered first
            q = with_extra(copy.deepcopy(p))
            get(q, qpath).insert(k, AGG("zm9", ["zm9"], "min", ["zq9"], EXTRA, [W(), W()]))
            get(q, qpath).insert(k, B("let", v, [v], "7"))
            yield mutant(q, "two-violations", "rebind, then agg-bound-arg-missing", poskind(ctx))
            done = True
            break
        if done and ctx["disj"] == 0 and ctx["idx"] % 2: break
    # an invocation: `macros.get`, the arguments, THEN the body is parsed (empty disjunction), then its items are expanded
    macs = macs_of(p)
    seen = set()
    for path, ctx in containers(p):
        if ctx["top"] != "rule": continue
        for k, x in enumerate(get(p, path)):
            if x["t"] != "m" or x["name"] not in macs or macs[x["name"]]["head"] or x["name"] in seen: continue
            seen.add(x["name"])
            mi = next(t for t, it in enumerate(p["items"]) if it["t"] == "mac" and it["name"] == x["name"])
            for how in ("too-few-arguments", "too-many-arguments"):
                if how == "too-few-arguments" and not x["args"]: continue
                q = copy.deepcopy(p); q["items"][mi]["body"].append(OR([]))
                if how == "too-few-arguments": get(q, path)[k]["args"].pop()
                else: get(q, path)[k]["args"].append(E("1"))
                yield mutant(q, "two-violations", f"macro-use({how})+empty-disjunction in that macro", poskind(ctx))
            q = copy.deepcopy(p)
            q["items"][mi]["body"].insert(0, M("zundef9", [E("1")]))
            q["items"][mi]["body"].append(OR([[CL(sorted(rels_of(p))[0], [W()] * len(rels_of(p)[sorted(rels_of(p))[0]]["cols"]))], [OR([])]]))
            yield mutant(q, "two-violations", "undefined-macro first in a macro body+nested empty-disjunction last in it", "macro-body")
    # parse errors come in textual order, and before everything else
    rl = [i for i, _ in rules_of(p)]
    if len(rl) >= 2:
        for a, b in ((rl[0], rl[-1]), (rl[-1], rl[0])):
            q = copy.deepcopy(p); q["items"][a]["body"].append(OR([])); q["items"][b]["nattrs"] = 1
            yield mutant(q, "two-violations", "empty-disjunction+attribute-on-rule (textual order)", "top-level")
        q = copy.deepcopy(p); q["items"][rl[-1]]["body"].append(OR([]))
        for h in q["items"][rl[0]]["heads"]:
            if h["t"] == "h": h["rel"] = "undeclared9"; break
        yield mutant(q, "two-violations", "undeclared in the first rule+empty-disjunction in the last", "rule-body")


def all_mutants(p, rng):
    for m in _all_mutants(p, rng):
        if syntax_ok(m["prog"]): yield m


def _all_mutants(p, rng):
    yield from mut_undeclared(p)
    yield from mut_arity(p)
    yield from mut_strat(p, rng)
    yield from mut_rebind(p)
    yield from mut_rebind(p, paren=True)
    for wrap in ("slice", "tuple", "ref", "at"): yield from mut_rebind(p, paren=wrap)
    yield from mut_aggbound(p)
    yield from mut_recmacro(p)
    yield from mut_macro_misc(p)
    yield from mut_ds(p)
    yield from mut_redecl(p)
    yield from mut_attrs(p)
    yield from mut_known_shapes(p)
    yield from mut_order(p, rng)
    yield from mut_badcond(p)
    yield from mut_depth(p)
    yield from mut_hygiene(p)


# ------------------------------------------------------------------ malformed token streams

def malformed(rng, txt):
    """delete / duplicate / swap / insert tokens of a well-formed text: the macro may answer ok or err, never panic or hang"""
    toks = txt.replace("(", " ( ").replace(")", " ) ").replace(",", " , ").replace(";", " ; ").split()
    k = rng.below(6)
    if not toks: return txt
    i = rng.below(len(toks))
    if k == 0: del toks[i]
    elif k == 1: toks.insert(i, toks[i])
    elif k == 2 and len(toks) > 1:
        j = rng.below(len(toks)); toks[i], toks[j] = toks[j], toks[i]
    elif k == 3: toks.insert(i, rng.choice(["<--", "!", "agg", "if", "let", "|", "?", "$", "macro", "=", "in", "for", "::", "#", "[", "{", "lattice", "include_source", "'a", "0x", "\""]))
    elif k == 4: toks = toks[:i]
    else: toks[i] = rng.choice(["relation", "lattice", "_", "()", "(,)", ";;", "<--", "r0", "x1", "$p0", "m0!", "#![", "struct"])
    return " ".join(toks)
