"""C12 generator: programs with ONE relation tagged `#[ds(trrel_uf)]` (binary `t(T,T)` or ternary `t(K,T,T)`), fed from plain
input relations (non-recursive strata, several feeding strata, recursive strata with an input-driven arrival schedule or a
reachability feedback), read through plain observer relations covering every access pattern (every subset of bound columns,
bound by probe relations or constants, plus all-free), inside and outside the stratum in which the tagged relation grows.

A program is described by `Prog` (the eng.py AST plus the roles of its relations); inputs are generated per mode."""
from . import eng

V = lambda n: ("v", n)
X = lambda n: ("var", n)


class Prog:
    def __init__(self, kind, mode):
        self.kind, self.mode = kind, mode          # kind: "bin" | "ter"; mode: see MODES
        self.p = {"rels": [], "rules": []}
        self.role = {}                             # name -> relation index
        self.observers = []                        # (rel, description dict)
        self.probes = {}                           # rel -> tuple of bound columns
        self.t = None

    def rel(self, name, arity, **kw):
        self.p["rels"].append(dict(arity=arity, **kw))
        self.role[name] = len(self.p["rels"]) - 1
        return self.role[name]

    def rule(self, heads, body):
        self.p["rules"].append({"heads": heads, "body": body})


MODES = ["nonrec", "twofeed", "sched", "sched_in", "reach", "reach_in", "selfext"]


def build(kind, mode, rng, nobs_extra=3, avoid17=False):
    """kind bin|ter; the tagged relation is always relation 0.
    avoid17: the probe observer of the view [1,2] is not a two-clause (reorderable simple) join, which would call
    `len_estimate` on that view (finding F17 masks everything else in a looping stratum)"""
    g = Prog(kind, mode)
    ar = 2 if kind == "bin" else 3
    t = g.rel("t", ar, ds="trrel_uf")
    g.t = t
    tv = list(range(ar))                           # variables 0..ar-1 = the columns of t
    targs = [V(v) for v in tv]
    thead = [X(v) for v in tv]
    looping = mode in ("sched", "sched_in", "reach", "reach_in", "selfext")
    inscc = mode in ("sched_in", "reach_in")
    e = g.rel("e", ar)
    g.rule([(t, thead)], [("cl", e, targs, [])])
    if mode == "twofeed":
        # a second feeding stratum (t is dynamic in two non-looping SCCs); the second one inserts reversed pairs
        e2 = g.rel("e2", ar)
        rev = thead[:-2] + [thead[-1], thead[-2]]
        g.rule([(t, rev)], [("cl", e2, targs, [])])
    if mode in ("sched", "sched_in"):
        tick = g.rel("tick", 1); nxt = g.rel("nxt", 2); sched = g.rel("sched", ar + 1); nv = g.rel("never", ar + 1)
        g.rule([(tick, [X(11)])], [("cl", tick, [V(10)], []), ("cl", nxt, [V(10), V(11)], [])])
        g.rule([(t, thead)], [("cl", tick, [V(10)], []), ("cl", sched, [V(10)] + targs, [])])
        g.rule([(tick, [X(10)])], [("cl", t, targs, []), ("cl", nv, targs + [V(10)], [])])     # never fires: puts tick and t in one SCC
    if mode in ("reach", "reach_in"):
        k = targs[:-2]; kh = thead[:-2]
        start = g.rel("start", ar - 1); reach = g.rel("reach", ar - 1); e2 = g.rel("e2", ar)
        a, b, c = tv[-2], tv[-1], 12
        g.rule([(reach, kh + [X(b)])], [("cl", start, k + [V(a)], []), ("cl", t, k + [V(a), V(b)], [])])
        g.rule([(t, kh + [X(b), X(c)])], [("cl", reach, k + [V(b)], []), ("cl", e2, k + [V(b), V(c)], [])])
    if mode == "selfext":
        k = targs[:-2]; kh = thead[:-2]
        e2 = g.rel("e2", ar)
        a, b, c = tv[-2], tv[-1], 12
        g.rule([(t, kh + [X(a), X(c)])], [("cl", t, k + [V(a), V(b)], []), ("cl", e2, k + [V(b), V(c)], [])])
    # ---- observers: every subset of bound columns
    gate = g.rel("gate", 1)
    nvs = {}
    def feedback(o, oar):
        """make the observer's rule part of the looping SCC of t (a rule that can never fire closes the dependency cycle)"""
        if not inscc: return
        if oar not in nvs: nvs[oar] = g.rel(f"nv{oar}", oar)
        ov = [V(20 + j) for j in range(oar)]
        g.rule([(t, [0] * ar)], [("cl", o, ov, []), ("cl", nvs[oar], ov, [])])
    subsets = [tuple(c for c in range(ar) if m >> c & 1) for m in range(1 << ar)]
    for B in subsets:
        # probe-bound, the probe first (a simple join when |body| = 2: the runtime iterates the smaller side, so both
        # index_get and iter_all of the view are exercised across inputs)
        o = g.rel("o_" + "".join(map(str, B)), ar)
        body = []
        if avoid17 and B == (1, 2): body.append(("cl", gate, [V(15)], []))
        if B:
            pr = g.rel("p_" + "".join(map(str, B)), len(B))
            g.probes[pr] = B
            body.append(("cl", pr, [V(c) for c in B], []))
        body.append(("cl", t, targs, []))
        g.rule([(o, thead)], body)
        g.observers.append((o, {"bound": B, "shape": "probe"}))
        feedback(o, ar)
    extra = []
    for B in subsets:
        if B:
            extra.append(("const", B)); extra.append(("late", B))
    extra.append(("diag", ())); extra.append(("late", ()))
    extra = rng.shuffle(extra)[:nobs_extra] if nobs_extra is not None else extra
    for shape, B in extra:
        name = f"o{shape}_" + "".join(map(str, B))
        free = [c for c in range(ar) if c not in B]
        if shape == "const":
            consts = {c: rng.range(0, 3) for c in B}
            args = [("e", consts[c]) if c in B else V(c) for c in range(ar)]
            oar = max(1, len(free))
            o = g.rel(name, oar)
            g.rule([(o, [X(c) for c in free] or [1])], [("cl", t, args, [])])
            g.observers.append((o, {"bound": B, "shape": "const", "consts": consts}))
        elif shape == "late":
            # gate and probe first, t as the third clause: always an index_get on the view of B
            o = g.rel(name, ar)
            body = [("cl", gate, [V(15)], [])]
            if B:
                pr = [r for r, b in g.probes.items() if b == B][0]
                body.append(("cl", pr, [V(c) for c in B], []))
            else:
                body.append(("cl", e, [V(16 + c) for c in range(ar)], []))
            body.append(("cl", t, targs, []))
            g.rule([(o, thead)], body)
            g.observers.append((o, {"bound": B, "shape": "late"}))
            oar = ar
        else:
            # repeated variable: the reflexive pairs
            o = g.rel(name, ar - 1)
            args = targs[:-2] + [V(tv[-2]), V(tv[-2])]
            g.rule([(o, thead[:-1])], [("cl", t, args, [])])
            g.observers.append((o, {"bound": (), "shape": "diag"}))
            oar = ar - 1
        feedback(o, oar)
    g.looping = looping
    g.inscc = inscc
    g.avoid17 = avoid17
    return g


# ------------------------------------------------------------------ inputs

def graph(rng, shape, n):
    """edge list over nodes 0..n-1"""
    if shape == "chain": return [(i, i + 1) for i in range(n - 1)]
    if shape == "cycle": return [(i, (i + 1) % n) for i in range(n)]
    if shape == "two_cycles":
        h = max(2, n // 2)
        return [(i, (i + 1) % h) for i in range(h)] + [(h + i, h + (i + 1) % (n - h)) for i in range(n - h)] + ([(0, h)] if rng.chance(1, 2) else [])
    if shape == "back":      # a chain closed late by a back edge, plus a tail
        return [(i, i + 1) for i in range(n - 1)] + [(n - 2, 0)]
    if shape == "self": return [(rng.below(n), rng.below(n)) for _ in range(2)] + [(i, i) for i in range(0, n, 2)]
    m = rng.range(1, 2 * n)
    return [(rng.below(n), rng.below(n)) for _ in range(m)]

SHAPES = ["chain", "cycle", "two_cycles", "back", "self", "random", "random"]


def keyed_edges(rng, ar, n):
    """edges of t's arity: for the ternary form 1-3 keys with a graph each"""
    if ar == 2: return rng.shuffle(graph(rng, rng.choice(SHAPES), n))
    if rng.chance(1, 4):
        # MANY keys sharing ONE edge: few distinct elements per column against many keys (an `is_empty` answered from a sampled / estimated
        # size of the [1,2] view would call the view empty; seeded change C12_r3_ternary_view12_is_empty_estimate)
        a, b = rng.below(n), rng.below(n)
        return rng.shuffle([(k, a, b) for k in range(rng.range(4, 9))])
    out = []
    for k in rng.shuffle([0, 1, 2])[:rng.range(1, 3)]:
        out += [(k, a, b) for a, b in graph(rng, rng.choice(SHAPES), rng.range(2, n))]
    return rng.shuffle(out)


def gen_input(rng, g, dom=6):
    """input relations of program g: {rel: rows}; plus meta (the arrival schedule, for class predicates)"""
    ar = 2 if g.kind == "bin" else 3
    role = g.role
    inp = {}
    n = rng.range(2, dom)
    edges = keyed_edges(rng, ar, n)
    meta = {}
    if g.mode in ("sched", "sched_in"):
        nt = rng.range(2, 6)
        style = rng.below(4)
        rows = []
        if style == 3:
            # no key pauses: the tuples of a key arrive at consecutive ticks (at least one per tick) from a start tick on
            bykey = {}
            for ed in edges: bykey.setdefault(ed[:-2], []).append(ed)
            for k, eds in bykey.items():
                span = rng.range(1, min(len(eds), nt))
                st = rng.range(0, nt - span)
                for i, ed in enumerate(eds): rows.append(((st + i) if i < span else st + rng.below(span),) + ed)
            rows = rng.shuffle(rows)
        for i, ed in enumerate(edges if style != 3 else []):
            if style == 0: tk = min(nt - 1, i * nt // max(1, len(edges)))     # in order, spread over the ticks
            elif style == 1: tk = rng.below(nt)
            else: tk = rng.choice([0, nt - 1])                              # pause in the middle
            rows.append((tk,) + ed)
        first = [r for r in rows if r[0] == 0]
        inp[role["e"]] = [r[1:] for r in first] if rng.chance(1, 2) else []
        if inp[role["e"]]: rows = [r for r in rows if r[0] != 0]
        inp[role["sched"]] = rows
        inp[role["tick"]] = [(0,)]
        inp[role["nxt"]] = [(i, i + 1) for i in range(nt - 1)]
        inp[role["never"]] = []
        meta["sched"] = rows
    else:
        cut = rng.range(0, len(edges))
        if g.mode == "nonrec": cut = len(edges)
        inp[role["e"]] = edges[:cut] if g.mode != "nonrec" else edges
        if "e2" in role: inp[role["e2"]] = edges[cut:] + ([edges[0]] if edges and rng.chance(1, 3) else [])
        if "start" in role:
            src = inp[role["e"]] or edges
            inp[role["start"]] = list(dict.fromkeys(ed[:-1] for ed in src[:rng.range(1, 2)])) if src else []
    inp[role["gate"]] = [(7,)]
    for r, B in g.probes.items():
        rows = set()
        pool = edges + [tuple(rng.below(dom + 1) for _ in range(ar)) for _ in range(3)]
        for ed in pool:
            if rng.chance(2, 3): rows.add(tuple(ed[c] for c in B))
            if rng.chance(1, 4) and ar - 1 in B and ar - 2 in B:
                rows.add(tuple(ed[c] if c != ar - 1 else ed[ar - 2] for c in B))    # probe the reflexive pair
        if rng.chance(1, 5): rows = set(list(rows)[:1])
        inp[r] = sorted(rows)
    for name, r in role.items():
        if name.startswith("nv"): inp[r] = []
    for r in range(len(g.p["rels"])): inp.setdefault(r, [])
    inp.pop(g.t, None)
    return inp, meta
