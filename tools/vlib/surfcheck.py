"""Shared driver of the surface-language properties C07 / C08 (tie B, three-way):
   real macros on the SUGARED text  |  real macros on the printed documented expansion (twin)  |  Lean desugar model + engine model
all against the independent oracle `eng.naive_model(expand_spec(program))`; plus tie A (in-process macro pipeline) for rejections."""
import json, os, subprocess, tempfile, time
from . import core, eng, engcheck, tieb, tiec, surface as S


class Unit:
    """one generated module: `surface` (None for a twin) is sent to the Lean desugar model, `core` is what the oracle reads"""
    def __init__(self, pid, text, surface, core_prog, kind, meta=None):
        self.pid, self.text, self.surface, self.core, self.kind, self.meta = pid, text, surface, core_prog, kind, meta or {}


def spec_sets(q, inp):
    db = eng.naive_model(q, inp)
    return {r: {eng.sx_tuple(t) for t in db.get(r, ())} for r in range(len(q["rels"]))}


def lean_has_sprog():
    return os.path.exists(os.path.join(core.LEAN, "AscentVerif", "Model", "Desugar.lean"))


def run_units(report, group, units, cases, nbins=8, model=True):
    mods = [(u.pid, u.text) for u in units]
    bins, log, wall = tieb.build(group, mods, nbins=nbins)
    report.cov["harness_build_s"] = round(report.cov.get("harness_build_s", 0) + wall, 1)
    if bins is None:
        tieb.report_build_failure(report, group, mods, log)
        return None
    sprog = lean_has_sprog()
    ilines, mlines, pids = [], [], []
    for u in units:
        ilines.append(f"eng prog {u.pid}")
        if u.surface is not None and sprog: mlines.append(f"eng sprog {u.pid} {S.sx_sprog(u.surface)}")
        else: mlines.append(f"eng prog {u.pid} {eng.sx_prog(u.core)}")
        pids.append(u.pid)
    spans = []
    for c in cases:
        a = len(ilines)
        for o in c.ops:
            ilines.append(o); mlines.append(o); pids.append(c.pid)
        spans.append((a, len(ilines)))
    impl = [engcheck.canon_iters(x) for x in tieb.run_impl(bins, ilines, pids)]
    mod = [engcheck.canon_iters(x) for x in core.run_model(mlines)] if model else None
    decl = {u.pid: (impl[i], mod[i] if mod else None, mlines[i]) for i, u in enumerate(units)}
    return [(impl[a:b], mod[a:b] if mod is not None else None) for a, b in spans], decl


def tie_a(programs, timeout=120, run_timeout=None):
    """programs: [(id, kind, text)] -> {id: outcome line}; None for programs whose record is missing (timeout / crash)"""
    d = tempfile.mkdtemp(prefix="tiea", dir=os.path.join(core.VERIF, "harness"))
    inp, outp = os.path.join(d, "programs.txt"), os.path.join(d, "out.txt")
    with open(inp, "w") as f:
        for i, k, t in programs: f.write(f"{i}\t{k}\t{' '.join(t.split())}\n")
    e = core.env_offline()
    e.update({"VERIF_PROGRAMS": inp, "VERIF_OUT": outp, "CARGO_TARGET_DIR": core.target_dir() + "-macro"})
    cmd = ["cargo", "test", "--offline", "-q", "-p", "ascent_macro", "--features", "verif-hooks", "verif_driver"]
    t0 = time.time()
    timed_out = False
    log = ""
    def run_killable(cmd, limit):
        import signal
        pr = subprocess.Popen(cmd, cwd=core.repo_dir(), env=e, stdout=subprocess.PIPE, stderr=subprocess.STDOUT, text=True, start_new_session=True)
        try:
            o, _ = pr.communicate(timeout=limit)
            return o, False
        except subprocess.TimeoutExpired:
            try: os.killpg(pr.pid, signal.SIGKILL)
            except OSError: pass
            pr.wait()
            return "", True
    if run_timeout is not None:
        # build first (not on the clock), then run the test under the time budget
        rc, log = core.run(cmd[:2] + ["--no-run"] + cmd[2:], cwd=core.repo_dir(), env=e, timeout=timeout)
        t0 = time.time()
        o, timed_out = run_killable(cmd, run_timeout)
        log += o
    else:
        log, timed_out = run_killable(cmd, timeout)
    out = {}
    cur = None
    if os.path.exists(outp):
        for line in open(outp):
            line = line.rstrip("\n")
            if line.startswith("== "): cur = line[3:]
            elif line.startswith("outcome ") and cur is not None: out[cur] = line[8:]
    import shutil
    shutil.rmtree(d, ignore_errors=True)
    return out, timed_out, time.time() - t0, log


def tie_a_body(p, nm=None):
    """the program text as the in-process driver wants it (the inside of `ascent! { .. }`)"""
    t = S.s_program(p, nm)
    return t[t.index("{") + 1: t.rindex("}")]


def run_surface_property(pid_prop, tier, *, modules, theorems, trusted, group, build, rule, what, known=None, extra=None, nbins=8):
    """build(rng, tier) -> (units [Unit], cases [engcheck.Case with meta inp/expected]);  extra(report, rng, tier) runs the tie-A part"""
    r = core.Report(pid_prop, tier)
    rng = core.SplitMix(core.seed()).fork("SURF")
    if os.environ.get("VERIF_DEV_SKIP_PROOF"):
        proof = core.ProofResult(); core.run(["lake", "build", "driver"], cwd=core.LEAN)
    else:
        proof = core.lean_prove(modules, leanchecker=(tier == "thorough"))
        core.require_theorems(proof, theorems)
    r.proof(proof, "lake build " + " ".join(modules) + " && #audit_module (axioms of every theorem)" + (" && lake env leanchecker" if tier == "thorough" else ""))
    units, cases = build(rng, tier)
    byid = {u.pid: u for u in units}
    res = run_units(r, group, units, cases, nbins=nbins, model=os.path.exists(core.lean_driver()))
    if res is None: return r.finish(trusted)
    outs, decl = res
    d = tiec.Decision(r)
    # program declarations: the Lean desugar model must accept what the real macro compiled
    for u in units:
        io, mo, ml = decl[u.pid]
        if mo is not None and (io != "ok" or mo != "ok"):
            d.corr_mismatch.append({"input": ml, "impl": io, "model": mo})
    hist = {}
    for c, (io, mo) in zip(cases, outs):
        u = byid[c.pid]
        text = (f"surface: {S.s_program(u.surface)}\n" if u.surface is not None else "") + f"core: {eng.sx_prog(u.core)}\n" + "\n".join(c.ops)
        exp = c.meta["expected"]
        def orc(_l, out, u=u, exp=exp):
            return engcheck.check_sets(u.core, out.split("\n")[-1], exp)
        kn = (lambda _l, i, m, c=c, u=u: known(c, u, i.split("\n"), None if m is None else m.split("\n"))) if known else None
        # multiplicities and scc_iters are not part of these properties (the twin has more rules): compare as sets
        io_c = [canon_sets(x) for x in io]
        mo_c = [canon_sets(x) for x in mo] if mo is not None else None
        if c.meta.get("class") and orc(None, "\n".join(io_c)) is None:
            # inside the class of a known finding the bug-faithful model may predict the defect where it did not strike
            # (e.g. F10 depends on the process-wide counter of fresh_ident): the implementation is right, nothing to attribute
            mo_c = None
        d.case(text, "\n".join(io_c), None if mo_c is None else "\n".join(mo_c), orc, nontrivial=c.meta.get("nontrivial", True), known=kn)
        k = c.meta.get("kind", "case"); hist[k] = hist.get(k, 0) + 1
    if cases:
        u = byid[cases[0].pid]
        r.sample({"program": S.s_program(u.surface if u.surface is not None else u.core), "history": cases[0].ops, "impl": outs[0][0]})
    r.cov["programs"] = len(units)
    r.cov["case_kinds"] = hist
    r.cov["rule"] = rule
    if extra: extra(r, d, rng, tier)
    d.conclude(proof, what)
    return r.finish(trusted)


def canon_sets(line):
    if not line.startswith("r0:"): return line
    return " | ".join(part.split(":")[0] + ":" + "".join(" " + t + "*1" for t in sorted(set(x.rsplit("*", 1)[0] for x in split_rows(part.partition(":")[2]))))
                      for part in line.split(" | "))


def split_rows(s):
    out, depth, cur = [], 0, ""
    for ch in s.strip() + " ":
        if ch == "(": depth += 1
        if ch == ")": depth -= 1
        if ch == " " and depth == 0:
            if cur: out.append(cur); cur = ""
        else: cur += ch
    return out
