"""C12, tie C: the `trrel_uf` provider (`rel_ind_common` triple new / delta / total and every index view) driven through the trait
methods generated code uses (harness/ds `tri …`), against the Lean model (Model/TrRelUFInd.lean via Driver/TrInd.lean) and
against the provider contract stated here (independent of the model).

The provider contract (what generated semi-naive code needs, as sets of tuples; closure = reflexive on mentioned elements and
transitive, per key K for the ternary form):
  P1  after a merge           total' = total ∪ delta            (every view of total' shows exactly these tuples)
  P2  after a merge           delta' ⊇ closure(total' ∪ new) \\ total'   and   delta' ⊆ closure(total' ∪ new)
      (a view of delta may repeat tuples that are already in total': harmless re-derivation; it may not lose or invent any)
  P3  head update             `!total.contains && !delta.contains && new.insert_if_not_present` is true iff the tuple is in
                              none of total / delta / new (as specified above); insert_if_not_present alone: iff not in new
  P4  no operation panics.
`index_get(k) = None` and an empty iterator are the same observation."""
import itertools, re
from . import core

BIN_VIEWS = [("n", ()), ("0", (0,)), ("1", (1,)), ("01", (0, 1))]
TER_VIEWS = [("n", ()), ("0", (0,)), ("1", (1,)), ("2", (2,)), ("01", (0, 1)), ("02", (0, 2)), ("12", (1, 2)), ("012", (0, 1, 2))]


# ------------------------------------------------------------------ snap lines

def parse_snap(line, ter, es, ks):
    """`d[ v=ALL|g,g,… … ] t[ … ]` -> {ver: {view: {"all": set|'panic', "get": {key: set|'panic'}}}}"""
    views = TER_VIEWS if ter else BIN_VIEWS
    m = re.match(r"^d\[ (.*) \] t\[ (.*) \]$", line)
    if not m: return None
    out = {}
    for ver, body in (("d", m.group(1)), ("t", m.group(2))):
        res = {}
        for tok in body.split(" "):
            v, _, rest = tok.partition("=")
            allp, _, gets = rest.partition("|")
            cols = dict(views)[v]
            doms = [ks if (ter and c == 0) else es for c in cols]
            keys = list(itertools.product(*doms))
            gl = gets.split(",") if cols else [gets]
            def tset(s):
                if s == "panic": return "panic"
                s = s.strip("[]")
                if s in ("", "-"): return frozenset()
                return frozenset(tuple(int(x) for x in t.split(":")) for t in s.split(";"))
            res[v] = {"all": tset(allp), "get": {k: tset(g) for k, g in zip(keys, gl)}}
        out[ver] = res
    return out


def leq(a, b):
    """observation a ⊆ b (panics must coincide)"""
    if a == "panic" or b == "panic": return a == b
    return a <= b


def snap_between(lo, x, hi, ter, es, ks):
    a, b, c = (parse_snap(l, ter, es, ks) for l in (lo, x, hi))
    if a is None or b is None or c is None: return lo == x == hi
    for ver in ("d", "t"):
        if set(a[ver]) != set(b[ver]) or set(b[ver]) != set(c[ver]): return False
        for v in b[ver]:
            if not (leq(a[ver][v]["all"], b[ver][v]["all"]) and leq(b[ver][v]["all"], c[ver][v]["all"])): return False
            for k in b[ver][v]["get"]:
                if not (leq(a[ver][v]["get"][k], b[ver][v]["get"][k]) and leq(b[ver][v]["get"][k], c[ver][v]["get"][k])): return False
    return True


def in_band(ops, impl, lo, hi, ter, es, ks):
    """the implementation's outputs lie between the two model runs (equal where the model is order independent),
    up to and including the first panic"""
    for op, i, a, b in zip(ops, impl, lo, hi):
        if op.split()[1] == "snap":
            if not snap_between(a, i, b, ter, es, ks): return False
        elif not (i == a == b): return False
        if i == "panic" and op.split()[1] != "len12": break
    return True


# ------------------------------------------------------------------ the contract oracle

def closure(pairs):
    """reflexive (on mentioned elements) transitive closure, per key: tuples are (x, y) or (k, x, y)"""
    bykey = {}
    for t in pairs: bykey.setdefault(t[:-2], set()).add(t[-2:])
    out = set()
    for k, ps in bykey.items():
        nodes = sorted({x for p in ps for x in p})
        r = {(a, b): (a == b or (a, b) in ps) for a in nodes for b in nodes}
        for m in nodes:
            for i in nodes:
                if r[(i, m)]:
                    for j in nodes:
                        if r[(m, j)]: r[(i, j)] = True
        out |= {k + p for p, v in r.items() if v}
    return out


class Ideal:
    def __init__(self): self.T, self.D, self.N = set(), set(), set()


def deviations(ops, outs, ter, es, ks):
    """list of (op index, kind, detail) where the outputs leave the contract. kinds:
    panic | head | ins | total-extra | total-missing | delta-missing | delta-invented (+ ver/view/key in detail)"""
    st = Ideal()
    dev = []
    for j, (op, o) in enumerate(zip(ops, outs)):
        t = op.split()
        k = t[1]
        if o == "panic":
            dev.append((j, "panic", {"op": k}))
            if k == "len12": continue
            break
        if k in ("mk2", "mk3"): st = Ideal()
        elif k == "enter":
            st.D, st.T, st.N = st.T | st.D, set(), set()
        elif k in ("ins", "head"):
            tup = tuple(int(x) for x in t[3:])
            exp = (tup not in st.N) if k == "ins" else (tup not in st.N and tup not in st.T and tup not in st.D)
            if o != str(exp).lower(): dev.append((j, k, {"tuple": tup, "expected": exp, "got": o}))
            if o == "true" or k == "ins": st.N.add(tup)      # follow the implementation's decision: later checks are relative to it
        elif k == "merge":
            st.T = st.T | st.D
            st.D = closure(st.T | st.N) - st.T
            st.N = set()
        elif k == "len12":
            if not o.isdigit(): dev.append((j, "panic", {"op": k}))
        elif k == "snap":
            sn = parse_snap(o, ter, es, ks)
            if sn is None: dev.append((j, "panic", {"op": "snap", "raw": o[:80]})); break
            for ver, low, high in (("t", st.T, st.T), ("d", st.D, st.T | st.D)):
                for v, cols in (TER_VIEWS if ter else BIN_VIEWS):
                    if v not in sn[ver]: continue
                    obs = [((), sn[ver][v]["all"], None)] + [(key, got, key) for key, got in sn[ver][v]["get"].items()]
                    for key, got, sel in obs:
                        f = (lambda s: s) if sel is None else (lambda s: {x for x in s if tuple(x[c] for c in cols) == sel})
                        if got == "panic":
                            dev.append((j, "panic", {"op": "snap", "ver": ver, "view": v})); continue
                        mis, ext = f(low) - got, got - f(high)
                        if mis: dev.append((j, "delta-missing" if ver == "d" else "total-missing", {"view": v, "key": key, "tuples": sorted(mis)}))
                        if ext: dev.append((j, "delta-invented" if ver == "d" else "total-extra", {"view": v, "key": key, "tuples": sorted(ext)}))
    return dev


# ------------------------------------------------------------------ finding classes over a scenario (code over the op sequence)

def batches(ops):
    """[(merge op index, new tuples, keys-with-content-before)] : the non-empty batches in merge order, per `enter` epoch"""
    out, new, have = [], [], set()
    for j, op in enumerate(ops):
        t = op.split()
        if t[1] in ("ins", "head"): new.append(tuple(int(x) for x in t[3:]))
        elif t[1] == "merge":
            out.append((j, list(new), set(have)))
            have |= {x[:-2] for x in new}
            new = []
    return out


def scenario_classes(ops, ter, flags):
    """which findings the SCENARIO can exhibit, by its structure"""
    cl = set()
    bs = batches(ops)
    # a batch merged into a key (binary: the relation) that already has content
    if any(any(x[:-2] in have for x in new) for _, new, have in bs): cl.add("F12")
    if ter and flags != (0, 0) and any(new for _, new, _ in bs):
        cl.add("F11")
        if "F12" in cl: cl.add("F14")
        cl.add("F18")
    if ter:
        # a key with content receives tuples after a merge that brought it nothing (it left `delta`)
        seen, last = {}, {}
        for n, (_, new, have) in enumerate(bs):
            for k in {x[:-2] for x in new}:
                if k in last and last[k] < n - 1: cl.add("F8")
                last[k] = n
            # tuples already implied (or reflexive on known elements) also make the key leave `delta`
        if any(new for _, new, _ in bs): cl.add("F8w")
    if ter and flags == (1, 1): cl.add("F17")
    return cl


def explain(dev, cl, ter):
    """finding that explains one deviation inside the scenario's classes, or None"""
    j, kind, d = dev
    v = d.get("view")
    rev = v in ("1", "2", "12")
    if kind == "panic":
        # F17 is repaired in the code: a panic of len_estimate is never a known finding again
        if d.get("op") == "merge" and "F8" in cl: return "F8"
        if d.get("op") == "merge" and "F8w" in cl: return "F8"
        if d.get("op") == "snap" and rev and "F18" in cl: return "F18"
        return None
    if kind == "delta-missing":
        if ter and rev and "F14" in cl: return "F14"
        if ter and rev and "F11" in cl: return "F11"
        # F12 loses exactly the reflexive pairs of elements that are new in the batch (their class is a fresh singleton)
        if "F12" in cl and all(t[-1] == t[-2] for t in d["tuples"]): return "F12"
        return None
    if kind == "total-missing":
        if ter and rev and "F11" in cl: return "F11"
        return None
    if kind == "total-extra":
        # premature reflexive pairs: `add_node` of the elements of the batch that has just become delta
        if "F12" in cl and all(t[-1] == t[-2] for t in d["tuples"]): return "F12"
        return None
    if kind == "head":
        # the head test consults contains(): a pair inside one class is never in delta (accepted again), a reflexive pair of an element
        # of the current delta is already in total (rejected)
        if "F12" in cl: return "F12"
        return None
    return None


# ------------------------------------------------------------------ scenarios

def gen_scenario(rng, i, amb_ok=True):
    """one object, a few SCC epochs: batches of ins/head ops, merge, snapshot of every view"""
    ter = rng.chance(1, 2)
    flags = (1, 1)
    if ter and rng.chance(1, 6): flags = rng.choice([(0, 0), (1, 0), (0, 1)])
    n = f"s{i}"
    dom = list(range(1, rng.range(2, 5) + 1))
    keys = [0, 1, 2][:rng.range(1, 3)]
    es, ks = dom + [9], (keys + [7] if ter else [])
    ops = [f"tri mk3 {n} {flags[0]} {flags[1]}" if ter else f"tri mk2 {n}", f"tri enter {n}"]
    snap = f"tri snap {n} " + " ".join(map(str, es)) + (" / " + " ".join(map(str, ks)) if ter else "")
    shape = rng.below(4)       # 0 random, 1 chain growing, 2 ring closed late, 3 few elements dense
    step = [0]
    def pair():
        if shape == 1 or shape == 2:
            a = dom[step[0] % len(dom)]; b = dom[(step[0] + 1) % len(dom)]; step[0] += 1
            if shape == 1 and b < a: a, b = b, a
            if rng.chance(1, 6): a, b = rng.choice(dom), rng.choice(dom)
            return a, b
        a, b = rng.choice(dom), rng.choice(dom)
        if rng.chance(1, 6): b = a
        return a, b
    for r in range(rng.range(1, 6)):
        for _ in range(rng.range(0, 4)):
            x, y = pair()
            t = ([rng.choice(keys)] if ter else []) + [x, y]
            ops.append(f"tri {'head' if rng.chance(2, 3) else 'ins'} {n} " + " ".join(map(str, t)))
        ops.append(f"tri merge {n}")
        ops.append(snap)
        if ter and flags == (1, 1) and rng.chance(1, 3): ops += [f"tri len12 {n} d", f"tri len12 {n} t"]
        if rng.chance(1, 6):
            ops += [f"tri merge {n}", snap, f"tri enter {n}", snap]
    return {"ops": ops, "ter": ter, "flags": flags, "es": es, "ks": ks, "kind": ("ter" if ter else "bin") + f"-shape{shape}"}


def exhaustive_bin(nbatch=2, dom=(1, 2, 3), maxb=2):
    """every sequence of `nbatch` batches of <= maxb pairs over dom (binary), head ops, snapshot after each merge"""
    pairs = [(a, b) for a in dom for b in dom]
    batches_ = [()] + [(p,) for p in pairs] + [pq for pq in itertools.combinations(pairs, 2)] if maxb >= 2 else [()] + [(p,) for p in pairs]
    es = list(dom) + [9]
    i = 0
    for seq in itertools.product(batches_, repeat=nbatch):
        n = f"x{i}"; i += 1
        snap = f"tri snap {n} " + " ".join(map(str, es))
        ops = [f"tri mk2 {n}", f"tri enter {n}"]
        for b in seq:
            ops += [f"tri head {n} {x} {y}" for x, y in b] + [f"tri merge {n}", snap]
        ops += [f"tri merge {n}", snap]
        yield {"ops": ops, "ter": False, "flags": (1, 1), "es": es, "ks": [], "kind": "bin-exh"}
