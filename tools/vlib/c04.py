"""C04 — negation and aggregation see the complete relation, each tuple once."""
from . import core, eng, gen, engcheck

THEOREMS = []
TRUSTED = ["Lean 4.33.0 kernel", "axioms: propext, Classical.choice, Quot.sound only (audited per theorem)",
           "statement: Props/C04.lean", "model Model/Engine.lean (aggTuples: the aggregated relation's stored index entries, full index = distinct tuples, "
           "Vec index = one entry per insertion) tied by compiled stratified programs with count/sum/min/max/not at stratum depth 1-3",
           "duplicate-free inputs and a first run() are hypotheses of the theorems (findings F2, F3, F15 otherwise)"]


def build(rng, tier):
    n = 16 if tier == "quick" else 80
    plist = engcheck.make_programs(rng.fork("c04"), n, genf=gen.gen_agg_program, filt=eng.stratifiable)
    progs, mods, cases = {}, [], []
    for i, p in enumerate(plist):
        pid = f"a{i}"
        progs[pid] = p
        mods.append((pid, eng.rs_module(pid, p)))
        for j in range(8 if tier == "quick" else 40):
            inp = gen.nodup_input(rng.fork(f"{pid}i{j}"), p)
            inst = f"{pid}_{j}"
            cases.append(engcheck.Case(pid, inst, engcheck.std_history(inst, pid, inp), {"inp": inp, "kind": "agg"}))
    return progs, mods, cases


def oracle(c, p, out):
    return engcheck.check_sets(p, out[-1], engcheck.spec_sets(p, c.meta["inp"]))


def check(tier, replay=None):
    return engcheck.run_property("C04", tier, modules=["AscentVerif.Props.C04"], theorems=THEOREMS, trusted=TRUSTED, group="c04",
                                 build=build, oracle=oracle, what="compiled stratified programs with aggregation / negation",
                                 rule="generated relational cores plus aggregation rules (count, sum, min, max, not) at stratum depth 1-3, aggregated relation's "
                                      "columns bound by key variables / constants, wildcarded or aggregated in every mix; duplicate-free inputs; compared with "
                                      "the model and the stratified naive oracle")
