"""C04 — negation and aggregation see the complete relation, each tuple once."""
from . import core, eng, gen, engcheck

THEOREMS = ["agg_view_each_once", "run_agg_eq_model", "agg_sees_final", "run_agg_rows_set", "second_run_duplicates_agg_view", "run_agg_from_eq_model"]
TRUSTED = ["Lean 4.33.0 kernel", "axioms: propext, Classical.choice, Quot.sound only (audited per theorem)",
           "statement: Props/C04.lean", "model Model/Engine.lean (aggTuples: the aggregated relation's stored index entries, full index = distinct tuples, "
           "Vec index = one entry per insertion) tied by compiled stratified programs with count/sum/min/max/not at stratum depth 1-3",
           "duplicate-free inputs and a first run() are hypotheses of the theorems (findings F2, F3, F15 otherwise)"]


def build(rng, tier):
    n = 16 if tier == "quick" else 80
    plist = engcheck.make_programs(rng.fork("c04"), n, genf=gen.gen_agg_program, filt=eng.stratifiable)
    progs, mods, cases = {}, [], []
    for i, p in enumerate(plist):
        pid = f"a{i}"
        progs[pid] = p
        mods.append((pid, eng.rs_module(pid, p)))
        for j in range(8 if tier == "quick" else 40):
            inp = gen.nodup_input(rng.fork(f"{pid}i{j}"), p)
            inst = f"{pid}_{j}"
            cases.append(engcheck.Case(pid, inst, engcheck.std_history(inst, pid, inp), {"inp": inp, "kind": "agg"}))
            if j % 4 == 3:
                # known-finding classes: duplicate rows in the input (F15) and a second run() (F2)
                r2 = rng.fork(f"{pid}d{j}")
                dup = {r: list(rows) + ([rows[0]] if rows and r2.chance(1, 2) else []) for r, rows in inp.items()}
                inst2 = f"{pid}_{j}d"
                cases.append(engcheck.Case(pid, inst2, engcheck.std_history(inst2, pid, dup), {"inp": dup, "kind": "dup-input", "class": "F15"}))
                inst3 = f"{pid}_{j}r"
                cases.append(engcheck.Case(pid, inst3, engcheck.std_history(inst3, pid, inp, [f"eng run {inst3}", f"eng dump {inst3}"]), {"inp": inp, "kind": "rerun", "class": "F2"}))
    return progs, mods, cases


def agg_rels(p):
    return {it[4] for ru in p["rules"] for it in ru["body"] if it[0] == "agg"}


def oracle(c, p, out):
    return engcheck.check_sets(p, out[-1], engcheck.spec_sets(p, c.meta["inp"]))


def known(c, p, impl, model):
    """a failure is attributed to a listed finding only inside its class AND when the bug-faithful model predicts exactly this output"""
    cl = c.meta.get("class")
    if model is None or impl != model: return None
    if cl == "F15" and any(len(c.meta["inp"].get(r, [])) != len(set(c.meta["inp"].get(r, []))) for r in range(len(p["rels"]))):
        return ("F15", "count/sum aggregate over a relation whose input vector repeats a row counts the row per occurrence (statement: each distinct tuple once)")
    if cl == "F2":
        return ("F2", "a second run() re-inserts every row into the Vec-backed indices; aggregates over them (count/sum) see each tuple twice")
    return None


def check(tier, replay=None):
    return engcheck.run_property("C04", tier, modules=["AscentVerif.Props.C04"], theorems=THEOREMS, trusted=TRUSTED, group="c04",
                                 build=build, oracle=oracle, known=known, what="compiled stratified programs with aggregation / negation",
                                 rule="generated relational cores plus aggregation rules (count, sum, min, max, not) at stratum depth 1-3, aggregated relation's "
                                      "columns bound by key variables / constants, wildcarded or aggregated in every mix; duplicate-free inputs; compared with "
                                      "the model and the stratified naive oracle")
