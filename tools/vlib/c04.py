"""C04 — negation and aggregation see the complete relation, each tuple once."""
from . import core, eng, gen, engcheck

THEOREMS = ["agg_view_each_once", "run_agg_eq_model", "agg_sees_final", "run_agg_rows_set", "run_agg_from_eq_model", "agg_view_each_once_from", "run_agg_eq_model_from", "second_run_agg_view_each_once", "second_run_view_witness", "runPhys_agg_eq_model", "runND_agg_spec", "run_is_RunND_agg", "neg_hyps", "aggPlanOk_ixSetsOfA", "planOk_ixSetsOfA", "runPhys_agg_compiled_eq_model", "run_mixed_lattice_key_unique", "run_mixed_lattice_view_once", "agg_over_lattice_one_row_per_key", "agg_item_reads_view_iter", "distAgg_run", "distAgg_intermediate", "run_mixed_closed", "run_mixed_least", "run_mixed_closed_items", "run_mixed_least_items", "distAgg_finalAggView"]
TRUSTED = ["Props/C04Lat.lean (Proofs/AggLatInv.lean): programs with BOTH lattices and aggregation / negation (abstract engine, serial) - for every stratified program an aggregate or negation that ranges over a lattice relation of a "
           "lower stratum reads, at every iteration and rule boundary of its stratum, exactly one row per key of the lattice, carrying the value the lattice has in the FINAL result (agg_over_lattice_one_row_per_key, "
           "agg_item_reads_view_iter); one row per lattice key after run() for ANY program with declared heads (run_mixed_lattice_key_unique, no stratification / order / arity hypothesis); non-vacuity distAgg_run / "
           "distAgg_intermediate (a distance lowered in place from 9 to 7 is never seen by the aggregates); the physical level remains tie-only (agg-over-lattice cases of this check)",
           "Props/C04LatSem.lean (Spec/LatticeLfpAgg.lean, Proofs/AggLatSem*.lean): the SEMANTIC characterisation of stratified programs with lattices AND aggregation / negation (abstract engine, serial, runs from the initial value): the final database is closed under the rules with every aggregate evaluated on the FINAL rows (one row per lattice key) - run_mixed_closed - and, for programs monotone w.r.t. that view, least among the key-unique databases closed for the same view - run_mixed_least; LClosedA / MonotoneProgA coincide with LClosed / MonotoneProg on aggregation-free programs; hypothesis RelInputsNodup as in run_agg_eq_model (the item-wise versions need none)",
           "Lean 4.33.0 kernel", "axioms: propext, Classical.choice, Quot.sound only (audited per theorem)",
           "statement: Props/C04.lean", "model Model/Engine.lean (aggTuples: the aggregated relation's stored index entries, full index = distinct tuples, "
           "Vec index = one entry per insertion) tied by compiled stratified programs with count/sum/min/max/not at stratum depth 1-3",
           "Props/C04Phys.lean (Model/EnginePhys.lean, Proofs/NDAgg*.lean, Proofs/PhysAgg*.lean): the generated code over its PHYSICAL indices with aggregation / negation items (index_get with the "
           "evaluated key arguments on the index the plan chose for the aggregated relation, stored version) computes the stratified model, every aggregation over the final rows, each tuple once "
           "(runPhys_agg_eq_model); every execution of the nondeterministic engine does (runND_agg_spec); hypotheses planOk, aggPlanOk (decidable), Desugared, WellScoped, Stratified, permutation-invariant "
           "aggregators; tied by `eng runp` on every fourth input of this check",
           "duplicate-free row vectors of the start value are a hypothesis of the each-once theorems (finding F15 otherwise); since fix 8b2e261 they hold from any program value (F2, F3 closed)"]


def build(rng, tier):
    n = 16 if tier == "quick" else 80
    plist = engcheck.make_programs(rng.fork("c04"), n, genf=gen.gen_agg_program, filt=eng.stratifiable)
    progs, mods, cases = {}, [], []
    for i, p in enumerate(plist):
        pid = f"a{i}"
        progs[pid] = p
        mods.append((pid, eng.rs_module(pid, p)))
        for j in range(8 if tier == "quick" else 40):
            inp = gen.nodup_input(rng.fork(f"{pid}i{j}"), p)
            afj = gen.agg_first_joins(p)
            if afj and j % 2 == 1:
                a, b, sw = afj[j // 2 % len(afj)]
                inp = gen.skew_join_input(rng.fork(f"{pid}s{j}"), inp, a, b, sw)
            kind = "agg-first-skewed" if afj and j % 2 == 1 else "agg"
            if j % 4 == 2:
                # the inputs already contain tuples that rules derive again (once each: no duplicate rows in any input vector): a head update that
                # pushes an existing row again makes multiplicity-sensitive aggregates over-count
                db = eng.naive_model(p, inp)
                r3 = rng.fork(f"{pid}x{j}")
                inp = {r: list(rows) for r, rows in inp.items()}
                for rel in range(len(p["rels"])):
                    have = set(inp.get(rel, []))
                    extra = [tuple(t) for t in sorted(db.get(rel, ())) if tuple(t) not in have][: r3.range(0, 3)]
                    inp[rel] = list(inp.get(rel, [])) + extra
                kind = "agg-inputs-contain-derivable"
            inst = f"{pid}_{j}"
            hist = engcheck.std_history(inst, pid, inp)
            # every fourth input: the Lean side is the physical-index engine model (`eng runp`, Model/EnginePhys.lean: the aggregation reads the rows through
            # `index_get` on the index the plan chose for it); the real code is the same run()
            if j % 4 == 0: hist = [o.replace("eng run ", "eng runp ") for o in hist]
            cases.append(engcheck.Case(pid, inst, hist, {"inp": inp, "kind": kind + ("/phys" if j % 4 == 0 else "")}))
            if j % 4 == 3:
                # known-finding class: duplicate rows in the input (F15); a second run() (F2, fixed by 8b2e261) must pass
                r2 = rng.fork(f"{pid}d{j}")
                dup = {r: list(rows) + ([rows[0]] if rows and r2.chance(1, 2) else []) for r, rows in inp.items()}
                inst2 = f"{pid}_{j}d"
                cases.append(engcheck.Case(pid, inst2, engcheck.std_history(inst2, pid, dup), {"inp": dup, "kind": "dup-input", "class": "F15"}))
                inst3 = f"{pid}_{j}r"
                cases.append(engcheck.Case(pid, inst3, engcheck.std_history(inst3, pid, inp, [f"eng run {inst3}", f"eng dump {inst3}"]), {"inp": inp, "kind": "rerun", "was": "F2"}))
    # the second entry point: the same aggregation programs compiled with #![generate_run_timeout], interrupted at the k-th clock reading and RESUMED (run() = run_timeout(MAX)),
    # and run to completion twice: every call rebuilds the indices from the rows, so an aggregate sees each row of a finished lower stratum ONCE whatever the entry point and
    # however often it was called (Lean side: `runtop` / `runp` of the physical-index model on odd inputs)
    for i, p in enumerate(plist[: 5 if tier == "quick" else 20]):
        pid = f"at{i}"
        progs[pid] = p
        mods.append((pid, eng.rs_module(pid, p, attrs=("generate_run_timeout",))))
        for j in range(3 if tier == "quick" else 8):
            inp = gen.nodup_input(rng.fork(f"{pid}i{j}"), p)
            for k in ((1, 3) if tier == "quick" else (0, 1, 2, 3, 5)):
                inst = f"{pid}_{j}_{k}"
                rt, rn = ("runtop", "runp") if j % 2 == 1 else ("runto", "run")
                ops = [f"eng new {inst} {pid}"] + engcheck.load_ops(inst, inp) + [f"eng {rt} {inst} {k}", f"eng {rn} {inst}", f"eng dump {inst}", f"eng {rt} {inst} 1000000", f"eng dump {inst}"]
                cases.append(engcheck.Case(pid, inst, ops, {"inp": inp, "kind": "agg-run_timeout-resumed"}))
    # forced shape "aggregate over an EMPTY relation next to a join": the rule has three positive clauses, or two that are not a simple join (so the "some body relation is empty" shortcut is generated)
    # and aggregates / negates a relation that holds NO row at all: count = 0, sum = 0, negation holds - the rule must fire (only POSITIVE clauses may trigger the shortcut)
    ea = {"rels": [{"arity": 1}, {"arity": 1}, {"arity": 2}, {"arity": 2}, {"arity": 1}, {"arity": 2}],
          "rules": [{"heads": [(3, [("var", 0), ("var", 21)])], "body": [("cl", 0, [("v", 0)], []), ("cl", 1, [("v", 0)], []), ("cl", 0, [("v", 1)], []), ("agg", [21], "count", [], 2, [("k", ("var", 0)), "_"])]},
                    {"heads": [(4, [("var", 0)])], "body": [("cl", 0, [("v", 0)], []), ("cl", 1, [("e", ("add", ("var", 0), 0))], []), ("agg", [], "not", [], 2, [("k", ("var", 0)), "_"])]},
                    {"heads": [(5, [("var", 0), ("var", 21)])], "body": [("cl", 0, [("v", 0)], []), ("cl", 1, [("v", 1)], []), ("cl", 1, [("v", 0)], []), ("agg", [21], "sum", [20], 2, [("k", ("var", 0)), ("b", 20)])]}]}
    progs["aempty"] = ea
    mods.append(("aempty", eng.rs_module("aempty", ea)))
    for j in range(6 if tier == "quick" else 20):
        r5 = rng.fork(f"aempty{j}")
        a = [(x,) for x in range(r5.range(1, 5))]
        b = [(x,) for x in range(r5.range(1, 6)) if r5.chance(2, 3)] or [(0,)]
        c = [] if j % 2 == 0 else [(r5.below(4), r5.below(5)) for _ in range(r5.range(1, 3))]
        inp = {0: a, 1: b, 2: list(dict.fromkeys(c))}
        inst = f"aempty_{j}"
        hist = engcheck.std_history(inst, "aempty", inp)
        if j % 3 == 1: hist = [o.replace("eng run ", "eng runp ") for o in hist]
        cases.append(engcheck.Case("aempty", inst, hist, {"inp": inp, "kind": "agg-over-empty-relation"}))
    # forced shape "every column bound": negation / count / sum over a PURE INPUT relation (in no head, no fact) with ALL its columns bound, in a program where no positive clause
    # looks that relation up with all columns bound - the aggregation is the only reader of the relation's FULL index, which update_indices must fill from the rows all the same
    af = {"rels": [{"arity": 1}, {"arity": 1}, {"arity": 2}, {"arity": 2}, {"arity": 1}, {"arity": 3}],
          "rules": [{"heads": [(4, [("var", 0)])], "body": [("cl", 0, [("v", 0)], []), ("agg", [], "not", [], 1, [("k", ("var", 0))])]},
                    {"heads": [(5, [("var", 0), ("var", 1), ("var", 21)])], "body": [("cl", 2, [("v", 0), ("v", 1)], []), ("agg", [21], "count", [], 3, [("k", ("var", 0)), ("k", ("var", 1))])]}]}
    for pid, macro in (("afull", "ascent"), ("afullp", "ascent_par")):
        progs[pid] = af
        mods.append((pid, eng.rs_module(pid, af, macro=macro)))
        for j in range(5 if tier == "quick" else 16):
            r5 = rng.fork(f"afull{j}")
            users = [(x,) for x in range(r5.range(2, 6))]
            banned = [(x,) for x, in users if r5.chance(1, 2)] or [users[0]]
            req = list(dict.fromkeys((r5.below(5), r5.below(4)) for _ in range(r5.range(2, 6))))
            grant = [t for t in req if r5.chance(1, 2)] + [(7, 7)]
            inp = {0: users, 1: banned, 2: req, 3: list(dict.fromkeys(grant))}
            inst = f"{pid}_{j}"
            hist = engcheck.std_history(inst, pid, inp)
            if macro == "ascent_par": hist[0] += f" par {r5.choice([1, 2, 4])}"
            elif j % 3 == 1: hist = [o.replace("eng run ", "eng runp ") for o in hist]
            cases.append(engcheck.Case(pid, inst, hist, {"inp": inp, "kind": "agg-all-columns-bound-over-input" + ("-par" if macro == "ascent_par" else "")}))
    # forced shape "all wildcards": `ok(x) <-- item(x), !blocked(_)`, `!pair(_, _)`, `count() in blocked(_)` - an emptiness test looked up in the KEY-LESS index (under ascent_par! the
    # CRelNoIndex, whose index_get answers Some(empty iterator) for an empty relation), on empty and non-empty relations, serial and parallel
    aw = {"rels": [{"arity": 1}, {"arity": 1}, {"arity": 2}, {"arity": 1}, {"arity": 1}, {"arity": 1}],
          "rules": [{"heads": [(3, [("var", 0)])], "body": [("cl", 0, [("v", 0)], []), ("agg", [], "not", [], 1, ["_"])]},
                    {"heads": [(4, [("var", 0)])], "body": [("cl", 0, [("v", 0)], []), ("agg", [], "not", [], 2, ["_", "_"])]},
                    {"heads": [(5, [("var", 21)])], "body": [("agg", [21], "count", [], 1, ["_"])]}]}
    for pid, macro in (("awild", "ascent"), ("awildp", "ascent_par")):
        progs[pid] = aw
        mods.append((pid, eng.rs_module(pid, aw, macro=macro)))
        for j in range(6 if tier == "quick" else 16):
            r5 = rng.fork(f"awild{j}")
            inp = {0: [(x,) for x in range(r5.range(1, 4))], 1: [] if j % 2 == 0 else [(r5.below(5),)], 2: [] if j % 4 < 2 else [(r5.below(3), r5.below(3))]}
            inst = f"{pid}_{j}"
            hist = engcheck.std_history(inst, pid, inp)
            if macro == "ascent_par": hist[0] += f" par {r5.choice([1, 2, 4])}"
            elif j % 3 == 1: hist = [o.replace("eng run ", "eng runp ") for o in hist]
            cases.append(engcheck.Case(pid, inst, hist, {"inp": inp, "kind": "agg-all-wildcards" + ("-par" if macro == "ascent_par" else "")}))
    # forced shape "nullary and wide aggregated relations": `out(x) <-- a(x), !flag()`, `cnt(n) <-- agg n = count() in flag()` (the aggregated index has the unit key), and
    # count / sum / min over an arity-6 relation with two and with five columns bound
    an = {"rels": [{"arity": 1}, {"arity": 0}, {"arity": 1}, {"arity": 1}, {"arity": 6}, {"arity": 3}, {"arity": 2}],
          "rules": [{"heads": [(2, [("var", 0)])], "body": [("cl", 0, [("v", 0)], []), ("agg", [], "not", [], 1, [])]},
                    {"heads": [(3, [("var", 21)])], "body": [("agg", [21], "count", [], 1, [])]},
                    {"heads": [(5, [("var", 0), ("var", 21), ("var", 22)])], "body": [("cl", 0, [("v", 0)], []), ("agg", [21], "count", [], 4, [("k", ("var", 0)), ("k", ("var", 0)), "_", "_", "_", "_"]),
                                                                                     ("agg", [22], "sum", [20], 4, [("k", ("var", 0)), "_", "_", "_", "_", ("b", 20)])]},
                    {"heads": [(6, [("var", 0), ("var", 21)])], "body": [("cl", 0, [("v", 0)], []), ("agg", [21], "min", [20], 4, [("k", ("var", 0)), ("k", 1), ("k", 1), ("k", ("var", 0)), ("k", 2), ("b", 20)])]}]}
    for pid, macro in (("anul", "ascent"), ("anulp", "ascent_par")):
        progs[pid] = an
        mods.append((pid, eng.rs_module(pid, an, macro=macro)))
        for j in range(5 if tier == "quick" else 16):
            r5 = rng.fork(f"anul{j}")
            rows = list(dict.fromkeys([(x, x, r5.below(2), r5.below(3), r5.below(3), r5.range(1, 9)) for x in range(3) for _ in range(r5.below(3))] + [(x, 1, 1, x, 2, r5.range(1, 9)) for x in range(3) if r5.chance(1, 2)] + [(0, 1, 1, 0, 2, 5)]))
            inp = {0: [(x,) for x in range(r5.range(1, 4))], 1: [()] if j % 2 else [], 4: rows}
            inst = f"{pid}_{j}"
            hist = engcheck.std_history(inst, pid, inp)
            if macro == "ascent_par": hist[0] += f" par {r5.choice([1, 2, 4])}"
            elif j % 3 == 1: hist = [o.replace("eng run ", "eng runp ") for o in hist]
            cases.append(engcheck.Case(pid, inst, hist, {"inp": inp, "kind": "agg-nullary-and-wide" + ("-par" if macro == "ascent_par" else "")}))
    # aggregation over LATTICE relations through a non-unique index (strict subset of the key columns bound): one row per key, also after
    # rows were improved in place (serial mode; the theorems do not cover lattices + aggregation: tie only)
    lat_list = engcheck.make_programs(rng.fork("c04lat"), 8 if tier == "quick" else 40, genf=gen.gen_agg_lat_program,
                                      filt=lambda q: gen.lat_ok(q) and eng.stratifiable(q) and any(it[0] == "agg" for ru in q["rules"] for it in ru["body"]))
    for i, p in enumerate(lat_list):
        pid = f"al{i}"
        progs[pid] = p
        mods.append((pid, eng.rs_module(pid, p)))
        for j in range(6 if tier == "quick" else 20):
            inp = gen.gen_lat_input(rng.fork(f"{pid}i{j}"), p)
            inp = {r: (rows if p["rels"][r].get("lat") else list(dict.fromkeys(rows))) for r, rows in inp.items()}
            inst = f"{pid}_{j}"
            cases.append(engcheck.Case(pid, inst, engcheck.std_history(inst, pid, inp), {"inp": inp, "kind": "agg-over-lattice"}))
    return progs, mods, cases


def agg_rels(p):
    return {it[4] for ru in p["rules"] for it in ru["body"] if it[0] == "agg"}


def oracle(c, p, out):
    return engcheck.check_sets(p, out[-1], engcheck.spec_sets(p, c.meta["inp"]))


def known(c, p, impl, model):
    """a failure is attributed to a listed finding only inside its class AND when the bug-faithful model predicts exactly this output"""
    cl = c.meta.get("class")
    if model is None or impl != model: return None
    if cl == "F15" and any(len(c.meta["inp"].get(r, [])) != len(set(c.meta["inp"].get(r, []))) for r in range(len(p["rels"]))):
        return ("F15", "count/sum aggregate over a relation whose input vector repeats a row counts the row per occurrence (statement: each distinct tuple once)")
    return None


def check(tier, replay=None):
    return engcheck.run_property("C04", tier, modules=["AscentVerif.Props.C04", "AscentVerif.Props.C04Lat", "AscentVerif.Props.C04LatSem", "AscentVerif.Props.C04Phys", "AscentVerif.Proofs.NDAgg", "AscentVerif.Proofs.PhysAggRun", "AscentVerif.Props.C04PhysPlan"], theorems=THEOREMS, trusted=TRUSTED, group="c04",
                                 build=build, oracle=oracle, known=known, what="compiled stratified programs with aggregation / negation",
                                 rule="generated relational cores plus aggregation rules (count, sum, min, max, not) at stratum depth 1-3, aggregated relation's "
                                      "columns bound by key variables / constants, wildcarded or aggregated in every mix; aggregation as the FIRST body item followed by two joined clauses the second of which "
                                      "repeats the aggregate's result (size-skewed inputs: both len_estimate branches); duplicate-free inputs; compared with "
                                      "the model and the stratified naive oracle; plus lattice programs (shortest-path / data-flow shapes) with aggregates over a lattice "
                                      "through a non-unique index")
