def split_top(line):
    """split a line into its top-level s-expression strings"""
    out, depth, cur = [], 0, ""
    for ch in line:
        if ch == "(":
            depth += 1; cur += ch
        elif ch == ")":
            depth -= 1; cur += ch
        elif ch.isspace() and depth == 0:
            if cur: out.append(cur); cur = ""
        else:
            cur += ch
    if cur: out.append(cur)
    return out
