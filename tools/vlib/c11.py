"""C11 — a relation tagged `#[ds(trrel)]` behaves as its explicit transitive closure.

Tie B: generated programs with ONE trrel-tagged relation `t` (binary `t(T,T)` or ternary `t(K,T,T)`) are compiled against
the repository; the explicit-closure twin (`eng.twin`) goes to the Lean engine model and to the naive least-model oracle.
Only plain relations are compared (the tagged relation has no readable `rel` field); observers cover every access pattern.
Tie C: op sequences on the provider itself (`RelIndexMerge` / `RelFullIndexWrite` / index views): `trp …` histories, see tri_scenarios().
"""
import itertools, json, os, re
from . import core, eng, engcheck, tiec

THEOREMS = ["twin_closure_bin", "twin_closure_tern", "tcb_iff_path", "tct_iff_path", "twin_cycle_reflexive_bin", "twin_cycle_reflexive_tern",
            "engine_twin_closure_bin", "engine_twin_closure_tern", "example_reflexive", "example_13", "example_not_31",
            # Props/C11Provider.lean
            "provider_contract_bin", "provider_no_variant_panic", "view0_spec", "view1_spec", "viewNone_spec", "provider_disjoint",
            "deltaSpec_eq_closure_of_acyclic", "spec_after_merge", "trrel_merge_antireflexive_witness", "tern_delta_view1_loses_tuple",
            "tern_delta_view2_loses_tuple", "tern_lenEstimate12_total", "tern_lenEstimate12_empty"]
TRUSTED = ["Lean 4.33.0 kernel", "axioms: propext, Classical.choice, Quot.sound only (audited per theorem)",
           "statements: Props/C11.lean (least model of the explicit-closure twin restricted to t = transitive closure, per key, of the inserted tuples) and "
           "Props/C11Provider.lean (binary provider model simulates the set-level contract under the engine's calling discipline)",
           "tie B: the twin (eng.twin: t untagged + closure rule) is what the Lean engine model and the naive oracle evaluate; the tagged program is what rustc "
           "compiles; only plain relations are compared (the tagged relation's `rel` field is a FakeVec); which index view a clause uses is recomputed in "
           "tools/vlib/c11.py (t_views) after ascent_hir.rs and matters only for the class predicates of the known findings",
           "tie C: Model/TrRelInd.lean hand-written statement by statement after trrel_binary_ind.rs, binary_rel.rs, trrel_ternary_ind.rs, utils.rs; tied by op "
           "sequences on the real types through RelIndexMerge / RelFullIndexWrite / RelFullIndexRead / RelIndexRead / RelIndexReadAll / ToRelIndex / "
           "RelIndexCombined (harness/ds `trp` ops vs Lean driver), every printed line must agree; contract oracle in tools/vlib/c11.py independent of the model",
           "modelled not verified: hashbrown HashMap / HashSet / Vec (association lists, observations compared after sorting), hash iteration order (the two "
           "branches of the local `fn join` are one function in the model), f32 sqrt in len_estimate (Nat.sqrt), the merge loop's termination (fuel), "
           "the stray println! in TrRelIndNone::index_get (fd 1 is redirected while the library runs), MERGE_TIME / MERGE_COUNT statics",
           "known findings F7, F23, F24 are attributed only inside their class predicates (KNOWN_FINDINGS.json) and only when the output is what the defect "
           "explains (tie B: anti-reflexive twin / only tuples lost in relations downstream of a reverse-map view; tie C: bug-faithful model predicts the output)"]

F_REFL, F_REV, F_DIV0 = "F7", "F23", "F24"      # ids in KNOWN_FINDINGS.json
DOM = 6      # element values 0..DOM-1 (head arithmetic guarded)
NIT = 5      # schedule length of the dynamic template


# ================================================================= program templates

class PB:
    """program builder: relation ids by role"""
    def __init__(self, A):
        self.A = A
        self.rels, self.rules, self.role = [], [], {}

    def rel(self, role, arity, **kw):
        self.rels.append(dict(arity=arity, **kw)); self.role[role] = len(self.rels) - 1
        return len(self.rels) - 1

    def rule(self, heads, body):
        self.rules.append({"heads": heads, "body": body})

    def prog(self):
        return {"rels": self.rels, "rules": self.rules, "role": dict(self.role), "A": self.A, "t": self.role["t"]}


def V(n): return ("v", n)
def C(x): return ("e", x)
def cl(r, *args): return ("cl", r, list(args), [])
def hd(r, *exprs): return (r, [("var", e[1]) if isinstance(e, tuple) and e[0] == "v" else e for e in exprs])


def subsets(A, nonempty=False):
    out = []
    for n in range(1 if nonempty else 0, A + 1):
        out += [tuple(c) for c in itertools.combinations(range(A), n)]
    return out


def sname(S): return "".join(map(str, S)) or "n"


def add_probes(b):
    for S in subsets(b.A, nonempty=True): b.rel("pr" + sname(S), len(S))


def pat_body(b, S, t_first=False, sj12=True):
    """body reading t with exactly the columns S bound by a probe relation (S empty: the all-free scan).
    Ternary S = (1,2) with sj12=False: three clauses `pr1(x), pr2(y), t(k,x,y)` (no len_estimate call on the view, see finding F24)"""
    A, t = b.A, b.role["t"]
    vs = [V(j) for j in range(A)]
    if not S: return [cl(t, *vs)]
    if A == 3 and S == (1, 2) and not sj12: return [cl(b.role["pr1"], V(1)), cl(b.role["pr2"], V(2)), cl(t, *vs)]
    pr = cl(b.role["pr" + sname(S)], *[V(j) for j in S])
    return [cl(t, *vs), pr] if t_first else [pr, cl(t, *vs)]


def observer_rules(b, prefix, Ss, t_first=False):
    """`o_S(cols) <-- pr_S(bound cols), t(cols)` for every S (all-free: `o(cols) <-- t(cols)`)"""
    A, t = b.A, b.role["t"]
    vs = [V(j) for j in range(A)]
    for S in Ss:
        o = b.rel(prefix + sname(S), A)
        if not S: b.rule([hd(o, *vs)], [cl(t, *vs)])
        elif t_first: b.rule([hd(o, *vs)], [cl(t, *vs), cl(b.role["pr" + sname(S)], *[V(j) for j in S])])
        else: b.rule([hd(o, *vs)], [cl(b.role["pr" + sname(S)], *[V(j) for j in S]), cl(t, *vs)])


def make_static(rng, A):
    """t fed from input relations in a non-recursive stratum; every access pattern read in later strata"""
    b = PB(A)
    k = [V(9)] if A == 3 else []
    e1, e2 = b.rel("e1", A), b.rel("e2", A)
    add_probes(b)
    t = b.rel("t", A, ds="trrel")
    b.rule([hd(t, *k, V(0), V(1))], [cl(e1, *k, V(0), V(1))])
    if rng.chance(1, 2): b.rule([hd(t, *k, V(1), V(0))], [cl(e2, *k, V(0), V(1))])      # reversed edges: cycles
    else: b.rule([hd(t, *k, V(0), V(1))], [cl(e2, *k, V(0), V(1))])
    if A == 2 and rng.chance(1, 2):
        b.rule([hd(t, V(0), ("add", ("var", 0), 1))], [cl(b.role["pr0"], V(0)), ("if", ("lt", ("var", 0), DOM - 1))])
    observer_rules(b, "o", subsets(A))
    if A == 3:
        # t read with both closure columns bound and the key free, inside a THREE-clause rule (rules with more than two clauses are skipped when some body
        # index answers `is_empty`: with many keys and few elements per column an estimated size of the [1,2] view must not be mistaken for emptiness)
        mk = b.rel("mk", 1)
        b.rule([hd(mk, V(9))], [cl(b.role["pr1"], V(0)), cl(b.role["pr2"], V(1)), cl(t, V(9), V(0), V(1))])
    # constant-bound pattern
    S = rng.choice(subsets(A, nonempty=True))
    consts = {j: rng.range(0, 2) for j in S}
    oc = b.rel("oc", A)
    vs = [C(consts[j]) if j in consts else V(j) for j in range(A)]
    b.rule([(oc, [consts[j] if j in consts else ("var", j) for j in range(A)])], [cl(t, *vs)])
    # reflexive pairs through a repeated variable; t joined with itself; t first in a simple join; t static inside a looping stratum
    orf = b.rel("orf", A - 1); b.rule([hd(orf, *k, V(0))], [cl(t, *k, V(0), V(0))])
    ott = b.rel("ott", A); b.rule([hd(ott, *k, V(0), V(2))], [cl(t, *k, V(0), V(1)), cl(t, *k, V(1), V(2))])
    observer_rules(b, "f", rng.shuffle(subsets(A, nonempty=True))[:2], t_first=True)
    reach = b.rel("reach", A - 1)
    b.rule([hd(reach, *k, V(0))], [cl(b.role["pr01" if A == 3 else "pr0"], *k, V(0))])
    b.rule([hd(reach, *k, V(1))], [cl(reach, *k, V(0)), cl(t, *k, V(0), V(1))])
    return b.prog()


def make_dynamic(rng, A, sj12=False):
    """t in a looping stratum: facts arrive by schedule `sched(i, tuple)` at iteration i (cnt advances once per iteration),
    every access pattern is read INSIDE the stratum (observers feed back into t).
    sj12: read the ternary view [1,2] as a clause of a reorderable simple join (finding F24: divides by zero while the version is
    empty, i.e. always in the first iteration); otherwise through a three-clause join `pr1(x), pr2(y), t(k,x,y)`"""
    b = PB(A)
    k = [V(9)] if A == 3 else []
    vs = [V(j) for j in range(A)]
    start, sched, sym, e2 = b.rel("start", 1), b.rel("sched", A + 1), b.rel("sym", 1), b.rel("e2", A)
    add_probes(b)
    t = b.rel("t", A, ds="trrel")
    cnt, gate = b.rel("cnt", 1), b.rel("gate", 1)
    b.rule([hd(cnt, V(0))], [cl(start, V(0))])
    b.rule([(gate, [0])], [cl(start, V(0))])
    b.rule([(gate, [1])], [cl(t, *vs)])
    b.rule([(cnt, [("add", ("var", 0), 1)])], [cl(cnt, V(0)), cl(gate, V(1)), ("if", ("lt", ("var", 0), NIT))])
    b.rule([hd(t, *vs)], [cl(cnt, V(8)), cl(sched, V(8), *vs)])
    Ss = subsets(A)
    for S in Ss:
        m = b.rel("m" + sname(S), A)
        b.rule([hd(m, *vs)], pat_body(b, S, t_first=rng.chance(1, 4), sj12=sj12))
        b.rule([hd(t, *vs)], [cl(m, *vs)])
    g = rng.below(3)
    if g == 0:      # symmetrise part of what an in-stratum observer saw: cycles appear over the iterations
        S = rng.choice(Ss)
        b.rule([hd(t, *k, V(1), V(0))], [cl(b.role["m" + sname(S)], *k, V(0), V(1)), cl(sym, V(0))])
    elif g == 1:    # extend what an in-stratum observer saw by input edges
        S = rng.choice(Ss)
        b.rule([hd(t, *k, V(1), V(2))], [cl(b.role["m" + sname(S)], *k, V(0), V(1)), cl(e2, *k, V(1), V(2))])
    observer_rules(b, "o", [S for S in rng.shuffle(Ss) if S != (1, 2) or A == 2][:3])
    orf = b.rel("orf", A - 1); b.rule([hd(orf, *k, V(0))], [cl(t, *k, V(0), V(0))])
    return b.prog()


def make_demand(rng, A):
    """natural recursion through t: edges are inserted only from nodes found reachable so far"""
    b = PB(A)
    k = [V(9)] if A == 3 else []
    vs = [V(j) for j in range(A)]
    src, e1 = b.rel("src", A - 1), b.rel("e1", A)
    add_probes(b)
    t = b.rel("t", A, ds="trrel")
    s = b.rel("s", A - 1)
    b.rule([hd(s, *k, V(0))], [cl(src, *k, V(0))])
    b.rule([hd(t, *k, V(0), V(1))], [cl(s, *k, V(0)), cl(e1, *k, V(0), V(1))])
    b.rule([hd(s, *k, V(1))], [cl(s, *k, V(0)), cl(t, *k, V(0), V(1))])
    for S in rng.shuffle(subsets(A))[:3]:
        m = b.rel("m" + sname(S), A)
        b.rule([hd(m, *vs)], pat_body(b, S, sj12=False))
        b.rule([hd(s, *k, V(1))], [cl(m, *k, V(0), V(1))])
    observer_rules(b, "o", [()] + rng.shuffle(subsets(A, nonempty=True))[:2])
    orf = b.rel("orf", A - 1); b.rule([hd(orf, *k, V(0))], [cl(t, *k, V(0), V(0))])
    return b.prog()


TEMPLATES = {"static": make_static, "dynamic": make_dynamic, "demand": make_demand}


# ================================================================= inputs

def gen_graph(rng, shape, n):
    """edge list over nodes 0..n-1"""
    nodes = list(range(n))
    if shape == "empty": return []
    if shape == "chain": return [(i, i + 1) for i in range(n - 1)]
    if shape == "dag": return [(i, j) for i in nodes for j in nodes if i < j and rng.chance(1, 3)] or [(0, 1)]
    if shape == "cycle": return [(i, (i + 1) % n) for i in nodes]
    if shape == "cycle_tail":
        c = max(2, n - 2)
        return [(i, (i + 1) % c) for i in range(c)] + [(c - 1, c)] + ([(c, c + 1)] if c + 1 < n else [])
    if shape == "selfloop": return [(i, i) for i in nodes if rng.chance(1, 2)] + [(i, i + 1) for i in range(n - 1) if rng.chance(1, 2)] or [(0, 0)]
    if shape == "two_cycles": return [(0, 1), (1, 0), (1, 2)] + ([(2, 3), (3, 2)] if n >= 4 else [])
    return [(rng.below(n), rng.below(n)) for _ in range(rng.range(2, 2 * n))]      # dense random


SHAPES = ["chain", "dag", "cycle", "cycle_tail", "selfloop", "two_cycles", "random", "random", "empty"]


def gen_c11_input(rng, p, shape=None, many=None):
    A, role = p["A"], p["role"]
    n = rng.range(3, DOM)
    keys = [0] if A == 2 else rng.shuffle([0, 1, 2])[:rng.range(1, 3)]
    many = (A == 3 and rng.chance(1, 4)) if many is None else (many and A == 3)
    edges = []
    if many:
        # MANY keys sharing one tiny graph (a single edge, or a chain of two edges): few distinct elements per column against many keys
        keys = list(range(rng.range(26, 32)))
        a = rng.below(n - 2)
        small = [(a, a + 1)] + ([(a + 1, a + 2)] if rng.chance(1, 2) else [])
        edges = [(kk,) + e for kk in keys for e in small]
    for kk in ([] if many else keys):
        sh = shape or rng.choice(SHAPES)
        for (x, y) in dict.fromkeys(gen_graph(rng.fork(f"g{kk}"), sh, n)):
            edges.append(((kk,) if A == 3 else ()) + (x, y))
    inp = {r: [] for r in range(len(p["rels"])) if not p["rels"][r].get("ds")}
    vals = list(range(n))
    def tuples(S):
        """candidate probe tuples for column set S"""
        doms = [keys + [7] if (A == 3 and j == 0) else vals for j in S]
        return [tuple(x) for x in itertools.product(*doms)]
    for S in subsets(A, nonempty=True):
        r = role["pr" + sname(S)]
        cand = tuples(S)
        mode = rng.below(4)
        inp[r] = cand if (mode == 0 or (many and S in ((1,), (2,)))) else ([] if mode == 1 and rng.chance(1, 3) else [c for c in cand if rng.chance(1, 2)])
    if "e1" in role and "e2" in role and "sched" not in role:
        for e in edges: inp[role["e1" if rng.chance(2, 3) else "e2"]].append(e)
    elif "e1" in role: inp[role["e1"]] = list(edges)
    if "sched" in role:
        # facts arrive over the iterations; per key a random set of active iterations (keys pause and resume)
        active = {kk: [i for i in range(NIT + 1) if rng.chance(1, 2)] or [0] for kk in keys}
        if rng.chance(1, 3): active = {kk: [0] for kk in keys}        # everything in one batch
        for e in edges:
            kk = e[0] if A == 3 else 0
            if rng.chance(1, 4): inp[role["e2"]].append(e)
            else: inp[role["sched"]].append((rng.choice(active[kk]),) + e)
        inp[role["start"]] = [(0,)]
        inp[role["sym"]] = [(v,) for v in vals if rng.chance(1, 3)]
    if "src" in role:
        inp[role["src"]] = [((kk,) if A == 3 else ()) + (rng.below(n),) for kk in keys for _ in range(rng.range(1, 2))]
    return {r: list(dict.fromkeys(rows)) for r, rows in inp.items()}


# ================================================================= the Rust module of a tagged program

RUN_FN = """      fn run(&mut self) {
         // the provider prints to stdout (stray println! in TrRelIndNone::index_get): keep fd 1 clean while the program runs
         use std::io::Write;
         use std::os::unix::io::AsRawFd;
         extern "C" { fn dup(fd: i32) -> i32; fn dup2(a: i32, b: i32) -> i32; fn close(fd: i32) -> i32; }
         struct Restore(i32);
         impl Drop for Restore { fn drop(&mut self) { std::io::stdout().flush().ok(); unsafe { dup2(self.0, 1); close(self.0); } } }
         std::io::stdout().flush().ok();
         let null = std::fs::OpenOptions::new().write(true).open("/dev/null").unwrap();
         let _g = unsafe { let saved = dup(1); dup2(null.as_raw_fd(), 1); Restore(saved) };
         self.p.run()
      }"""


def rs_module_tagged(pid, p):
    txt = eng.rs_module(pid, p)
    t = p["t"]
    out = []
    for line in txt.split("\n"):
        if re.match(rf"\s+{t} => \{{ let v: Vec<", line): line = f"         {t} => return None,"
        if line.startswith("      fn run(&mut self)"): line = RUN_FN
        out.append(line)
    return "\n".join(out)


# ================================================================= access-pattern analysis (class predicates of the findings)

def is_plain_var_clause(it): return it[0] == "cl" and all(a[0] == "v" for a in it[2]) and not it[3]


def t_views(p):
    """[(rule index, bound column tuple, clause of a reorderable simple join?)] for every body clause on t, as ascent_hir chooses the
    index: columns holding a non-variable or an already grounded variable; first clause of a simple join: columns shared with the second"""
    t = p["t"]
    out = []
    for ri, ru in enumerate(p["rules"]):
        body = ru["body"]
        first = next((i for i, it in enumerate(body) if it[0] == "cl"), None)
        simple = (first is not None and first + 1 < len(body) and body[first + 1][0] == "cl" and is_plain_var_clause(body[first]) and
                  is_plain_var_clause(body[first + 1]) and len({a[1] for a in body[first + 1][2]}) == len(body[first + 1][2]) and
                  len({a[1] for a in body[first][2]}) == len(body[first][2]))
        grounded = set()
        for i, it in enumerate(body):
            if it[0] == "cl":
                cols = [j for j, a in enumerate(it[2]) if a[0] != "v" or a[1] in grounded]
                # (a variable repeated inside one clause is desugared into a fresh variable plus an equality test: not an index column)
                if i == first and simple:
                    nxt = {a[1] for a in body[first + 1][2]}
                    cols = [j for j, a in enumerate(it[2]) if a[1] in nxt]
                if it[1] == t: out.append((ri, tuple(cols), bool(simple and first == 0 and i in (first, first + 1))))
                grounded |= {a[1] for a in it[2] if a[0] == "v"}
                for c in it[3]:
                    if c[0] in ("let", "iflet"): grounded.add(c[1])
            elif it[0] in ("let", "iflet", "for"): grounded.add(it[1])
    return out


def t_scc(p):
    """(relations of t's stratum, looping?) in the TAGGED program (the closure rules are not rules of the program)"""
    t = p["t"]
    comp = next(c for c in eng.rel_sccs(p) if t in c)
    looping = len(comp) > 1 or any(any(h in comp for h, _ in ru["heads"]) and any(it[0] == "cl" and it[1] in comp for it in ru["body"]) for ru in p["rules"])
    return comp, looping


def downstream(p, start):
    """relations depending (transitively) on any relation in `start`"""
    out = set(start)
    ch = True
    while ch:
        ch = False
        for ru in p["rules"]:
            if any(it[0] == "cl" and it[1] in out for it in ru["body"]):
                for h, _ in ru["heads"]:
                    if h not in out: out.add(h); ch = True
    return out


REV_VIEWS = {(1,), (2,), (1, 2)}      # ternary views answered through reverse_map1 / reverse_map2


def f14_tainted(p):
    """F23 class: ternary tagged relation, dynamic in a looping stratum, read INSIDE that stratum through a view with column 1 or 2
    bound and column 0 free. Returns the set of relations whose content may be affected (heads of such rules and everything downstream)."""
    if p["A"] != 3: return set()
    comp, looping = t_scc(p)
    if not looping: return set()
    heads = set()
    for ri, cols, _ in t_views(p):
        ru = p["rules"][ri]
        if cols in REV_VIEWS and any(h in comp for h, _ in ru["heads"]):
            heads |= {h for h, _ in ru["heads"]}
    return downstream(p, heads) if heads else set()


def f17_class(p, t_empty):
    """F24 class: the ternary view [1,2] is a clause of a reorderable two-clause simple join (generated code asks both clauses for
    len_estimate()) and the version read has no key at that moment: the rule is in t's own looping stratum (first iteration: total and
    the carried-over delta are empty on a first run) or t is empty when a later stratum reads it"""
    if p["A"] != 3: return False
    comp, looping = t_scc(p)
    for ri, cols, sj in t_views(p):
        if cols == (1, 2) and sj:
            if t_empty or (looping and any(h in comp for h, _ in p["rules"][ri]["heads"])): return True
    return False


def antireflexive_twin(p):
    """bug-faithful reading of F7: closure rule t(x,z) <-- t(x,y), t(y,z), if x != z"""
    q = eng.twin(p)
    n = len(p["rules"])
    q["rules"] = q["rules"][:n] + [{"heads": ru["heads"], "body": ru["body"] + [("if", ("ne", ("var", 0), ("var", 2)))]} for ru in q["rules"][n:]]
    return q


def implied_reflexive(p, inp, db=None):
    """F7 class: the closure of t contains a pair (x,x) that the bug-faithful (anti-reflexive) closure lacks, i.e. one implied by a cycle only"""
    t = p["t"]
    full = db or eng.naive_model(eng.twin(p), inp)
    anti = eng.naive_model(antireflexive_twin(p), inp)
    return any(tp[-1] == tp[-2] and tp not in anti[t] for tp in full[t]), anti


# ================================================================= tie B: build / oracle / known

TAGGED = {}      # pid -> tagged program (the checker hands the twin to oracle/known)


def build(rng, tier):
    quick = tier == "quick"
    N = 8 if quick else 30
    plan = [("static", 2, {}, N), ("static", 3, {}, N), ("dynamic", 2, {}, N), ("dynamic", 3, {}, N), ("demand", 2, {}, N), ("demand", 3, {}, N),
            ("dynamic", 3, {}, N), ("dynamic", 3, {"sj12": True}, 2)]
    if not quick: plan = plan * 5
    progs, mods, cases = {}, [], []
    for i, (tmpl, A, opts, ninp) in enumerate(plan):
        pid = f"t{i}"
        p = TEMPLATES[tmpl](rng.fork(f"prog{i}"), A, **opts)
        TAGGED[pid] = p
        progs[pid] = eng.twin(p)
        mods.append((pid, rs_module_tagged(pid, p)))
        for j in range(ninp):
            r2 = rng.fork(f"{pid}i{j}")
            shape = SHAPES[j] if j < len(SHAPES) else None       # every shape at least once per program, then mixed per key
            inp = gen_c11_input(r2, p, shape, many=(True if (A == 3 and j in (1, 5)) else None))
            inst = f"{pid}_{j}"
            kind = f"{tmpl}{A}"
            if j % 4 == 3:
                # facts arriving over several run() calls as well: run, push more facts, run
                extra = gen_c11_input(r2.fork("x"), p)
                ops = engcheck.std_history(inst, pid, inp)
                union = {r: list(v) for r, v in inp.items()}
                for r, rows in sorted(extra.items()):
                    rows = [x for x in rows if x not in union[r]][:4]
                    if rows and p["rels"][r]["arity"] > 1:
                        ops.append(f"eng push {inst} r{r}" + "".join(" " + eng.sx_tuple(x) for x in rows)); union[r] += rows
                ops += [f"eng run {inst}", f"eng dump {inst}"]
                cases.append(engcheck.Case(pid, inst, ops, {"inp": inp, "inp2": union, "kind": kind + "-rerun"}))
            else:
                cases.append(engcheck.Case(pid, inst, engcheck.std_history(inst, pid, inp), {"inp": inp, "kind": kind}))
    # duplicate- and absence-sensitive readers of a binary trrel relation in later strata (count / sum with one column bound, negation with both / one column bound), on
    # ACYCLIC graphs (finding F7 - pairs (x, x) implied only by a cycle - is listed once, by the streams above)
    for i in range(2 if quick else 5):
        b = PB(2)
        e1 = b.rel("e1", 2); b.rel("e2", 2); add_probes(b)
        t = b.rel("t", 2, ds="trrel")
        b.rule([hd(t, V(0), V(1))], [cl(e1, V(0), V(1))])
        ocnt = b.rel("ocnt", 2); b.rule([(ocnt, [("var", 0), ("var", 21)])], [cl(b.role["pr1"], V(0)), ("agg", [21], "count", [], t, ["_", ("k", ("var", 0))] if i % 2 == 0 else [("k", ("var", 0)), "_"])])
        osum = b.rel("osum", 2); b.rule([(osum, [("var", 0), ("var", 21)])], [cl(b.role["pr0"], V(0)), ("agg", [21], "sum", [20], t, [("k", ("var", 0)), ("b", 20)])])
        oneg = b.rel("oneg", 2); b.rule([(oneg, [("var", 0), ("var", 1)])], [cl(b.role["pr0"], V(0)), cl(b.role["pr1"], V(1)), ("agg", [], "not", [], t, [("k", ("var", 0)), ("k", ("var", 1))])])
        oiso = b.rel("oiso", 1); b.rule([(oiso, [("var", 0)])], [cl(b.role["pr0"], V(0)), ("agg", [], "not", [], t, [("k", ("var", 0)), "_"])])
        p = b.prog()
        pid = f"tan{i}"
        TAGGED[pid] = p
        progs[pid] = eng.twin(p)
        mods.append((pid, rs_module_tagged(pid, p)))
        for j in range(5 if quick else 14):
            r2 = rng.fork(f"{pid}i{j}")
            n = r2.range(4, 7)
            edges = list(dict.fromkeys((a, bb) for a, bb in ((r2.below(n), r2.below(n)) for _ in range(r2.range(2, 7))) if a < bb)) or [(0, 1)]
            inp = {r: [] for r in range(len(p["rels"])) if not p["rels"][r].get("ds")}
            inp[e1] = edges
            inp[b.role["pr0"]] = [(x,) for x in range(n)]
            inp[b.role["pr1"]] = [(x,) for x in range(n)]
            inst = f"{pid}_{j}"
            cases.append(engcheck.Case(pid, inst, engcheck.std_history(inst, pid, inp), {"inp": inp, "kind": "aggneg-acyclic"}))
    for n, (fn, rec) in enumerate(core.corpus("C11")):
        if "program" not in rec: continue
        pid = f"w{n}"
        p = eng.from_json(rec["program"])
        p = {"rels": [dict(d) for d in p["rels"]], "rules": [{"heads": [(h[0], list(h[1])) for h in ru["heads"]], "body": [corpus_item(it) for it in ru["body"]]} for ru in p["rules"]],
             "role": dict(p["role"]), "A": p["A"], "t": p["t"]}
        inp = {r: [tuple(x) for x in rec["input"].get(r, rec["input"].get(str(r), []))] for r in range(len(p["rels"])) if not p["rels"][r].get("ds")}
        TAGGED[pid] = p
        progs[pid] = eng.twin(p)
        mods.append((pid, rs_module_tagged(pid, p)))
        cases.append(engcheck.Case(pid, pid + "_0", engcheck.std_history(pid + "_0", pid, inp), {"inp": inp, "kind": "corpus", "file": fn}))
    return progs, mods, cases


def corpus_item(it):
    if it[0] == "cl": return ("cl", it[1], list(it[2]), list(it[3]))
    return it


def mask(c, lines):
    """compare plain relations only: the tagged relation's own dump segment is dropped on both sides"""
    t = TAGGED[c.pid]["t"]
    out = []
    for l in lines:
        if l.startswith("r0:"):
            l = " | ".join(seg for seg in l.split(" | ") if not seg.startswith(f"r{t}:"))
        out.append(l)
    return out


def compare(p, dump, spec, only=None):
    """plain relations of a dump against a model {rel: set(tuple text)}"""
    if not dump.startswith("r0:"): return f"run/dump failed: {dump}"
    sets, _ = engcheck.dump_sets(dump)
    for rel in range(len(p["rels"])):
        if rel == p["t"] or (only is not None and rel not in only): continue
        got, exp = sets.get(rel, set()), spec[rel]
        if got != exp:
            name = next(k for k, v in p["role"].items() if v == rel)
            return f"relation r{rel} ({name}): missing {sorted(exp - got)[:5]} unexpected {sorted(got - exp)[:5]} (expected {len(exp)} tuples)"
    return None


def text_sets(db, n): return {r: {eng.sx_tuple(x) for x in db.get(r, ())} for r in range(n)}


def stages(c, out):
    """[(input, dump line)] for every run of the history"""
    dumps = [l for l, o in zip(out, c.ops) if o.startswith("eng dump")]
    inps = [c.meta["inp"]] + ([c.meta["inp2"]] if "inp2" in c.meta else [])
    return list(zip(inps, dumps))


def oracle(c, twin, out):
    p = TAGGED[c.pid]
    for l in out:
        if l.startswith("panic") or l in BAD: return f"history failed: {l}"
    for k, (inp, dump) in enumerate(stages(c, out)):
        w = compare(p, dump, text_sets(eng.naive_model(twin, inp), len(p["rels"])))
        if w: return (f"run {k + 1}: " if k else "") + w
    return None


BAD = ("bad-op", "bad-line", "no-output(crash)")


def known(c, twin, impl, model):
    """attribute a failure to a listed finding only inside its class predicate, and only if the output is what the defect explains"""
    p = TAGGED[c.pid]
    n = len(p["rels"])
    bad = next((i for i, l in enumerate(impl) if l.startswith("panic") or l in BAD), None)
    st = stages(c, impl)
    f17 = False
    if bad is not None: return None        # F24 (len_estimate dividing by zero) is repaired in the code: a panic is never a known finding
    tainted = f14_tainted(p)
    f7 = f14 = False
    for inp, dump in st:
        full = eng.naive_model(twin, inp)
        refl, anti = implied_reflexive(p, inp, full)
        base = text_sets(anti if refl else full, n)
        # relations the defects cannot reach must be exact (bug-faithful model of F7: the anti-reflexive closure)
        if compare(p, dump, base, only=set(range(n)) - tainted): return None
        if refl and compare(p, dump, text_sets(full, n)) and not compare(p, dump, base): f7 = True      # exactly the anti-reflexive model
        if tainted:
            sets, _ = engcheck.dump_sets(dump)
            if any(not sets.get(r, set()) <= base[r] for r in tainted if r != p["t"]): return None      # F23 only loses tuples
            if compare(p, dump, base, only=tainted): f14 = True
    if f17:
        return (F_DIV0, "ternary trrel view [1,2] in a reorderable simple join: TrRel2Ind1_2::len_estimate divides by "
                       "(map.len() as f32).sqrt() as usize, which is 0 while the version has no key -> panic `attempt to divide by zero`")
    if f14:
        return (F_REV, "ternary trrel read inside its own looping stratum through a view with column 1 or 2 bound and column 0 free: the delta's "
                       "reverse maps list only this round's inserted columns, closure-derived delta tuples are not found (tuples lost, never spurious)")
    if f7:
        return (F_REFL, "pairs (x,x) implied by a cycle are missing from the trrel relation (anti_reflexive is constantly true); "
                      "output equals the least model of the closure rule guarded by x != z")
    return None


# ================================================================= tie C: the provider's (new, delta, total) triple

VIEWS = {"b": ["n", "0", "1", "01"], "t11": ["n", "0", "1", "2", "01", "02", "12", "012"], "t00": ["n", "0", "01", "02", "012"]}
F14_VIEWS = ("1", "2", "12")


def vcols(view): return () if view == "n" else tuple(int(ch) for ch in view)


def closure(pairs):
    """transitive closure of a set of (x, y)"""
    c = set(pairs)
    ch = True
    while ch:
        ch = False
        for (a, b) in list(c):
            for (b2, d) in list(c):
                if b == b2 and (a, d) not in c: c.add((a, d)); ch = True
    return c


def closure_k(tuples, A, anti=False):
    """per-key transitive closure of A-ary tuples; anti: the bug-faithful reading of F7 (derived pairs (x,x) are dropped)"""
    bykey = {}
    for tp in tuples: bykey.setdefault(tp[:-2], set()).add(tp[-2:])
    out = set()
    for k, ps in bykey.items():
        for (x, y) in closure(ps):
            if anti and x == y and (x, y) not in ps: continue
            out.add(k + (x, y))
    return out


def ptuple(s): return () if s == "()" else tuple(int(x) for x in s.split(":"))
def pvals(s): return [ptuple(x) for x in s.split(";")] if s else []


def pget(s):
    if s == "none": return None
    if s.startswith("some[") and s.endswith("]"): return pvals(s[5:-1])
    raise ValueError(s)


def pall(s):
    if not (s.startswith("all[") and s.endswith("]")): raise ValueError(s)
    body = s[4:-1]
    out = []
    for e in (body.split("|") if body else []):
        k, _, v = e.partition(">")
        out.append((ptuple(k), pvals(v)))
    return out


def assemble(view, key, val, A):
    cols = vcols(view)
    t, ki, vi = [], 0, 0
    for j in range(A):
        if j in cols: t.append(key[ki]); ki += 1
        else: t.append(val[vi]); vi += 1
    return tuple(t)


def tuples_over(dom, n): return [tuple(x) for x in itertools.product(dom, repeat=n)]


class TriSpec:
    """the provider contract as sets of tuples: add/ins fill `new`; merge: total' = total + delta,
    delta' = closure(total + delta + new) - total' (per key); views answer by selection/projection"""
    def __init__(self, kind, anti=False):
        self.kind, self.A, self.anti = kind, 2 if kind == "b" else 3, anti
        self.N, self.D, self.T = set(), set(), set()

    def merge(self):
        allt = self.T | self.D | self.N
        self.T = self.T | self.D
        self.D = closure_k(allt, self.A, self.anti) - self.T
        self.N = set()

    def ver(self, v): return {"new": self.N, "delta": self.D, "total": self.T, "td": self.T | self.D}[v]

    def check_all(self, ver, view, text):
        got = [assemble(view, k, v, self.A) for k, vs in pall(text) for v in vs]
        exp = self.ver(ver)
        if len(got) != len(set(got)): return f"{ver}.{view}.all lists a tuple twice"
        if set(got) != exp: return f"{ver}.{view}.all: missing {sorted(exp - set(got))[:4]} unexpected {sorted(set(got) - exp)[:4]}"

    def check_get(self, ver, view, key, text):
        got = pget(text) or []
        cols = vcols(view)
        exp = [tuple(x for j, x in enumerate(tp) if j not in cols) for tp in self.ver(ver) if all(tp[c] == key[i] for i, c in enumerate(cols))]
        if len(got) != len(set(got)): return f"{ver}.{view}.get{key} lists a value twice"
        if set(got) != set(exp): return f"{ver}.{view}.get{key}: missing {sorted(set(exp) - set(got))[:4]} unexpected {sorted(set(got) - set(exp))[:4]}"


def tri_judge(ops, outs, anti=False):
    """complaints [(op index, ver, view, text)] of a history against the contract (one object per history)"""
    bad = []
    sp = None
    for j, (op, o) in enumerate(zip(ops, outs)):
        t = op.split()
        k, a = t[1], t[3:]
        try:
            if o == "panic": bad.append((j, "-", "-", f"`{op}` panics")); break
            if k == "mk":
                sp = TriSpec(a[0], anti)
                if o != "ok": bad.append((j, "-", "-", f"`{op}` -> {o}"))
            elif k in ("add", "ins"):
                v = tuple(int(x) for x in a)
                exp = "dup" if (k == "add" and v in sp.T | sp.D) else str(v not in sp.N).lower()
                if o != exp: bad.append((j, "new", "-", f"`{op}` -> {o}, expected {exp}"))
                if exp != "dup": sp.N.add(v)
            elif k == "merge":
                sp.merge()
                if o != "ok": bad.append((j, "-", "-", f"`{op}` -> {o}"))
            elif k == "restart":
                sp.N, sp.D, sp.T = set(), set(sp.T), set()
                if o != "ok": bad.append((j, "-", "-", f"`{op}` -> {o}"))
            elif k == "has":
                exp = str(tuple(int(x) for x in a[1:]) in sp.ver(a[0])).lower()
                if o != exp: bad.append((j, a[0], "has", f"`{op}` -> {o}, expected {exp}"))
            elif k == "get":
                w = sp.check_get(a[0], a[1], tuple(int(x) for x in a[2:]), o)
                if w: bad.append((j, a[0], a[1], w))
            elif k == "all":
                w = sp.check_all(a[0], a[1], o)
                if w: bad.append((j, a[0], a[1], w))
            elif k == "empty":
                if o == "true" and sp.ver(a[0]): bad.append((j, a[0], a[1], f"`{op}` says empty but the version holds {len(sp.ver(a[0]))} tuples"))
                elif o not in ("true", "false"): bad.append((j, a[0], a[1], f"`{op}` -> {o}"))
            elif k == "lenest12":
                if not o.isdigit(): bad.append((j, a[0], "12", f"`{op}` -> {o}"))
            elif k == "snap":
                dom = [int(x) for x in a]
                if not o.startswith("snap "): bad.append((j, "-", "-", f"`{op}` -> {o[:40]}")); continue
                for item in o.split()[1:]:
                    head, _, payload = item.partition("=")
                    parts = head.split(".")
                    if parts[1] == "has":
                        exp = "".join("1" if tp in sp.ver(parts[0]) else "0" for tp in tuples_over(dom, sp.A))
                        if payload != exp: bad.append((j, parts[0], "has", f"{head}: {payload}, expected {exp}"))
                    elif parts[2] == "all":
                        w = sp.check_all(parts[0], parts[1], payload)
                        if w: bad.append((j, parts[0], parts[1], w))
                    else:
                        keys = tuples_over(dom, len(vcols(parts[1])))
                        gets = payload.split(",")
                        if len(gets) != len(keys): bad.append((j, parts[0], parts[1], f"{head}: {len(gets)} answers for {len(keys)} keys")); continue
                        for key, g in zip(keys, gets):
                            w = sp.check_get(parts[0], parts[1], key, g)
                            if w: bad.append((j, parts[0], parts[1], w)); break
            else:
                bad.append((j, "-", "-", f"unknown op `{op}`"))
        except (ValueError, IndexError, KeyError) as ex:
            bad.append((j, "-", "-", f"`{op}` -> malformed output {o[:60]!r} ({ex})"))
    return bad


def tri_oracle(ops, outs):
    bad = tri_judge(ops, outs)
    return None if not bad else f"op {bad[0][0]}: {bad[0][3]}" + (f" (+{len(bad) - 1} more)" if len(bad) > 1 else "")


def tri_known(ops, impl, model):
    """known findings on the provider level: every complaint of the contract oracle must fall into a finding's class AND the
    bug-faithful Lean model must predict exactly this output"""
    if model is None or impl != model: return None
    kind = ops[0].split()[3]
    if not tri_judge(ops, impl): return None
    rest = tri_judge(ops, impl, anti=True)          # what the anti-reflexive reading (F7) does not explain
    f17 = False
    pan = [b for b in rest if "panics" in b[3]]
    if pan: return None              # F24 is repaired in the code: a panic is never a known finding
    f14 = bool(rest)
    if f14 and not (kind == "t11" and all(b[1] in ("delta", "td") and b[2] in F14_VIEWS for b in rest)): return None
    sp = TriSpec(kind)
    tri_replay(sp, ops)
    if tri_judge(ops, impl) != tri_judge(ops, impl, anti=True) and not sp.cycle: return None      # F7 class: an implied (x,x) exists
    if f17: return (F_DIV0, "TrRel2Ind1_2::len_estimate on a version without keys panics (division by zero)")
    if f14: return (F_REV, "ternary trrel: the delta's views [1], [2], [1,2] miss closure-derived tuples whose column was inserted in an earlier round")
    return (F_REFL, "pairs (x,x) implied by a cycle are missing from delta/total (anti_reflexive constantly true)")


def tri_replay(sp, ops, full=False):
    """run the contract over a history prefix; sp.cycle: some merge's closure contained an implied (x,x)"""
    sp.cycle = False
    for op in ops:
        t = op.split()
        k, a = t[1], t[3:]
        if k in ("add", "ins"):
            v = tuple(int(x) for x in a)
            if not (k == "add" and v in sp.T | sp.D): sp.N.add(v)
        elif k == "merge":
            allt = sp.T | sp.D | sp.N
            if closure_k(allt, sp.A) != closure_k(allt, sp.A, anti=True): sp.cycle = True
            sp.merge()
        elif k == "restart": sp.N, sp.D, sp.T = set(), set(sp.T), set()


# ---------------------------------------------------------------- scenario generators

def snap_line(kind, dom): return "trp snap o " + " ".join(map(str, dom))


def tri_history(kind, rounds, dom, rng=None, restart_after=None):
    """engine-like history: per round the head updates (`add`), then merge, then a snapshot of every version and view"""
    ops = [f"trp mk o {kind}"]
    for i, adds in enumerate(rounds):
        for v in adds: ops.append("trp add o " + " ".join(map(str, v)))
        if rng is not None and rng.chance(1, 4): ops.append(snap_line(kind, dom))       # views while `new` is being filled
        ops.append("trp merge o")
        ops.append(snap_line(kind, dom))
        if rng is not None and rng.chance(1, 5):
            ver, view = rng.choice(["delta", "total", "td"]), rng.choice(VIEWS[kind])
            ops += [f"trp all o {ver} {view}", f"trp empty o {ver} {view}"]
        if restart_after is not None and i == restart_after:
            ops += ["trp merge o", "trp merge o", snap_line(kind, dom), "trp restart o", snap_line(kind, dom)]
    ops += ["trp merge o", snap_line(kind, dom)]
    return ops


def tri_exhaustive(maxadds, dom=(1, 2, 3)):
    """binary: every sequence of <= maxadds head updates over dom, every way of cutting it into rounds"""
    pairs = tuples_over(dom, 2)
    for n in range(maxadds + 1):
        for seq in itertools.product(pairs, repeat=n):
            for cuts in itertools.product([0, 1], repeat=max(0, n - 1)):
                rounds, cur = [], []
                for i, v in enumerate(seq):
                    cur.append(v)
                    if i < n - 1 and cuts[i]: rounds.append(cur); cur = []
                rounds.append(cur)
                yield ("tri-exh", tri_history("b", rounds, list(dom)))


def tri_random(rng, n, kinds=("b", "t11", "t11", "t00")):
    for i in range(n):
        r = rng.fork(f"h{i}")
        kind = r.choice(list(kinds))
        m = r.range(3, 5)
        dom = list(range(1, m + 1))
        keys = [1] if kind == "b" else dom[:r.range(1, 3)]
        shape = r.below(4)
        rounds = []
        for _ in range(r.range(1, 5)):
            adds = []
            for _ in range(r.range(0, 4)):
                if shape == 0: x = r.choice(dom); y = dom[(dom.index(x) + 1) % m]          # ring: cycles close late
                elif shape == 1: x = r.choice(dom[:-1]); y = dom[dom.index(x) + 1]       # chain
                else: x, y = r.choice(dom), r.choice(dom)
                adds.append(((r.choice(keys),) if kind != "b" else ()) + (x, y))
            rounds.append(adds)
        ops = tri_history(kind, rounds, dom, r, restart_after=(r.below(len(rounds)) if r.chance(1, 3) else None))
        if kind == "t11" and r.chance(1, 2): ops.append("trp lenest12 o total")
        if kind == "t11" and r.chance(1, 6): ops.append("trp lenest12 o delta")      # delta is empty here: finding F24
        yield ("tri-rand", ops)


def dag_edges(r):
    """acyclic graphs over 6-9 randomly named nodes: random forward edges / a chain with shortcuts (unequal path lengths: tuples derived early are reached again
    along longer paths several rounds later) / dense; shuffled; arriving in one or two rounds"""
    m = r.range(6, 9)
    dom = list(range(1, m + 1))
    perm = r.shuffle(dom)
    edges = []
    variant = r.below(4)
    if variant == 0:
        for _ in range(r.range(7, 12)):
            a = r.below(m - 1); b = r.range(a + 1, min(m - 1, a + r.range(1, 4)))
            if (perm[a], perm[b]) not in edges: edges.append((perm[a], perm[b]))
    elif variant == 1:
        for a in range(m):
            for b in range(a + 1, m):
                if r.chance(2, 5): edges.append((perm[a], perm[b]))
    else:
        edges = [(perm[i], perm[i + 1]) for i in range(r.range(4, m - 1))]
        for _ in range(r.range(2, 6)):
            a = r.below(m - 1); b = r.range(a + 1, m - 1)
            if (perm[a], perm[b]) not in edges: edges.append((perm[a], perm[b]))
    edges = r.shuffle(edges) or [(1, 2)]
    cut = len(edges) if len(edges) < 2 or r.chance(1, 2) else r.range(1, len(edges) - 1)
    return dom, edges, cut


def tri_dag(rng, n):
    """larger acyclic graphs arriving in one or two rounds: ONE merge call then runs many rounds of its internal closure loop, with candidates that were derived
    several rounds earlier reached again along longer paths (the `can_add` look-up caches are exercised here only); full snapshots, model and contract oracle"""
    for i in range(n):
        r = rng.fork(f"g{i}")
        kind = r.choice(["b", "b", "b", "t00"])      # (t11: the delta reverse maps of finding F23 would mask everything else)
        dom, edges, cut = dag_edges(r)
        key = () if kind == "b" else (1,)
        rounds = [[key + e for e in edges[:cut]]] + ([[key + e for e in edges[cut:]]] if cut < len(edges) else [])
        yield ("tri-dag", tri_history(kind, rounds, dom))


def tri_dag_bulk(rng, n):
    """the same graphs in bulk, binary provider, observed once at the end (iter_all of total): judged by the closure directly (each tuple exactly once);
    histories that fail go through the full contract oracle and become replays.  Implementation vs property only - the model is not run on these."""
    for i in range(n):
        r = rng.fork(f"G{i}")
        dom, edges, cut = dag_edges(r)
        ops = ["trp mk o b"] + [f"trp add o {a} {b}" for a, b in edges[:cut]] + ["trp merge o"]
        if cut < len(edges): ops += [f"trp add o {a} {b}" for a, b in edges[cut:]] + ["trp merge o"]
        yield edges, ops + ["trp merge o", "trp all o total n"]


def tri_raw(rng, n):
    """histories outside the engine's discipline (raw inserts of tuples already in total/delta, restart with a non-empty delta):
    no contract, but model and code must still agree line by line"""
    for i in range(n):
        r = rng.fork(f"r{i}")
        kind = r.choice(["b", "t11", "t00"])
        dom = [1, 2, 3]
        ops = [f"trp mk o {kind}"]
        for _ in range(r.range(3, 14)):
            x = r.below(10)
            v = " ".join(str(r.choice(dom)) for _ in range(2 if kind == "b" else 3))
            if x < 5: ops.append(f"trp ins o {v}")
            elif x < 7: ops += ["trp merge o", snap_line(kind, dom)]
            elif x < 8: ops += ["trp restart o", snap_line(kind, dom)]
            else: ops.append(f"trp get o {r.choice(['delta', 'total', 'td'])} n")
        ops.append(snap_line(kind, dom))
        yield ("tri-raw", ops)


def tri_fixed():
    """the witnesses of the findings at provider level, and lenest12 on empty / non-empty versions"""
    d3 = [1, 2, 3]
    yield ("tri-fixed", tri_history("b", [[(1, 2), (2, 1), (2, 3)]], d3))                                  # F7
    yield ("tri-fixed", tri_history("t11", [[(0, 1, 2)], [(0, 2, 3)]], [0, 1, 2, 3]))                      # F23
    yield ("tri-fixed", ["trp mk o t11", "trp lenest12 o total"])                                          # F24
    yield ("tri-fixed", ["trp mk o t11", "trp add o 1 1 2", "trp merge o", "trp lenest12 o delta", "trp merge o", "trp lenest12 o total"])
    yield ("tri-fixed", tri_history("t11", [[(1, 1, 2)], [(2, 1, 2)], [], [(1, 2, 3)], [(2, 2, 3), (1, 3, 1)]], d3))     # keys pause and resume


def tri_scenarios(tier, rng):
    big = tier != "quick"
    yield from tri_fixed()
    yield from tri_exhaustive(4 if big else 3)
    yield from tri_random(rng.fork("rand"), 3000 if big else 300)
    yield from tri_dag(rng.fork("dag"), 2000 if big else 300)
    yield from tri_raw(rng.fork("raw"), 1500 if big else 150)


def run_tie_c(r, tier, rng, proof):
    binary, blog = tiec.build_ds(r)
    if binary is None:
        r.violation({"kind": "obligation-broken", "no_longer_checks": ["harness/ds does not build against the repository"], "log": blog[-2000:]}, no_input=True)
        return False
    scen = list(tri_scenarios(tier, rng))
    lines = [l for _, ops in scen for l in ops]
    rc, impl, model, err = tiec.run_both(binary, lines, proof.ok or os.path.exists(core.lean_driver()))
    if len(impl) != len(lines) or (model is not None and len(model) != len(lines)):
        r.violation({"kind": "obligation-broken", "no_longer_checks": [f"tie C output length impl={len(impl)} model={None if model is None else len(model)} ops={len(lines)} rc={rc}"],
                     "stderr": err[-800:]}, no_input=True)
        return False
    d = tiec.Decision(r)
    pos, hist = 0, {}
    for kind, ops in scen:
        n = len(ops)
        io, mo = impl[pos:pos + n], (model[pos:pos + n] if model is not None else None)
        pos += n
        hist[kind] = hist.get(kind, 0) + 1
        if kind == "tri-raw": orc = lambda _l, out: None
        else: orc = lambda _l, out, ops=ops: tri_oracle(ops, out.split("\n"))
        kn = lambda _l, i, m, ops=ops: tri_known(ops, i.split("\n"), None if m is None else m.split("\n"))
        d.case("\n".join(ops), "\n".join(io), None if mo is None else "\n".join(mo), orc, nontrivial=sum(1 for o in ops if " add " in o or " ins " in o) >= 2, known=kn)
        if hist[kind] == 1: r.sample({"kind": kind, "ops": ops, "impl": [x[:300] for x in io]})
    # bulk stream (implementation vs the closure; see tri_dag_bulk)
    bulk = list(tri_dag_bulk(rng.fork("dagbulk"), 200000 if tier != "quick" else 30000))
    blines = [l for _, ops in bulk for l in ops]
    rc2, bimpl, err2 = core.run_impl(binary, blines)
    if len(bimpl) != len(blines):
        r.violation({"kind": "obligation-broken", "no_longer_checks": [f"tie C bulk stream: output length {len(bimpl)} for {len(blines)} ops rc={rc2}"], "stderr": err2[-800:]}, no_input=True)
        return False
    pos, bad = 0, 0
    for edges, ops in bulk:
        n = len(ops); out = bimpl[pos + n - 1]; pos += n
        got = [(int(a), int(b)) for a, b in re.findall(r"(\d+):(\d+)", out)]
        cl = closure_k(set(edges), 2)
        if set(got) != cl or len(got) != len(cl):
            bad += 1
            io = bimpl[pos - n:pos]
            d.case("\n".join(ops), "\n".join(io), None, lambda _l, o, ops=ops: tri_oracle(ops, o.split("\n")) or "iter_all(total) differs from the transitive closure (each tuple once)",
                   known=lambda _l, i, m, ops=ops: tri_known(ops, i.split("\n"), None))
    hist["tri-dag-bulk(impl vs closure)"] = len(bulk)
    r.cov["tiec_bulk_dag_histories"] = len(bulk); r.cov["tiec_bulk_dag_failures"] = bad
    r.cov["tiec_scenarios_per_kind"] = hist
    r.cov["tiec_op_lines"] = len(lines)
    b = dict(r.cov)
    d.conclude(proof, "op sequences on the trrel provider's (new, delta, total) triple")
    for k in ("correspondence_mismatches", "impl_vs_spec_failures", "model_vs_spec_failures"):
        r.cov["tiec_" + k] = r.cov[k]; r.cov[k] = r.cov[k] + b.get(k, 0)
    return True


TIEB_RULE = ("templates static / dynamic (scheduled arrival over iterations, in-stratum observers for every access pattern feeding back) / demand "
             "(natural recursion) x binary and ternary x graph shapes chain, dag, cycle, cycle+tail, self loops, two cycles, random, empty, 1-3 keys; "
             "twin = same program with t untagged plus t(x,z) <-- t(x,y), t(y,z); one history in four is run; push more facts; run")
TIEC_RULE = ("tie C: histories on one (new, delta, total) triple (binary, ternary with and without reverse maps): rounds of head updates (`add` = "
             "contains_key(total), contains_key(delta), insert_if_not_present(new)), merge, snapshot = contains_key of every tuple over the domain on all three "
             "copies + iter_all and index_get (every key over the domain) of every view of delta, total and RelIndexCombined(total, delta); restart = "
             "next run(); exhaustive for <= 3 (thorough 4) head updates over 3 elements and every cut into rounds; PRNG histories (ring / chain / random, "
             "1-3 keys, pauses); acyclic graphs over 6-9 nodes (random forward edges / chain with shortcuts / dense) arriving in one or two rounds, so that one merge call runs many "
             "rounds of its closure loop: 300 (thorough 2000) with full snapshots through model and oracle, 30000 (thorough 200000) binary ones observed once at the end and judged by the closure "
             "alone (implementation vs property; failures become replays); raw histories outside the engine discipline are compared model vs code only. Contract oracle: total' = total + delta, "
             "delta' = per-key transitive closure(total + delta + new) - total', views = selection / projection of these sets, each tuple once")


def check(tier, replay=None):
    """tie B through engcheck.run_property's steps, then tie C, one report"""
    r = core.Report("C11", tier)
    rng = core.SplitMix(core.seed()).fork("ENG")
    mods = ["AscentVerif.Props.C11", "AscentVerif.Props.C11Provider"]
    if os.environ.get("VERIF_DEV_SKIP_PROOF"):
        proof = core.ProofResult(); core.run(["lake", "build", "driver"], cwd=core.LEAN)
    else:
        proof = core.lean_prove(mods, leanchecker=(tier == "thorough"))
        core.require_theorems(proof, THEOREMS)
    r.proof(proof, "lake build " + " ".join(mods) + " && #audit_module (axioms of every theorem)" + (" && lake env leanchecker" if tier == "thorough" else ""))
    eff = tier if proof.ok else "thorough"
    if replay:
        return check_replay(r, replay, proof)
    # ---- tie B
    progs, rsmods, cases = build(rng, eff)
    res = engcheck.run_cases(r, "c11", progs, cases, modules=rsmods, model=proof.ok or os.path.exists(core.lean_driver()))
    if res is None: return r.finish(TRUSTED)
    outs, _ = res
    d = tiec.Decision(r)
    hist = {}
    for c, (io, mo) in zip(cases, outs):
        twin = progs[c.pid]
        text = f"eng prog {c.pid} {eng.sx_prog(twin)}\n" + "\n".join(c.ops)
        io_c, mo_c = mask(c, io), (mask(c, mo) if mo is not None else None)
        full = "\n".join(io)
        def orc(_l, out, c=c, twin=twin, full=full, io_c=io_c):
            # the oracle judges the implementation's full output; the model's masked output is compared with the implementation's
            return oracle(c, twin, full.split("\n")) if out == "\n".join(io_c) else None
        kn = lambda _l, i, m, c=c, twin=twin, io=io, mo=mo: known(c, twin, io, mo)
        d.case(text, "\n".join(io_c), None if mo_c is None else "\n".join(mo_c), orc, nontrivial=True, known=kn)
        k = c.meta.get("kind", "case"); hist[k] = hist.get(k, 0) + 1
    if cases:
        r.sample({"program": eng.rs_program(TAGGED[cases[0].pid]), "history": cases[0].ops, "impl": outs[0][0]})
    r.cov["programs"] = len(progs)
    r.cov["case_kinds"] = hist
    r.cov["rule"] = TIEB_RULE + " || " + TIEC_RULE
    d.conclude(proof, "compiled programs with a trrel-tagged relation vs the explicit-closure twin")
    # ---- tie C
    run_tie_c(r, eff, rng.fork("TRI"), proof)
    return r.finish(TRUSTED)


def check_replay(r, path, proof):
    """re-run one recorded failing input (tie C histories start with `trp`, tie B histories with `eng prog`)"""
    rec = json.load(open(path))
    ops = rec["input"].split("\n")
    if ops and ops[0].startswith("trp"):
        binary, blog = tiec.build_ds(r)
        rc, impl, model, err = tiec.run_both(binary, ops, proof.ok or os.path.exists(core.lean_driver()))
        d = tiec.Decision(r)
        d.case("\n".join(ops), "\n".join(impl), None if model is None else "\n".join(model), lambda _l, out: tri_oracle(ops, out.split("\n")),
               known=lambda _l, i, m: tri_known(ops, i.split("\n"), None if m is None else m.split("\n")))
        d.conclude(proof, "replayed tie C history")
    else:
        r.notes.append("tie B replays: programs are regenerated from VERIF_SEED; run the check with the recorded seed and tier")
    return r.finish(TRUSTED)
