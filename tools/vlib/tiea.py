"""Tie A: the in-process driver of the real macro pipeline (hook `verif_driver` in ascent_macro, feature verif-hooks)."""
import os, re, tempfile
from . import core, eng


def run_macro_driver(items):
    """items: [(id, kind, program text)] -> {id: {"outcome": str, "mir": str|None}}; None if the driver could not be built"""
    d = os.path.join(core.VERIF, "harness", "tiea")
    os.makedirs(d, exist_ok=True)
    inp, outp = os.path.join(d, "programs.txt"), os.path.join(d, "out.txt")
    with open(inp, "w") as f:
        for i, kind, text in items:
            f.write(f"{i}\t{kind}\t{' '.join(text.split())}\n")
    if os.path.exists(outp): os.remove(outp)
    e = core.env_offline()
    e.update({"VERIF_PROGRAMS": inp, "VERIF_OUT": outp, "CARGO_TARGET_DIR": core.target_dir() + "-macro"})
    rc, out = core.run(["cargo", "test", "--offline", "-q", "-p", "ascent_macro", "--features", "verif-hooks", "verif_driver"], cwd=core.repo_dir(), env=e, timeout=3600)
    if rc != 0 or not os.path.exists(outp): return None, out
    res, cur = {}, None
    for line in open(outp):
        line = line.rstrip("\n")
        if line.startswith("== "): cur = line[3:]; res[cur] = {"outcome": None, "mir": None}
        elif line.startswith("outcome ") and cur: res[cur]["outcome"] = line[8:]
        elif line.startswith("mir ") and cur: res[cur]["mir"] = line[4:]
    return res, out


def inner_text(ascent_text):
    """the token text inside `ascent! { … }`"""
    a, b = ascent_text.index("{"), ascent_text.rindex("}")
    return ascent_text[a + 1:b]


def canon_mir(summary):
    """real `mir_summary` -> the canonical form of Driver/Engine.lean `mirCanon`"""
    sccs = []
    for seg in re.split(r"scc \d+, is_looping: ", summary)[1:]:
        looping, _, rest = seg.partition(":")
        parts = [x.strip() for x in rest.split(" ; ") if x.strip()]
        dyn = [x for x in parts if x.startswith("dynamic relations:")]
        rules = sorted(x for x in parts if not x.startswith("dynamic relations:"))
        dr = sorted(y.strip() for y in dyn[0][len("dynamic relations:"):].split(",") if y.strip()) if dyn else []
        sccs.append(f"looping={looping.strip()} dyn={','.join(dr)} :: " + " ;; ".join(rules))
    return " || ".join(sorted(sccs))
