"""C13 — run() is idempotent and monotone re-runs equal a fresh run."""
from . import core, eng, gen, engcheck

THEOREMS = ["derivable_between", "derivable_union_restart", "rerun_idempotent", "monotone_rerun", "wfSt_pushRows"]
TRUSTED = ["Lean 4.33.0 kernel", "axioms: propext, Classical.choice, Quot.sound only (audited per theorem)",
           "statement: Props/C13.lean (histories run;run and run;push;run from any well-formed program value, aggregation-free serial programs)",
           "model Model/Engine.lean (index contents persist between runs; update_indices re-inserts every row) tied by compiled programs driven "
           "through histories of run / push / dump",
           "not covered by the theorems: programs with aggregation (finding F2: re-indexing duplicates Vec-index entries) and parallel programs (finding F4)"]


def build(rng, tier):
    n = 14 if tier == "quick" else 70
    plist = engcheck.make_programs(rng.fork("c13"), n)
    progs, mods, cases = {}, [], []
    for i, p in enumerate(plist):
        pid = f"h{i}"
        progs[pid] = p
        mods.append((pid, eng.rs_module(pid, p)))
        for j in range(6 if tier == "quick" else 24):
            r2 = rng.fork(f"{pid}h{j}")
            inp = gen.gen_input(r2, p, max_rows=6)
            inst = f"{pid}_{j}"
            ops = [f"eng new {inst} {pid}"] + engcheck.load_ops(inst, inp) + [f"eng run {inst}", f"eng dump {inst}"]
            union = {r: list(v) for r, v in inp.items()}
            marks = []          # (index of dump line, expected-input snapshot or "same")
            nsteps = r2.range(1, 2) if tier == 'quick' else r2.range(1, 3)
            for _ in range(nsteps):
                if r2.chance(1, 2):
                    ops += [f"eng run {inst}", f"eng dump {inst}"]; marks.append("same")
                else:
                    extra = gen.gen_input(r2, p, max_rows=3)
                    for r, rows in extra.items():
                        if rows:
                            ops.append(f"eng push {inst} r{r}" + "".join(" " + eng.sx_tuple(t) for t in rows))
                            union[r] = union.get(r, []) + list(rows)
                    ops += [f"eng run {inst}", f"eng dump {inst}"]; marks.append({r: list(v) for r, v in union.items()})
            cases.append(engcheck.Case(pid, inst, ops, {"inp": inp, "marks": marks, "kind": "history"}))
    return progs, mods, cases


def oracle(c, p, out):
    dumps = [l for l, o in zip(out, c.ops) if o.startswith("eng dump")]
    if any(not d.startswith("r0:") for d in dumps): return "run/dump failed: " + next(d for d in dumps if not d.startswith("r0:"))
    first = engcheck.check_sets(p, dumps[0], engcheck.spec_sets(p, c.meta["inp"]))
    if first: return "first run: " + first
    prev = dumps[0]
    for k, (m, d) in enumerate(zip(c.meta["marks"], dumps[1:])):
        if m == "same":
            a, _ = engcheck.dump_sets(prev); b, _ = engcheck.dump_sets(d)
            if a != b: return f"run() on an unmodified value changed a relation (step {k + 1}): " + str({r: sorted(b[r] ^ a[r])[:4] for r in a if a[r] != b.get(r)})
        else:
            w = engcheck.check_sets(p, d, engcheck.spec_sets(p, m))
            if w: return f"re-run after pushing facts differs from a fresh run on the union (step {k + 1}): " + w
        prev = d
    return None


def check(tier, replay=None):
    return engcheck.run_property("C13", tier, modules=["AscentVerif.Props.C13"], theorems=THEOREMS, trusted=TRUSTED, group="c13",
                                 build=build, oracle=oracle, what="histories of run / push on compiled programs",
                                 rule="generated aggregation-free programs x histories run; (run | push facts into any relations incl. derived ones; run){1..3}; "
                                      "after an unmodified re-run every relation must be unchanged as a set, after pushes it must equal the naive least model "
                                      "of the union of everything loaded and pushed; impl vs model compared with multiplicities")
