"""C13 — run() is idempotent and monotone re-runs equal a fresh run."""
from . import core, eng, gen, engcheck

THEOREMS = ["derivable_between", "derivable_union_restart", "rerun_idempotent", "monotone_rerun", "wfSt_pushRows", "run_lattice_from", "lattice_rerun_idempotent", "restart_agg", "rerun_idempotent_agg", "std_aggPermInvariant", "rerun_idempotent_phys", "monotone_rerun_phys", "restart_phys_agg", "rerun_idempotent_phys_agg", "negA_ctx", "negA_interrupted", "runPhysLat_from", "rerun_idempotent_physLat",
            "rerun_idempotent_physPar", "monotone_rerun_physPar", "monotone_rerun_eq_fresh_physPar", "rerun_pool_irrelevant_physPar", "history_pool_irrelevant_physPar", "tcPar_rerun", "tcPar_rerun_applies",
            "restart_physPar_agg", "rerun_idempotent_physPar_agg", "run_wf_extends_physPar_agg", "negPar_rerun", "negPar_rerun_applies"]
TRUSTED = ["Props/C13PhysParAgg.lean (Proofs/PhysParAggLink.lean): the same for ascent_par! programs WITH stratified aggregation / negation - a second run() in any pool under any schedule does not panic and leaves every row vector "
           "unchanged (rerun_idempotent_physPar_agg); restart_physPar_agg: from any value between the original rows and a completed reference run, run() ends with the reference run's facts; tied by `eng runpp` on the parallel aggregation histories",
           "Props/C13PhysPar.lean: the re-run theorems for ascent_par! over its concurrent physical indices - run() in one pool under one schedule, then run() again (rerun_idempotent_physPar: no panic, every row vector "
           "literally unchanged) or push rows and run() again (monotone_rerun_physPar: no panic, exactly the facts of a fresh run on the union; monotone_rerun_eq_fresh_physPar) in ANY other pool under ANY other schedule; "
           "the indices a value carries are irrelevant (update_indices rebuilds them in the pool of the call); history_pool_irrelevant_physPar: the whole history computes the same facts whatever the four schedules / pools; "
           "tied by `eng runpp` on the parallel histories of this check",
           "Props/C13PhysLat.lean (Model/EnginePhysLatTimeout.lean, Proofs/PhysLatFrom*.lean, PhysLatTimeout.lean): the physical engine WITH lattices from ANY legal program value (runPhysLat_from), idempotence of run() (rerun_idempotent_physLat, antisymmetric orders), run_timeout sound whatever it returns (timeout_sound_physLat) and completion of a resumed run (resume_complete_physLat); tied by `eng runtopl` / `eng runpl` on lattice programs",
           "Props/C13PhysAgg.lean (Proofs/NDAggRestart.lean, PhysAggTimeout*.lean): the re-run / run_timeout theorems for the PHYSICAL engine on stratified programs with aggregation / negation, relative to a completed reference run (restart_phys_agg, rerun_idempotent_phys_agg, timeout_false_sound_phys_agg, timeout_true_complete_phys_agg, resume_complete_phys_agg: any number of interruptions); tied by `eng runp` / `eng runtop` on aggregation programs",
           "Lean 4.33.0 kernel", "axioms: propext, Classical.choice, Quot.sound only (audited per theorem)",
           "statement: Props/C13.lean (histories run;run and run;push;run from any well-formed program value, aggregation-free serial programs)",
           "model Model/Engine.lean (index contents persist between runs; update_indices rebuilds them from the rows, fix 8b2e261) tied by compiled programs driven "
           "through histories of run / push / dump",
           "Props/C13Phys.lean: the same two theorems for the generated code over its PHYSICAL indices (Model/EnginePhys.lean; rerun_idempotent_phys, monotone_rerun_phys: the "
           "indices left by the first run are rebuilt by update_indices), tied by running the odd relational histories through that model (`eng runp`)",
           "programs with aggregation / negation: rerun_idempotent_agg (Props/C13Agg.lean, every stratified program, aggregators insensitive to the order of their input: std_aggPermInvariant for the library ones); the parallel engine is covered by C02's schedule theorems, its re-run by the tie"]


def build(rng, tier):
    n = 14 if tier == "quick" else 70
    plist = engcheck.make_programs(rng.fork("c13"), n)
    progs, mods, cases = {}, [], []
    for i, p in enumerate(plist):
        pid = f"h{i}"
        progs[pid] = p
        mods.append((pid, eng.rs_module(pid, p)))
        for j in range(6 if tier == "quick" else 24):
            r2 = rng.fork(f"{pid}h{j}")
            inp = gen.gen_input(r2, p, max_rows=6)
            inst = f"{pid}_{j}"
            # odd histories: the Lean side is the physical-index engine model (`eng runp`, Model/EnginePhys.lean); the real code is the same
            rn = "runp" if j % 2 == 1 else "run"
            ops = [f"eng new {inst} {pid}"] + engcheck.load_ops(inst, inp) + [f"eng {rn} {inst}", f"eng dump {inst}"]
            union = {r: list(v) for r, v in inp.items()}
            marks = []          # (index of dump line, expected-input snapshot or "same")
            nsteps = r2.range(1, 2) if tier == 'quick' else r2.range(1, 3)
            for _ in range(nsteps):
                if r2.chance(1, 2):
                    ops += [f"eng {rn} {inst}", f"eng dump {inst}"]; marks.append("same")
                else:
                    extra = gen.gen_input(r2, p, max_rows=3)
                    for r, rows in extra.items():
                        if rows:
                            ops.append(f"eng push {inst} r{r}" + "".join(" " + eng.sx_tuple(t) for t in rows))
                            union[r] = union.get(r, []) + list(rows)
                    ops += [f"eng {rn} {inst}", f"eng dump {inst}"]; marks.append({r: list(v) for r, v in union.items()})
            cases.append(engcheck.Case(pid, inst, ops, {"inp": inp, "marks": marks, "kind": "history"}))
    # parallel twins (re-runs of ascent_par! programs panicked before the fix of F4)
    for i, p in enumerate(plist[: 4 if tier == "quick" else 20]):
        pid = f"hp{i}"
        progs[pid] = p
        mods.append((pid, eng.rs_module(pid, p, macro="ascent_par")))
        for j in range(3):
            r2 = rng.fork(f"{pid}h{j}")
            inp = gen.gen_input(r2, p, max_rows=6)
            extra = gen.gen_input(r2, p, max_rows=3)
            inst = f"{pid}_{j}"
            t = r2.choice([1, 2, 4, 8])
            # odd histories: the Lean side is the PARALLEL physical-index engine model in a pool of the same size (`eng runpp`, Model/EnginePhysPar.lean; Props/C13PhysPar.lean)
            rn = f"runpp {inst} {t}" if j % 2 == 1 else f"run {inst}"
            ops = [f"eng new {inst} {pid} par {t}"] + engcheck.load_ops(inst, inp) + [f"eng {rn}", f"eng dump {inst}", f"eng {rn}", f"eng dump {inst}"]
            union = {r: list(v) for r, v in inp.items()}
            for r, rows in extra.items():
                if rows:
                    ops.append(f"eng push {inst} r{r}" + "".join(" " + eng.sx_tuple(t) for t in rows)); union[r] = union.get(r, []) + list(rows)
            ops += [f"eng {rn}", f"eng dump {inst}"]
            cases.append(engcheck.Case(pid, inst, ops, {"inp": inp, "marks": ["same", union], "kind": "par-history"}))
    # lattice programs: run; run (idempotent: lattice_rerun_idempotent) and run; push; run vs fresh run on the union
    for i, p in enumerate(engcheck.make_programs(rng.fork("c13lat"), 5 if tier == "quick" else 25, genf=gen.gen_lat_program, filt=gen.lat_ok)):
        pid = f"hl{i}"
        progs[pid] = p
        mods.append((pid, eng.rs_module(pid, p)))
        for j in range(4 if tier == "quick" else 10):
            r2 = rng.fork(f"{pid}h{j}")
            inp = gen.gen_lat_input(r2, p)
            inst = f"{pid}_{j}"
            ops = [f"eng new {inst} {pid}"] + engcheck.load_ops(inst, inp) + [f"eng run {inst}", f"eng dump {inst}", f"eng run {inst}", f"eng dump {inst}"]
            marks = ["same"]
            extra = {r: rows for r, rows in gen.gen_input(r2, p, max_rows=3).items() if not p["rels"][r].get("lat")}
            union = {r: list(v) for r, v in inp.items()}
            for r, rows in extra.items():
                if rows:
                    ops.append(f"eng push {inst} r{r}" + "".join(" " + eng.sx_tuple(t) for t in rows)); union[r] = union.get(r, []) + list(rows)
            ops += [f"eng run {inst}", f"eng dump {inst}"]; marks.append(union)
            cases.append(engcheck.Case(pid, inst, ops, {"inp": inp, "marks": marks, "kind": "lattice-history"}))
    # the README shortest-path shape (non-key lattice index read in the recursive stratum and by a later one): run; run; push an edge; run
    sp = gen.sp_program()
    progs["hsp"] = sp; mods.append(("hsp", eng.rs_module("hsp", sp)))
    for j in range(8 if tier == "quick" else 40):
        r2 = rng.fork(f"hsp{j}")
        inp = gen.sp_input(r2)
        n = 1 + max(max(a, b) for a, b, _ in inp[0])
        extra = [(a, b, w) for a, b, w in [(r2.below(n), r2.below(n), r2.range(1, 9)) for _ in range(2)] if a != b and not any(x == a and y == b for x, y, _ in inp[0])]
        if j % 2 == 1:
            # a cheap shortcut from a query node: improves values of EXISTING keys in place (no relation grows but `edge`)
            extra = [(0, b, 1) for b in range(2, n) if not any(x == 0 and y == b and w <= 1 for x, y, w in inp[0])][:1]
            inp = dict(inp); inp[0] = [t for t in inp[0] if not (t[0] == 0 and extra and t[1] == extra[0][1])] + ([(0, extra[0][1], 60)] if extra else [])
        inst = f"hsp_{j}"
        ops = [f"eng new {inst} hsp"] + engcheck.load_ops(inst, inp) + [f"eng run {inst}", f"eng dump {inst}", f"eng run {inst}", f"eng dump {inst}"]
        marks = ["same"]
        union = {r: list(v) for r, v in inp.items()}
        if extra:
            ops.append(f"eng push {inst} r0" + "".join(" " + eng.sx_tuple(t) for t in extra)); union[0] = union[0] + extra
        ops += [f"eng run {inst}", f"eng dump {inst}"]; marks.append(union)
        cases.append(engcheck.Case("hsp", inst, ops, {"inp": inp, "marks": marks, "kind": "shortest-paths-history"}))
    # a lattice read through an index that CONTAINS the lattice column (`hit(k, v) <-- want(v), best(k, v)`; not a monotone use, so only the
    # first half of the statement is claimed: a second run() must change nothing).  A key derived several times within one iteration, the later
    # derivation improving the earlier one, must end up filed under its final value (seeded change C13_r4_serial_lattice_requeue_skipped_when_in_new)
    lv = {"rels": [{"arity": 2}, {"arity": 1}, {"arity": 2, "lat": "max"}, {"arity": 2}, {"arity": 2}],
          "rules": [{"heads": [(2, [("var", 0), ("var", 1)])], "body": [("cl", 0, [("v", 0), ("v", 1)], [])]},
                    {"heads": [(3, [("var", 0), ("var", 1)])], "body": [("cl", 1, [("v", 1)], []), ("cl", 2, [("v", 0), ("v", 1)], [])]},
                    {"heads": [(4, [("var", 0), ("var", 1)])], "body": [("cl", 2, [("v", 0), ("v", 1)], []), ("if", ("le", ("var", 1), 4))]}]}
    progs["hlv"] = lv; mods.append(("hlv", eng.rs_module("hlv", lv)))
    for j in range(8 if tier == "quick" else 40):
        r2 = rng.fork(f"hlv{j}")
        src = [(r2.range(0, 3), r2.range(0, 9)) for _ in range(r2.range(2, 8))]
        inp = {0: list(dict.fromkeys(src)), 1: [(v,) for v in sorted({r2.range(0, 9) for _ in range(4)} | {max(v for _, v in src)})], 2: [], 3: [], 4: []}
        inst = f"hlv_{j}"
        ops = [f"eng new {inst} hlv"] + engcheck.load_ops(inst, inp) + [f"eng run {inst}", f"eng dump {inst}", f"eng run {inst}", f"eng dump {inst}"]
        cases.append(engcheck.Case("hlv", inst, ops, {"inp": inp, "marks": ["same"], "kind": "lattice-value-index-rerun", "idem_only": True}))
    # programs WITH aggregation: the statement's first half (idempotence) is claimed for them too (failed before fix 8b2e261: finding F2)
    for i, p in enumerate(engcheck.make_programs(rng.fork("c13agg"), 8 if tier == "quick" else 30, genf=gen.gen_agg_program, filt=eng.stratifiable)):
        pid = f"ha{i}"
        progs[pid] = p
        mods.append((pid, eng.rs_module(pid, p)))
        for j in range(3):
            inp = gen.nodup_input(rng.fork(f"{pid}h{j}"), p, max_rows=6)
            inst = f"{pid}_{j}"
            rn = "runp" if j == 1 else "run"      # one history in three: the Lean side is the physical-index engine model (aggregation through the hash indices: Props/C04Phys.lean, C13PhysAgg.lean)
            ops = [f"eng new {inst} {pid}"] + engcheck.load_ops(inst, inp) + [f"eng {rn} {inst}", f"eng dump {inst}", f"eng {rn} {inst}", f"eng dump {inst}"]
            cases.append(engcheck.Case(pid, inst, ops, {"inp": inp, "marks": ["same"], "kind": "agg-rerun", "was": "F2"}))
    # the same under ascent_par!: run; run; run on a program value (the parallel update_indices must rebuild the multiset-like concurrent indices from scratch,
    # or multiplicity-sensitive aggregates double with every run)
    for i, p in enumerate(engcheck.make_programs(rng.fork("c13aggpar"), 4 if tier == "quick" else 16, genf=gen.gen_agg_program, filt=eng.stratifiable)):
        pid = f"hap{i}"
        progs[pid] = p
        mods.append((pid, eng.rs_module(pid, p, macro="ascent_par")))
        for j in range(3):
            r2 = rng.fork(f"{pid}h{j}")
            inp = gen.nodup_input(r2, p, max_rows=6)
            inst = f"{pid}_{j}"
            t = r2.choice([1, 2, 4, 8])
            rn = f"runpp {inst} {t}" if j == 1 else f"run {inst}"      # one history in three: the Lean side is the parallel physical-index model (aggregation through the concurrent indices)
            ops = [f"eng new {inst} {pid} par {t}"] + engcheck.load_ops(inst, inp) + [f"eng {rn}", f"eng dump {inst}", f"eng {rn}", f"eng dump {inst}", f"eng {rn}", f"eng dump {inst}"]
            cases.append(engcheck.Case(pid, inst, ops, {"inp": inp, "marks": ["same", "same"], "kind": "agg-rerun-par"}))
    # BYODS relations (`#[ds(trrel)]`, `#[ds(eqrel)]`, `#[ds(trrel_uf)]`) fed by a plain relation: run; run; push edges into the feeding relation; run - the provider's merge meets
    # a relation whose content sits in `delta` with an empty `total` at the start of the re-run; new tuples must be joined with what the relation already holds.
    # Model side: the explicit-closure twin; the tagged relation itself has no readable rows (FakeVec) and is masked on both sides
    from . import c12
    for k, ds in enumerate(["trrel", "eqrel", "trrel_uf"] if tier == "quick" else ["trrel", "eqrel", "trrel_uf"] * 2):
        tb = {"rels": [{"arity": 2}, {"arity": 2, "ds": ds}, {"arity": 2}, {"arity": 1}],
              "rules": [{"heads": [(1, [("var", 0), ("var", 1)])], "body": [("cl", 0, [("v", 0), ("v", 1)], [])]},
                        {"heads": [(2, [("var", 0), ("var", 1)])], "body": [("cl", 1, [("v", 0), ("v", 1)], [])]},
                        {"heads": [(3, [("var", 1)])], "body": [("cl", 1, [("e", 0), ("v", 1)], [])]}],
              "t": 1}
        pid = f"hb{k}"
        progs[pid] = eng.twin(tb); mods.append((pid, c12.rs_module_ds(pid, tb)))
        for j in range(5 if tier == "quick" else 12):
            r2 = rng.fork(f"{pid}h{j}")
            n = r2.range(4, 8)
            e1 = list(dict.fromkeys((r2.below(n), r2.below(n)) for _ in range(r2.range(2, 5))))
            if j % 2 == 0: e1 = [(1, 2), (2, 3)] + [t for t in e1 if t not in ((1, 2), (2, 3))][:2]
            e2 = [t for t in dict.fromkeys([(3, 4), (0, 1)] + [(r2.below(n + 2), r2.below(n + 2)) for _ in range(r2.range(0, 3))]) if t not in e1]
            if ds == "trrel":
                # (known finding F7 of C11: a trrel relation lacks the pairs (x, x) that only a cycle implies - the histories of THIS check stay on acyclic graphs)
                e1 = list(dict.fromkeys((min(a, b), max(a, b)) for a, b in e1 if a != b)) or [(1, 2)]
                e2 = [t for t in dict.fromkeys((min(a, b), max(a, b)) for a, b in e2 if a != b) if t not in e1]
            inp = {0: e1, 2: [], 3: []}
            union = {0: e1 + e2, 2: [], 3: []}
            inst = f"{pid}_{j}"
            if j % 2 == 0:
                ops = [f"eng new {inst} {pid}"] + engcheck.load_ops(inst, inp) + [f"eng run {inst}", f"eng dump {inst}", f"eng run {inst}", f"eng dump {inst}",
                       f"eng push {inst} r0" + "".join(" " + eng.sx_tuple(t) for t in e2), f"eng run {inst}", f"eng dump {inst}"]
                marks = ["same", union]
            else:
                # run; push; run - without an unmodified run in between (a relation emptied by one re-run and re-derived by the next would hide behind it)
                ops = [f"eng new {inst} {pid}"] + engcheck.load_ops(inst, inp) + [f"eng run {inst}", f"eng dump {inst}",
                       f"eng push {inst} r0" + "".join(" " + eng.sx_tuple(t) for t in e2), f"eng run {inst}", f"eng dump {inst}", f"eng run {inst}", f"eng dump {inst}"]
                marks = [union, "same"]
            cases.append(engcheck.Case(pid, inst, ops, {"inp": inp, "marks": marks, "kind": f"byods-{ds}-history", "byods": 1}))
    # witness of F2 (fixed by 8b2e261; must pass)
    w = {"rels": [{"arity": 2}, {"arity": 1}, {"arity": 2}],
         "rules": [{"heads": [(2, [("var", 0), ("var", 21)])], "body": [("cl", 1, [("v", 0)], []), ("agg", [21], "count", [], 0, [("k", ("var", 0)), "_"])]}]}
    winp = {0: [(1, 1), (1, 2), (2, 5)], 1: [(1,), (2,)]}
    progs["f2w"] = w; mods.append(("f2w", eng.rs_module("f2w", w)))
    cases.append(engcheck.Case("f2w", "f2w_0", ["eng new f2w_0 f2w"] + engcheck.load_ops("f2w_0", winp) + ["eng run f2w_0", "eng dump f2w_0", "eng run f2w_0", "eng dump f2w_0"],
                               {"inp": winp, "marks": ["same"], "kind": "agg-rerun", "was": "F2"}))
    return progs, mods, cases


def known(c, p, impl, model):
    return None      # F2 is fixed by 8b2e261 and F4 by 409a150: nothing is attributed any more


def mask_rel(line, t):
    """a dump line without the rows of relation t (a BYODS relation has no readable row vector)"""
    if t is None or not line.startswith("r0:"): return line
    return " | ".join((f"r{t}:" if seg.split(":")[0].strip() == f"r{t}" else seg.strip()) for seg in line.split("|"))


def oracle(c, p, out):
    t = c.meta.get("byods")
    if t is not None:
        out = [mask_rel(l, t) for l in out]
        spec_of = lambda inp: {r: (set() if r == t else v) for r, v in engcheck.spec_sets(p, inp).items()}
        return _oracle(c, p, out, spec_of)
    return _oracle(c, p, out, lambda inp: engcheck.spec_sets(p, inp))


def _oracle(c, p, out, spec_sets):
    for o, l in zip(c.ops, out):
        if o.startswith("eng run") and l.startswith("panic"): return f"`{o}` panicked: {l[:120]}"
    dumps = [l for l, o in zip(out, c.ops) if o.startswith("eng dump")]
    if any(not d.startswith("r0:") for d in dumps): return "run/dump failed: " + next(d for d in dumps if not d.startswith("r0:"))
    first = None if c.meta.get("idem_only") else engcheck.check_sets(p, dumps[0], spec_sets(c.meta["inp"]))
    if first: return "first run: " + first
    prev = dumps[0]
    for k, (m, d) in enumerate(zip(c.meta["marks"], dumps[1:])):
        if m == "same":
            a, _ = engcheck.dump_sets(prev); b, _ = engcheck.dump_sets(d)
            if a != b: return f"run() on an unmodified value changed a relation (step {k + 1}): " + str({r: sorted(b[r] ^ a[r])[:4] for r in a if a[r] != b.get(r)})
        else:
            w = engcheck.check_sets(p, d, spec_sets(m))
            if w: return f"re-run after pushing facts differs from a fresh run on the union (step {k + 1}): " + w
        prev = d
    return None


def canon(c, out):
    # reads of a lattice through its value column are outside the model's (monotone, snapshot) semantics: judged by the idempotence oracle only
    if c.meta.get("idem_only"): return ["<non-monotone lattice read: judged by the idempotence oracle>" for _ in out]
    if c.meta.get("byods") is not None:
        # the model ran the explicit-closure twin: plain relations are compared as sets (the twin derives a row of a plain relation once, like the tagged program)
        return [mask_rel(l, c.meta["byods"]) for l in out]
    return out


def check(tier, replay=None):
    return engcheck.run_property("C13", tier, modules=["AscentVerif.Props.C13", "AscentVerif.Props.C13L", "AscentVerif.Props.C13Agg", "AscentVerif.Props.C13Phys", "AscentVerif.Props.C13PhysAgg", "AscentVerif.Props.C13PhysLat", "AscentVerif.Props.C13PhysPar", "AscentVerif.Props.C13PhysParAgg"], theorems=THEOREMS, trusted=TRUSTED, group="c13",
                                 build=build, oracle=oracle, known=known, canon=canon, what="histories of run / push on compiled programs",
                                 rule="generated aggregation-free programs x histories run; (run | push facts into any relations incl. derived ones; run){1..3}; "
                                      "after an unmodified re-run every relation must be unchanged as a set, after pushes it must equal the naive least model "
                                      "of the union of everything loaded and pushed; impl vs model compared with multiplicities")
