"""C16 — shipped lattice types satisfy the lattice laws and report changes truthfully."""
import itertools, json, os, re, sys
from . import core, tiec
sys.path.insert(0, os.path.join(core.VERIF, "tools"))
import lat_registry as LR

MODULES = ["AscentVerif.Props.C16Basic", "AscentVerif.Props.C16Struct", "AscentVerif.Props.TieD"]
THEOREMS = ["constProp_pcmp_eq", "constProp_meet_eq", "constProp_join_eq", "constProp_meetMut_eq", "constProp_joinMut_eq", "combineOrderings_eq", "option_meetMut_eq", "option_joinMut_eq", "dual_pcmp_eq", "dual_cmp_eq", "dual_meet_eq", "dual_join_eq", "dual_meetMut_eq", "dual_joinMut_eq", "dual_top_eq", "dual_bottom_eq", "join_comm", "meet_comm", "join_assoc", "meet_assoc", "join_idem", "meet_idem", "join_meet_absorb", "meet_join_absorb",
            "le_iff_join_eq", "le_iff_meet_eq", "joinMut_truthful", "meetMut_truthful", "joinMut_idle",
            "lawfulLinOrd_int", "lawfulLinOrd_bool", "lawfulLinOrd_bint", "lawfulLinOrd_prod", "lawfulLinOrd_dualLin", "lawful_prim", "lawfulB_prim_bint",
            "lawfulB_prim_bool", "lawful_option", "lawfulB_option", "lawful_boxed", "lawful_shared", "lawful_dual", "lawfulB_dual",
            "lawful_rev", "lawfulB_rev", "dual_swaps", "rev_swaps", "lawful_ordLat", "lawful_lexTuple", "lawfulB_unit", "lawfulB_constProp",
            "combineOrderings_spec", "lawfulPTail_unit", "lawfulPTail_cons", "lawful_product", "product_pair_le", "lawful_productArr",
            "lawful_lset", "lset_join_mem", "lset_meet_mem", "lset_le_iff", "lawfulB_bset"]
TRUSTED = ["Lean 4.33.0 kernel", "axioms: propext, Classical.choice, Quot.sound only (audited per theorem)",
           "statements: Spec/LatticeLaws.lean (LawfulLat, LawfulBLat) and Props/C16Basic.lean, Props/C16Struct.lean",
           "tie D: ConstPropagation (partial_cmp, meet, join, meet_mut, join_mut), combine_orderings and Option's meet_mut/join_mut are RE-TRANSLATED from the "
           "Rust source on every run (tools/rs2lean.py -> lean/AscentVerif/Generated) and proved equal to the hand-written model (Props/TieD.lean); the translator is trusted",
           "tie D also covers dual.rs: partial_cmp / cmp / meet / join / meet_mut / join_mut / top / bottom of Dual<T> are re-translated on every run and proved equal to the model's Dual / DualLin instances (dual_*_eq)",
           "model Model/Lattice.lean is hand-written, arm by arm after ascent_base/src/lattice*.rs; tied by exhaustive pair "
           "correspondence over small carriers (harness/ds lat ops vs Lean driver) for 52 registered types incl. nested compositions",
           "modelled not verified: std's derived PartialOrd/Ord for Option and tuples, BTreeSet, Rc/Arc::make_mut (value semantics), "
           "primitive integer comparison; tuples are modelled as right-nested pairs"]
SWAP = {"lt": "gt", "gt": "lt", "eq": "eq", "none": "none"}


def canon(s):
    return s.replace("(rc ", "(shared ").replace("(arc ", "(shared ").replace("(ltup ", "(tup ")


FIELDS = re.compile(r"^cmp=(\S+) ops=(\S+) join=(.*) meet=(.*) joinmut=(.*) (true|false) meetmut=(.*) (true|false)$")


def parse_out(o):
    m = FIELDS.match(o)
    if not m:
        return None
    return dict(cmp=m.group(1), ops=m.group(2), join=m.group(3), meet=m.group(4), jm=m.group(5), jf=m.group(6) == "true",
                mm=m.group(7), mf=m.group(8) == "true")


def gen(tier, rng):
    """(lines, meta) — meta[i] = (type index, a, b) ; exhaustive pairs when the carrier is small, PRNG pairs otherwise"""
    lines, meta = [], []
    cap_pairs = 1600 if tier == "quick" else 20000
    for ti, t in enumerate(LR.REGISTRY):
        nm = LR.name(t)
        car = LR.carrier(t)
        if car is not None and len(car) ** 2 <= cap_pairs:
            pairs = list(itertools.product(car, car))
            exhaustive = True
        else:
            r2 = rng.fork(nm)
            pool = car if car is not None else [LR.sample(t, r2) for _ in range(60)]
            pool = sorted(set(pool))
            if len(pool) > 40:
                pool = r2.shuffle(pool)[:40] if tier == "quick" else r2.shuffle(pool)[:140]
            pairs = list(itertools.product(pool, pool))
            exhaustive = False
        for a, b in pairs:
            lines.append(f"lat {nm} pair {a} {b}")
            meta.append((ti, a, b, exhaustive))
        if LR.bounded(t):
            lines.append(f"lat {nm} bounds")
            meta.append((ti, None, None, exhaustive))
    return lines, meta


def law_failures(tables, bounds, rng, tier):
    """the property itself, checked on the implementation's own answers: returns list of (line, why)"""
    bad = []
    for ti, tab in tables.items():
        nm = LR.name(LR.REGISTRY[ti])
        vals = sorted({a for a, _ in tab})
        def line(a, b): return f"lat {nm} pair {a} {b}"
        for (a, b), o in tab.items():
            w = None
            exp_ops = {"lt": "1100", "eq": "0101", "gt": "0011", "none": "0000"}[o["cmp"]]
            if o["ops"] != exp_ops: w = f"comparison operators {o['ops']} inconsistent with partial_cmp {o['cmp']}"
            elif o["jm"] != o["join"]: w = "join_mut leaves a different value than join"
            elif o["mm"] != o["meet"]: w = "meet_mut leaves a different value than meet"
            elif o["jf"] != (o["join"] != a): w = f"join_mut returned {o['jf']} but receiver {'changed' if o['join'] != a else 'did not change'}"
            elif o["mf"] != (o["meet"] != a): w = f"meet_mut returned {o['mf']} but receiver {'changed' if o['meet'] != a else 'did not change'}"
            elif (o["cmp"] == "eq") != (a == b): w = "partial_cmp = Equal does not coincide with equality"
            elif (o["cmp"] in ("lt", "eq")) != (o["join"] == b): w = "a <= b iff join(a,b) = b fails"
            elif (o["cmp"] in ("lt", "eq")) != (o["meet"] == a): w = "a <= b iff meet(a,b) = a fails"
            elif (b, a) in tab:
                p = tab[(b, a)]
                if p["cmp"] != SWAP[o["cmp"]]: w = "partial_cmp is not antisymmetric/reversible"
                elif p["join"] != o["join"]: w = "join is not commutative"
                elif p["meet"] != o["meet"]: w = "meet is not commutative"
            if w is None and a == b and (o["join"] != a or o["meet"] != a): w = "join/meet not idempotent"
            if w is None and (a, o["meet"]) in tab and tab[(a, o["meet"])]["join"] != a: w = "absorption join(a, meet(a,b)) = a fails"
            if w is None and (a, o["join"]) in tab and tab[(a, o["join"])]["meet"] != a: w = "absorption meet(a, join(a,b)) = a fails"
            if w: bad.append((line(a, b), w))
        # associativity and transitivity over triples (all when small, sampled otherwise)
        triples = itertools.product(vals, repeat=3) if len(vals) ** 3 <= (30000 if tier == "quick" else 400000) else \
            ((rng.choice(vals), rng.choice(vals), rng.choice(vals)) for _ in range(20000))
        for a, b, c in triples:
            ab, bc = tab.get((a, b)), tab.get((b, c))
            if not ab or not bc: continue
            l, r = tab.get((ab["join"], c)), tab.get((a, bc["join"]))
            if l and r and l["join"] != r["join"]:
                bad.append((line(a, b), f"join not associative with c={c}")); break
            l, r = tab.get((ab["meet"], c)), tab.get((a, bc["meet"]))
            if l and r and l["meet"] != r["meet"]:
                bad.append((line(a, b), f"meet not associative with c={c}")); break
            ac = tab.get((a, c))
            if ac and ab["cmp"] in ("lt", "eq") and bc["cmp"] in ("lt", "eq") and ac["cmp"] not in ("lt", "eq"):
                bad.append((line(a, b), f"<= not transitive with c={c}")); break
        if ti in bounds:
            bot, top = bounds[ti]
            for a in vals:
                if (bot, a) in tab and tab[(bot, a)]["cmp"] not in ("lt", "eq"): bad.append((f"lat {nm} bounds", f"bottom {bot} is not <= {a}"))
                if (a, top) in tab and tab[(a, top)]["cmp"] not in ("lt", "eq"): bad.append((f"lat {nm} bounds", f"{a} is not <= top {top}"))
    return bad


def check(tier, replay=None):
    r = core.Report("C16", tier)
    rng = core.SplitMix(core.seed()).fork("C16")
    if os.environ.get("VERIF_DEV_SKIP_PROOF"):
        proof = core.ProofResult(); core.run(["lake", "build", "driver"], cwd=core.LEAN)
    else:
        proof = core.lean_prove(MODULES, leanchecker=(tier == "thorough"))
        core.require_theorems(proof, THEOREMS)
    r.proof(proof, "lake build AscentVerif.Props.C16Basic AscentVerif.Props.C16Struct && #audit_module (axioms of every theorem)"
            + (" && lake env leanchecker" if tier == "thorough" else ""))
    binary, blog = tiec.build_ds(r)
    if binary is None:
        r.violation({"kind": "obligation-broken", "no_longer_checks": ["harness/ds does not build against the repository"], "log": blog[-2000:]}, no_input=True)
        return r.finish(TRUSTED)
    lines, meta = gen(tier if proof.ok else "thorough", rng)
    for fn, c in core.corpus("C16"):
        for l in c["ops"]:
            nm = l.split()[1]
            ti = [LR.name(t) for t in LR.REGISTRY].index(nm)
            toks = __import__("vlib.sexp_py", fromlist=["x"]).split_top(l)
            lines.append(l); meta.append((ti, toks[3], toks[4], False))
    model_ok = proof.ok or os.path.exists(core.lean_driver())
    rc, impl, model, err = tiec.run_both(binary, lines, model_ok)
    if len(impl) != len(lines) or (model is not None and len(model) != len(lines)):
        r.violation({"kind": "obligation-broken", "no_longer_checks": [f"harness/model output length impl={len(impl)} model={None if model is None else len(model)} ops={len(lines)} rc={rc}"], "stderr": err[-800:]}, no_input=True)
        return r.finish(TRUSTED)
    tables, bounds, per_type = {}, {}, {}
    d = tiec.Decision(r)
    bad_shape = {}
    for i, line in enumerate(lines):
        ti, a, b, ex = meta[i]
        out = canon(impl[i])
        if a is None:
            m = re.match(r"^bottom=(.*) top=(.*)$", out)
            if m: bounds[ti] = (m.group(1), m.group(2))
            else: bad_shape[line] = "unparsable output " + out
            continue
        o = parse_out(out)
        if o is None:
            bad_shape[line] = ("panics" if out == "panic" else "unparsable output " + out)
            continue
        tables.setdefault(ti, {})[(canon(a), canon(b))] = o
        per_type[LR.name(LR.REGISTRY[ti])] = per_type.get(LR.name(LR.REGISTRY[ti]), 0) + 1
    lawbad = dict(bad_shape)
    for l, w in law_failures(tables, bounds, rng, tier):
        lawbad.setdefault(canon(l), w)
    for i, line in enumerate(lines):
        m = canon(model[i]) if model is not None else None
        d.case(line, canon(impl[i]), m, lambda l, o: lawbad.get(canon(l)) if o == canon(impl[i]) else None, nontrivial=meta[i][1] != meta[i][2])
        if i % 2999 == 0:
            r.sample({"op": line, "impl": impl[i], "model": model[i] if model is not None else None})
    r.cov["pairs_per_type"] = per_type
    r.cov["types"] = len(LR.REGISTRY)
    r.cov["exhaustive_types"] = sorted({LR.name(LR.REGISTRY[m[0]]) for m in meta if m[3]})
    r.cov["exhaustive"] = False
    r.cov["rule"] = ("for each of the registered lattice types (tools/lat_registry.py): every ordered pair of carrier values when "
                     "|carrier|^2 <= cap, else all pairs over a PRNG-chosen pool; each pair is one op evaluating partial_cmp, <,<=,>,>=, "
                     "join, meet, join_mut, meet_mut on the real type and on the model; laws (incl. associativity/transitivity over "
                     "triples, absorption, bounds) are checked on the implementation's own answer table; non-trivial = pair with a != b")
    d.conclude(proof, "lattice operations")
    return r.finish(TRUSTED)
