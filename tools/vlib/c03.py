"""C03 — lattice relations hold one row per key carrying the least fixed point."""
from . import core, eng, gen, engcheck

THEOREMS = ["headLat_spec", "run_lattice_key_unique", "run_lattice_closed", "run_lattice_least", "run_lattice_rel_rows_set", "std_latOrder_maxmin", "ndl_least_fixed_point", "deterministic_is_ndl", "runPhysLat_spec", "dist_hyps"]
TRUSTED = ["Lean 4.33.0 kernel", "axioms: propext, Classical.choice, Quot.sound only (audited per theorem)",
           "statement: Props/C03.lean", "model Model/Engine.lean (headLat: look-up in new/delta/total, join_mut in place, re-queue iff changed) with the C16 "
           "lattice model as join_mut; tied by compiled programs with lattice relations over i64 / Dual<i64> / Set<i64> / Option<i64>",
           "Props/C03ND.lean (Proofs/NDLattice.lean): the lattice engine as a RELATION - a pass is a trace of micro-steps, each processing some rule-variant instance with the row values of "
           "ANY state the pass has already been through (snapshot at variant start, live reads, ...), in any order, complete on the rows that did not change during the pass; every such "
           "execution reaches the least fixed point (ndl_least_fixed_point) and the deterministic engine model is one (deterministic_is_ndl): the real code's live reads of lattice rows "
           "in hash order are covered by the theorem, not only by the snapshot model",
           "Props/C03Phys.lean (Model/EnginePhysLat.lean, Proofs/PhysLat*.lean): the generated code with lattice relations over its PHYSICAL indices (row vector with the value "
           "joined in place, key index key->row number, set-valued row-number indices, three versions each, head update: look-up in new/delta/total, join_mut, re-insert the row "
           "number into every new index iff changed) reaches the least fixed point (runPhysLat_spec, by forward simulation onto the relation of Props/C03ND.lean); hypotheses: "
           "desugared well-scoped rules and latPlanOk (decidable; no clause reads an index of a lattice that contains the value column - finding F9 lies exactly outside); "
           "tied by `eng runpl` on every odd input of this check",
           "parallel mode with lattices at the level of the concurrent indices: Props/C02PhysLat.lean (claimed by C02)",
           "monotone use of lattice values is a hypothesis (generated programs let lattice variables flow only into lattice columns)"]


def build(rng, tier):
    n = 16 if tier == "quick" else 80
    plist = engcheck.make_programs(rng.fork("c03"), n, genf=gen.gen_lat_program, filt=gen.lat_ok)
    progs, mods, cases = {}, [], []
    for i, p in enumerate(plist):
        pid = f"l{i}"
        progs[pid] = p
        mods.append((pid, eng.rs_module(pid, p)))
        for j in range(8 if tier == "quick" else 40):
            inp = gen.gen_lat_input(rng.fork(f"{pid}i{j}"), p)
            inst = f"{pid}_{j}"
            # odd inputs: the Lean side is the physical-index engine model with lattices (`eng runpl`, Model/EnginePhysLat.lean: key index, set-valued row-number
            # indices, in-place join, re-queue into every new index); the real code is the same run()
            hist = engcheck.std_history(inst, pid, inp)
            if j % 2 == 1: hist = [o.replace("eng run ", "eng runpl ") for o in hist]
            cases.append(engcheck.Case(pid, inst, hist, {"inp": inp, "kind": "lattice"}))
        # re-use of the program value: run(); rows removed from the lattice's vector (and from another relation); run() again - the key index (key -> row number)
        # and the row-number indices must be rebuilt from the vector; oracle: the least fixed point over the rows then present
        lats = [r for r, d in enumerate(p["rels"]) if d.get("lat")]
        for j in range(2 if tier == "quick" else 8):
            g = rng.fork(f"{pid}u{j}")
            inp = gen.gen_lat_input(g.fork("i"), p)
            inst = f"{pid}_u{j}"
            ops, inp2 = engcheck.reuse_history(g, p, inst, pid, inp, run2="runpl" if j % 2 else "run", force_clear=None if j % 2 else g.choice(lats), force_sub=g.choice(lats))
            cases.append(engcheck.Case(pid, inst, ops, {"inp": inp2, "kind": "lattice-reuse"}))
    # the README shortest-path shape on graphs with cheap long chains and expensive shortcuts: the lattice is read through a non-key index
    # inside its own stratum, keys are improved several iterations after their rows were queued, a later stratum reads the final values
    sp = gen.sp_program()
    progs["lsp"] = sp
    mods.append(("lsp", eng.rs_module("lsp", sp)))
    for j in range(12 if tier == "quick" else 80):
        inp = gen.sp_input(rng.fork(f"lsp{j}"))
        inst = f"lsp_{j}"
        hist = engcheck.std_history(inst, "lsp", inp)
        if j % 2 == 1: hist = [o.replace("eng run ", "eng runpl ") for o in hist]
        cases.append(engcheck.Case("lsp", inst, hist, {"inp": inp, "kind": "shortest-paths"}))
    # forced shape "lattice column bound to the TOP value": the shortest-path lattice (Dual min, every edge weighs >= 1) read with its value column bound to the constant 1 -
    # `direct(x, y) <-- query(x), sp(x, y, 1)` and `one(y) <-- sp(w, y, 1)`: a monotone use (no value lies above the top), which goes through lattice indices that CONTAIN the
    # value column ([0,2] and [2] of an arity-3 lattice: as many columns as the key index / fewer), several rows per index key, rows reaching the top in different iterations
    lt = gen.sp_program()
    lt = {"rels": lt["rels"] + [{"arity": 2}, {"arity": 1}], "rules": lt["rules"] + [
        {"heads": [(5, [("var", 0), ("var", 1)])], "body": [("cl", 1, [("v", 0)], []), ("cl", 2, [("v", 0), ("v", 1), ("e", 1)], [])]},
        {"heads": [(6, [("var", 1)])], "body": [("cl", 2, [("v", 7), ("v", 1), ("e", 1)], [])]}]}
    progs["ltop"] = lt
    mods.append(("ltop", eng.rs_module("ltop", lt)))
    mods.append(("ltopp", eng.rs_module("ltopp", lt, macro="ascent_par")))
    progs["ltopp"] = lt
    for j in range(10 if tier == "quick" else 40):
        g = rng.fork(f"ltop{j}")
        inp = gen.sp_input(g)
        n = 1 + max(max(a, b) for a, b, _ in inp[0])
        inp[0] = list(dict.fromkeys(inp[0] + [(g.below(n), g.below(n), 1) for _ in range(g.range(1, 4))]))
        inp[0] = list({(a, b): (a, b, w) for a, b, w in inp[0] if a != b}.values())
        inp[1] = [(x,) for x in range(n) if g.chance(2, 3)] or [(0,)]
        inp[5], inp[6] = [], []
        for pid in ("ltop", "ltopp"):
            inst = f"{pid}_{j}"
            hist = engcheck.std_history(inst, pid, inp)
            if pid == "ltopp": hist[0] += f" par {g.choice([1, 2, 4, 8])}"
            cases.append(engcheck.Case(pid, inst, hist, {"inp": inp, "kind": "lattice-column-bound-to-top" + ("-par" if pid == "ltopp" else "")}))
    # forced shape "many workers create the same NEW keys at the same moment" (ascent_par!): `best(k, x) <-- src(x), for k in 0..3000` with 64 source rows - every worker walks
    # the same sequence of brand-new lattice keys in lockstep; whatever decides "this key has no row yet, I push one" must be atomic with publishing the row in the key index
    # (one row per key, holding the maximum).  Too large for the executable model: judged by the oracle (least fixed point + one row per key)
    lr = {"rels": [{"arity": 1}, {"arity": 2, "lat": "max"}, {"arity": 2}],
          "rules": [{"heads": [(1, [("var", 1), ("var", 0)])], "body": [("cl", 0, [("v", 0)], []), ("for", 1, ("range", 0, 3000))]},
                    {"heads": [(2, [("var", 0), ("var", 1)])], "body": [("cl", 1, [("v", 0), ("v", 1)], []), ("if", ("lt", ("var", 0), 40))]}]}
    progs["lrace"] = lr
    mods.append(("lrace", eng.rs_module("lrace", lr, macro="ascent_par")))
    for j, t in enumerate([8, 16, 4, 16] if tier == "quick" else [2, 4, 8, 16] * 4):
        inp = {0: [(x,) for x in range(64)], 1: [], 2: []}
        inst = f"lrace_{j}"
        hist = engcheck.std_history(inst, "lrace", inp); hist[0] += f" par {t}"
        cases.append(engcheck.Case("lrace", inst, hist, {"inp": inp, "kind": "lattice-new-key-race-par", "no_model": True}))
    return progs, mods, cases


def oracle(c, p, out):
    dump = out[-1]
    w = engcheck.check_sets(p, dump, engcheck.spec_sets(p, c.meta["inp"]))
    if w: return w
    _, mult = engcheck.dump_sets(dump)
    for r, d in enumerate(p["rels"]):
        if d.get("lat"):
            keys = {}
            for t, m in mult.get(r, {}).items():
                k = eng.split_key(t)
                keys[k] = keys.get(k, 0) + m
            bad = [k for k, m in keys.items() if m != 1]
            if bad: return f"lattice r{r} has {keys[bad[0]]} rows for key {bad[0]}"
    return None


def canon(c, out):
    if c.meta.get("no_model"): return ["<too large for the Lean model: judged by the oracle>" for _ in out]
    return out


def check(tier, replay=None):
    return engcheck.run_property("C03", tier, canon=canon, modules=["AscentVerif.Props.C03", "AscentVerif.Props.C03ND", "AscentVerif.Props.C03Phys"], theorems=THEOREMS, trusted=TRUSTED, group="c03",
                                 build=build, oracle=oracle, what="compiled lattice programs",
                                 rule="generated programs with 1-2 lattice relations (max / Dual min / Set union / Option), seeded from relations, recursive through "
                                      "the lattice (shortest-path shape, saturating increments), lattice values flowing only into lattice columns; inputs with one "
                                      "row per key; compared with the model (rows with multiplicities) and with the Kleene-iteration oracle; one row per key checked")
