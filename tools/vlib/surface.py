"""Surface (sugared) Ascent programs: AST, printers and the DOCUMENTED expansion into the core language of eng.py.

Extends the core AST of eng.py (which stays untouched):
  sprog  = {"rels": [{"arity": n, "lat": None|kind, "types": ["int"|"opt", ...]?}], "macros": [macro], "rules": [srule]}
  macro  = {"params": ["ident"|"expr", ...], "body": [sitem]}            (a body macro)
         | {"params": [...], "heads": [shead]}                            (a head macro)       name = m<index>
  srule  = {"heads": [shead], "body": [sitem]}            body == []  : an unconditional fact
  shead  = (rel, [ex]) | ("mac", m, [marg])
  sitem  = ("cl", rel, [sarg], [cond]) | ("if", bx) | ("let", v, ex) | ("iflet", v, ex) | ("for", v, gx) | ("agg", ...)   (as in eng.py)
         | ("or", [[sitem], ...])            disjunction, nests
         | ("neg", rel, [narg])              !rel(args)
         | ("mac", m, [marg])                m!(args)
  sarg   = ("v", var) | ("e", ex) | ("_",) | ("some", var) | ("none",)         `?Some(x)` / `?None` on an Option<i64> column
  narg   = ("_",) | ("e", ex)
  marg   = ("id", var) | ("ex", ex)
  var    = int (call site, or macro-LOCAL inside a macro definition) | ("p", i)  (parameter i, inside a macro definition only)
Expressions mention variables as ("var", var) as in eng.py.

`expand_spec` is the property oracle's reading of the documentation (README.MD, MACROS.MD, statement of C07/C08); it is written
against the documentation, not against ascent_syntax.rs:
  * a disjunction is the union of the rules obtained by picking one disjunct per disjunction (nested: recursively);
  * `?Some(x)` / `?None` argument: a fresh variable in the column plus `if let Some(x) = fresh` / a None test;
  * any clause argument that is not the first occurrence of a variable (repeated variable, constant, expression - possibly mentioning
    earlier columns of the same clause): a fresh variable in the column plus `if fresh == expr`;
  * `_`: a fresh variable;  `!r(a)`: `agg () = not() in r(a)`;  n head clauses: n rules;  no body: a fact;
  * macro invocation: the body with parameters substituted AS EXPRESSIONS / IDENTIFIERS and every macro-local identifier renamed
    to a name that is fresh for this invocation.
"""
import copy
from . import eng

PBASE = 900        # s-expression encoding of macro parameter i: variable number PBASE + i (user variables are < PBASE)
MAX_DEPTH = 100


class RecursiveMacro(Exception):
    pass


# ------------------------------------------------------------------ types / declarations

def rel_types(p, r):
    d = p["rels"][r]
    return list(d.get("types") or ["int"] * d["arity"])


def col_types(p, r, nm):
    d = p["rels"][r]
    tys = [nm.ity if t == "int" else "Option<i64>" for t in rel_types(p, r)]
    if d.get("lat"): tys[-1] = eng.LAT_TY[d["lat"]]
    return tys


def rs_decls(p, nm):
    return [f"{'lattice' if d.get('lat') else 'relation'} {nm.rel(r)}({', '.join(col_types(p, r, nm))});" for r, d in enumerate(p["rels"])]


# ------------------------------------------------------------------ Ascent text printer (type agnostic: every variable read is `name.clone()`)

class Ctx:
    def __init__(self, nm=None, params=None, bare_args=False, usize=None):
        self.nm = nm or eng.Names()
        self.params = params          # kinds of the enclosing macro definition's parameters (None at a call site)
        self.bare_args = bare_args    # print expr arguments of macro invocations without the outer parentheses
        self.usize = usize if usize is not None else set()   # variables bound by `count`
        self.blk = False              # inside a macro definition: write every other read of a macro-local variable as `{ let v = v.clone(); v }`
        self.blk_n = 0
        self.rsm = False              # inside a macro definition: reads of macro-local variables / comparisons written through Rust macros NESTED in a larger expression
        self.rsm_n = 0

    def var(self, v):
        if isinstance(v, tuple): return f"$p{v[1]}"
        return self.nm.var(v)


def s_ex(e, cx):
    if isinstance(e, bool): raise ValueError(e)
    if isinstance(e, int): return cx.nm.const(e) if e >= 0 else f"({e})"
    if e == "none": return "None::<i64>"     # a bare `None` argument would be read as a VARIABLE named None
    if e[0] == "var":
        v = e[1]
        if isinstance(v, tuple) and cx.params and cx.params[v[1]] == "expr": return f"$p{v[1]}"      # pasted as is
        if v in cx.usize: return f"({cx.var(v)}.clone() as {cx.nm.ity})"
        if cx.blk and cx.params is not None and isinstance(v, int):
            cx.blk_n += 1
            if cx.blk_n % 2 == 1: return f"{{ let {cx.var(v)} = {cx.var(v)}.clone(); {cx.var(v)} }}"
        if cx.rsm and cx.params is not None and isinstance(v, int):
            cx.rsm_n += 1
            if cx.rsm_n % 2 == 1: return f"vec![{cx.var(v)}.clone()][0].clone()"       # a Rust macro invocation that is NOT the whole expression
        return f"{cx.var(v)}.clone()"
    if e[0] == "somex": return f"Some({s_ex(e[1], cx)})"
    a, b = s_ex(e[1], cx), s_ex(e[2], cx)
    op = {"add": "+", "sub": "-", "mul": "*"}.get(e[0])
    return f"({a} {op} {b})" if op else f"std::cmp::{e[0]}({a}, {b})"


def s_bx(b, cx):
    if b == "tt": return "true"
    if b[0] in ("and", "or"): return f"({s_bx(b[1], cx)} {'&&' if b[0] == 'and' else '||'} {s_bx(b[2], cx)})"
    if b[0] == "not": return f"!({s_bx(b[1], cx)})"
    op = {"lt": "<", "le": "<=", "eq": "==", "ne": "!="}[b[0]]
    if cx.rsm and cx.params is not None:
        cx.rsm_n += 1
        if cx.rsm_n % 3 == 0: return f"!matches!({s_ex(b[1], cx)} {op} {s_ex(b[2], cx)}, false)"     # `matches!` under a unary operator
    return f"({s_ex(b[1], cx)} {op} {s_ex(b[2], cx)})"


def s_cond(c, cx):
    if c[0] == "if": return f"if {s_bx(c[1], cx)}"
    if c[0] == "let": return f"let {cx.var(c[1])} = {s_ex(c[2], cx)}"
    if c[0] == "iflet": return f"if let Some({cx.var(c[1])}) = {s_ex(c[2], cx)}"
    raise ValueError(c)


def s_marg(a, cx):
    if a[0] == "id": return cx.var(a[1])
    s = s_ex(a[1], cx)
    if cx.bare_args and s.startswith("(") and s.endswith(")") and balanced(s[1:-1]): s = s[1:-1]
    return s


def balanced(s):
    d = 0
    for ch in s:
        if ch == "(": d += 1
        if ch == ")":
            d -= 1
            if d < 0: return False
    return d == 0


def s_item(it, cx):
    k = it[0]
    if k == "cl":
        args = []
        for a in it[2]:
            if a[0] == "v": args.append(cx.var(a[1]))
            elif a[0] == "e": args.append(s_ex(a[1], cx))
            elif a[0] == "_": args.append("_")
            elif a[0] == "some": args.append(f"?Some({cx.var(a[1])})")
            elif a[0] == "none": args.append("?None")
            else: raise ValueError(a)
        return f"{cx.nm.rel(it[1])}({', '.join(args)})" + "".join(" " + s_cond(c, cx) for c in it[3])
    if k == "or":
        # an alternative that ends in a condition / generator is wrapped in its own parentheses: `if c | r(x)` would be read as the
        # Rust expression `c | r(x)` (syntactic ambiguity of the disjunction token, not a semantic question)
        def alt_text(alt, last):
            t = ", ".join(s_item(x, cx) for x in alt)
            ends_open = alt and (alt[-1][0] in ("if", "let", "iflet", "for") or (alt[-1][0] == "cl" and alt[-1][3]))
            return f"({t})" if ends_open and not last else t
        return "(" + " | ".join(alt_text(alt, i == len(it[1]) - 1) for i, alt in enumerate(it[1])) + ")"
    if k == "neg":
        return f"!{cx.nm.rel(it[1])}(" + ", ".join("_" if a[0] == "_" else s_ex(a[1], cx) for a in it[2]) + ")"
    if k == "mac":
        return f"m{it[1]}!(" + ", ".join(s_marg(a, cx) for a in it[2]) + ")"
    if k == "for":
        g = it[2]
        gs = f"{s_ex(g[1], cx)}..{s_ex(g[2], cx)}" if g[0] == "range" else "[" + ", ".join(s_ex(x, cx) for x in g[1]) + "]"
        return f"for {cx.var(it[1])} in {gs}"
    if k == "agg":
        outs, fn, bound, rel, aargs = it[1:]
        al = ["_" if a == "_" else (cx.var(a[1]) if a[0] == "b" else s_ex(a[1], cx)) for a in aargs]
        pat = "()" if not outs else cx.var(outs[0])
        if fn == "count": cx.usize.update(outs)
        return f"agg {pat} = {fn}({', '.join(cx.var(b) for b in bound)}) in {cx.nm.rel(rel)}({', '.join(al)})"
    return s_cond(it, cx)


def s_head(h, cx):
    if h[0] == "mac": return f"m{h[1]}!(" + ", ".join(s_marg(a, cx) for a in h[2]) + ")"
    hs = []
    for e in h[1]:
        if isinstance(e, tuple) and e[0] == "var" and e[1] not in cx.usize and not (isinstance(e[1], tuple) and cx.params and cx.params[e[1][1]] == "expr"):
            hs.append(cx.var(e[1]))          # plain variable: goes through Convert::convert
        else: hs.append(s_ex(e, cx))
    return f"{cx.nm.rel(h[0])}({', '.join(hs)})"


def s_rule(r, nm=None, bare_args=False):
    cx = Ctx(nm, bare_args=bare_args)
    body = [s_item(it, cx) for it in r["body"]]       # body first: binds the usize variables
    heads = ", ".join(s_head(h, cx) for h in r["heads"])
    return heads + (" <-- " + ", ".join(body) if body else "") + ";"


def s_macro(i, m, nm=None):
    cx = Ctx(nm, params=m["params"])
    cx.blk = bool(m.get("blk"))
    cx.rsm = bool(m.get("rsm"))
    ps = ", ".join(f"$p{j}: {k}" for j, k in enumerate(m["params"]))
    if "heads" in m: inner = ", ".join(s_head(h, cx) for h in m["heads"])
    else: inner = ", ".join(s_item(it, cx) for it in m["body"])
    return f"macro m{i}({ps}) {{ {inner} }}"


def s_program(p, nm=None, macro="ascent", struct="Prog", bare_args=False):
    nm = nm or eng.Names()
    lines = [f"{macro}! {{", f"   pub struct {struct};"] + ["   " + d for d in rs_decls(p, nm)]
    lines += ["   " + s_macro(i, m, nm) for i, m in enumerate(p.get("macros", []))]
    lines += ["   " + s_rule(r, nm, bare_args) for r in p["rules"]]
    lines.append("}")
    return "\n".join(lines)


def rs_module(name, p, nm=None, macro="ascent", bare_args=False):
    """module with the program and its Driver impl (same line protocol as eng.rs_module)"""
    nm = nm or eng.Names()
    par = macro == "ascent_par"
    body = s_program(p, nm, macro, bare_args=bare_args)
    loads, dumps = [], []
    for r, d in enumerate(p["rels"]):
        ty = "(" + "".join(t + "," for t in col_types(p, r, nm)) + ")"
        f = nm.rel(r)
        if not par:
            loads.append(f"         {r} => {{ let v: Vec<{ty}> = parse_rows(rows)?; if append {{ self.p.{f}.extend(v) }} else {{ self.p.{f} = v }} }},")
            dumps.append(f"dump_rel({r}, self.p.{f}.iter().map(Row::render).collect())")
        elif d.get("lat"):
            loads.append(f"         {r} => {{ let v: Vec<{ty}> = parse_rows(rows)?; if !append {{ self.p.{f} = Default::default(); }} for x in v {{ self.p.{f}.push(std::sync::RwLock::new(x)); }} }},")
            dumps.append(f"dump_rel({r}, self.p.{f}.iter().map(|x| x.read().unwrap().render()).collect())")
        else:
            loads.append(f"         {r} => {{ let v: Vec<{ty}> = parse_rows(rows)?; if !append {{ self.p.{f} = Default::default(); }} for x in v {{ self.p.{f}.push(x); }} }},")
            dumps.append(f"dump_rel({r}, self.p.{f}.iter().map(|x| x.render()).collect())")
    nl = chr(10)
    return f"""#[allow(unused, non_snake_case, clippy::all)]
pub mod {name} {{
   use ascent::*;
   use ascent::aggregators::*;
   use ascent::lattice::{{Dual, set::Set, bounded_set::BoundedSet}};
   use crate::common::*;
   {body.replace(nl, nl + '   ')}
   pub struct Inst {{ p: Prog, pool: Option<std::sync::Arc<ascent::rayon::ThreadPool>> }}
   pub fn make(pool: Option<usize>) -> Box<dyn Driver> {{
      let pool = pool.map(crate::common::pool_of);
      let p = match &pool {{ Some(pl) => pl.install(|| Default::default()), None => Default::default() }};
      Box::new(Inst {{ p, pool }})
   }}
   impl Driver for Inst {{
      fn load(&mut self, rel: usize, rows: &[Sexp], append: bool) -> Option<()> {{
         match rel {{
{nl.join(loads)}
            _ => return None,
         }}
         Some(())
      }}
      fn run(&mut self) {{ match &self.pool {{ Some(pl) => {{ let p = &mut self.p; pl.install(|| p.run()) }}, None => self.p.run() }} }}
      fn run_here(&mut self) {{ self.p.run() }}
      fn run_timeout(&mut self, k: usize) -> Option<bool> {{ let _ = k; None }}
      fn dump(&self) -> String {{ vec![{', '.join(dumps)}].join(" | ") }}
      fn iters(&self) -> String {{ format!("iters {{}}", self.p.scc_iters.iter().map(|x| x.to_string()).collect::<Vec<_>>().join(" ")) }}
   }}
}}
"""


# ------------------------------------------------------------------ s-expression printer (input of the Lean driver op `eng sprog`)

def vnum(v): return PBASE + v[1] if isinstance(v, tuple) else v


def enc_ex(e):
    """expression with parameters encoded as variable numbers"""
    if isinstance(e, tuple):
        if e[0] == "var": return ("var", vnum(e[1]))
        return (e[0],) + tuple(enc_ex(x) for x in e[1:])
    return e


def enc_bx(b):
    if b == "tt": return b
    if b[0] in ("and", "or"): return (b[0], enc_bx(b[1]), enc_bx(b[2]))
    if b[0] == "not": return ("not", enc_bx(b[1]))
    return (b[0], enc_ex(b[1]), enc_ex(b[2]))


def enc_cond(c):
    if c[0] == "if": return ("if", enc_bx(c[1]))
    return (c[0], vnum(c[1]), enc_ex(c[2]))


def sx_marg(a): return f"(id {vnum(a[1])})" if a[0] == "id" else f"(ex {eng.sx_ex(enc_ex(a[1]))})"


def sx_sitem(it):
    k = it[0]
    if k == "cl":
        args = []
        for a in it[2]:
            if a[0] == "v": args.append(f"(v {vnum(a[1])})")
            elif a[0] == "e": args.append(f"(e {eng.sx_ex(enc_ex(a[1]))})")
            elif a[0] == "_": args.append("_")
            elif a[0] == "some": args.append(f"(ps {vnum(a[1])})")
            else: args.append("pn")
        return f"(cl {it[1]} ({' '.join(args)})" + "".join(" " + eng.sx_cond(enc_cond(c)) for c in it[3]) + ")"
    if k == "or": return "(or " + " ".join("(alt" + "".join(" " + sx_sitem(x) for x in alt) + ")" for alt in it[1]) + ")"
    if k == "neg": return f"(neg {it[1]} (" + " ".join("_" if a[0] == "_" else f"(k {eng.sx_ex(enc_ex(a[1]))})" for a in it[2]) + "))"
    if k == "mac": return f"(mac {it[1]}" + "".join(" " + sx_marg(a) for a in it[2]) + ")"
    if k == "for":
        g = it[2]
        g2 = ("range", enc_ex(g[1]), enc_ex(g[2])) if g[0] == "range" else ("list", [enc_ex(x) for x in g[1]])
        return f"(for {vnum(it[1])} {eng.sx_gx(g2)})"
    if k == "agg":
        outs, fn, bound, rel, aargs = it[1:]
        return eng.sx_item(("agg", [vnum(o) for o in outs], fn, [vnum(b) for b in bound], rel,
                            ["_" if a == "_" else ((a[0], vnum(a[1])) if a[0] == "b" else ("k", enc_ex(a[1]))) for a in aargs]))
    return eng.sx_cond(enc_cond(it))


def sx_shead(h):
    if h[0] == "mac": return f"(mac {h[1]}" + "".join(" " + sx_marg(a) for a in h[2]) + ")"
    return "(" + " ".join([str(h[0])] + [eng.sx_ex(enc_ex(e)) for e in h[1]]) + ")"


def sx_sprog(p):
    rels = " ".join(f"(rel {r['arity']})" if not r.get("lat") else f"(lat {r['arity']} {r['lat']})" for r in p["rels"])
    macs = []
    for m in p.get("macros", []):
        ps = " ".join(m["params"])
        if "heads" in m: macs.append(f"(hmac ({ps})" + "".join(" " + sx_shead(h) for h in m["heads"]) + ")")
        else: macs.append(f"(bmac ({ps})" + "".join(" " + sx_sitem(i) for i in m["body"]) + ")")
    rules = " ".join("(srule (heads" + "".join(" " + sx_shead(h) for h in r["heads"]) + ") (body" + "".join(" " + sx_sitem(i) for i in r["body"]) + "))"
                     for r in p["rules"])
    return f"(sprog (rels {rels}) (macros {' '.join(macs)}) (rules {rules}))"


# ------------------------------------------------------------------ the documented expansion

class Fresh:
    def __init__(self, start): self.n = start
    def __call__(self):
        self.n += 1
        return self.n - 1


def map_ex(e, fv):
    """fv(var) -> replacement expression"""
    if isinstance(e, tuple):
        if e[0] == "var": return fv(e[1])
        return (e[0],) + tuple(map_ex(x, fv) for x in e[1:])
    return e


def map_bx(b, fv):
    if b == "tt": return b
    if b[0] in ("and", "or"): return (b[0], map_bx(b[1], fv), map_bx(b[2], fv))
    if b[0] == "not": return ("not", map_bx(b[1], fv))
    return (b[0], map_ex(b[1], fv), map_ex(b[2], fv))


def inst_item(it, fb, fv):
    """instantiate a macro-body item: fb(var) -> variable for binder / column positions, fv(var) -> expression for reads"""
    k = it[0]
    def cond(c):
        if c[0] == "if": return ("if", map_bx(c[1], fv))
        return (c[0], fb(c[1]), map_ex(c[2], fv))
    def marg(a):
        if a[0] == "id":
            e = fv(a[1])       # an ident parameter handed on to a nested invocation
            return ("id", e[1]) if isinstance(e, tuple) and e[0] == "var" else ("ex", e)
        return ("ex", map_ex(a[1], fv))
    if k == "cl":
        args = []
        for a in it[2]:
            if a[0] == "v":
                e = fv(a[1])
                args.append(("v", e[1]) if isinstance(e, tuple) and e[0] == "var" else ("e", e))
            elif a[0] == "e": args.append(("e", map_ex(a[1], fv)))
            elif a[0] == "some": args.append(("some", fb(a[1])))
            else: args.append(a)
        return ("cl", it[1], args, [cond(c) for c in it[3]])
    if k == "or": return ("or", [[inst_item(x, fb, fv) for x in alt] for alt in it[1]])
    if k == "neg": return ("neg", it[1], [a if a[0] == "_" else ("e", map_ex(a[1], fv)) for a in it[2]])
    if k == "mac": return ("mac", it[1], [marg(a) for a in it[2]])
    if k == "for":
        g = it[2]
        g2 = ("range", map_ex(g[1], fv), map_ex(g[2], fv)) if g[0] == "range" else ("list", [map_ex(x, fv) for x in g[1]])
        return ("for", fb(it[1]), g2)
    if k == "agg":
        outs, fn, bound, rel, aargs = it[1:]
        return ("agg", [fb(o) for o in outs], fn, [fb(b) for b in bound], rel,
                ["_" if a == "_" else (("b", fb(a[1])) if a[0] == "b" else ("k", map_ex(a[1], fv))) for a in aargs])
    return cond(it)


def inst_head(h, fb, fv):
    if h[0] == "mac":
        out = []
        for a in h[2]:
            if a[0] == "id":
                e = fv(a[1]); out.append(("id", e[1]) if isinstance(e, tuple) and e[0] == "var" else ("ex", e))
            else: out.append(("ex", map_ex(a[1], fv)))
        return ("mac", h[1], out)
    return (h[0], [map_ex(e, fv) for e in h[1]])


PREC = {"mul": 2, "add": 1, "sub": 1}


def resolve_bare(e):
    """re-read an expression in which ("bare", x) marks an argument pasted as raw tokens (no grouping): Rust's precedence decides"""
    if not isinstance(e, tuple): return e
    if e[0] == "bare": return resolve_bare(e[1])
    if e[0] == "var": return e
    if e[0] in PREC:
        x, y = e[1], e[2]
        if isinstance(x, tuple) and x[0] == "bare" and isinstance(x[1], tuple) and x[1][0] in PREC and PREC[e[0]] > PREC[x[1][0]]:
            return resolve_bare((x[1][0], x[1][1], (e[0], ("bare", x[1][2]), y)))
        if isinstance(y, tuple) and y[0] == "bare" and isinstance(y[1], tuple) and y[1][0] in PREC and PREC[y[1][0]] <= PREC[e[0]]:
            return resolve_bare((y[1][0], (e[0], x, ("bare", y[1][1])), y[1][2]))
    return (e[0],) + tuple(resolve_bare(x) for x in e[1:])


def resolve_bare_all(x):
    if isinstance(x, tuple):
        if x and x[0] in ("bare", "var", "add", "sub", "mul", "min", "max", "somex"): return resolve_bare(x)
        return tuple(resolve_bare_all(y) for y in x)
    if isinstance(x, list): return [resolve_bare_all(y) for y in x]
    if isinstance(x, dict): return {k: resolve_bare_all(v) for k, v in x.items()}
    return x


def invocation_maps(m, args, fresh, bare=False):
    """the two substitutions of one invocation: parameters -> arguments, macro-local identifiers -> names fresh for THIS invocation"""
    if len(args) != len(m["params"]): raise ValueError("macro arity")
    if bare: args = [a if a[0] == "id" or (isinstance(a[1], tuple) and a[1][0] == "bare") or not (isinstance(a[1], tuple) and a[1][0] in PREC) else ("ex", ("bare", a[1])) for a in args]
    ren = {}
    def local(v):
        if v not in ren: ren[v] = fresh()
        return ren[v]
    def fv(v):
        if isinstance(v, tuple):
            a = args[v[1]]
            return ("var", a[1]) if a[0] == "id" else a[1]
        return ("var", local(v))
    def fb(v):
        if isinstance(v, tuple):
            a = args[v[1]]
            if a[0] != "id": raise ValueError("expression argument in a binder position")
            return a[1]
        return local(v)
    return fb, fv


def expand_macros_body(items, macros, fresh, depth=MAX_DEPTH, bare=False):
    out = []
    for it in items:
        if it[0] == "mac":
            if depth <= 0: raise RecursiveMacro()
            m = macros[it[1]]
            fb, fv = invocation_maps(m, it[2], fresh, bare)
            out += expand_macros_body([inst_item(x, fb, fv) for x in m["body"]], macros, fresh, depth - 1, bare)
        elif it[0] == "or":
            if depth <= 0: raise RecursiveMacro()
            out.append(("or", [expand_macros_body(alt, macros, fresh, depth - 1, bare) for alt in it[1]]))
        else: out.append(it)
    return out


def expand_macros_heads(heads, macros, fresh, depth=MAX_DEPTH, bare=False):
    out = []
    for h in heads:
        if h[0] == "mac":
            if depth <= 0: raise RecursiveMacro()
            m = macros[h[1]]
            fb, fv = invocation_maps(m, h[2], fresh, bare)
            out += expand_macros_heads([inst_head(x, fb, fv) for x in m["heads"]], macros, fresh, depth - 1, bare)
        else: out.append(h)
    return out


def products(items):
    """one flat body per choice of one disjunct from each disjunction (nested disjunctions: recursively)"""
    res = [[]]
    for it in items:
        alts = [x for alt in it[1] for x in products(alt)] if it[0] == "or" else [[it]]
        res = [a + b for a in res for b in alts]
    return res


def binders(it):
    """variables a core item binds when they are not bound yet"""
    k = it[0]
    if k == "cl": return [a[1] for a in it[2] if a[0] == "v"] + [c[1] for c in it[3] if c[0] in ("let", "iflet")]
    if k in ("let", "iflet", "for"): return [it[1]]
    if k == "agg": return list(it[1])
    return []


def expand_flat(body, fresh):
    """clause arguments, wildcards, negation of one disjunction-free body"""
    bound, out = set(), []
    for it in body:
        if it[0] == "cl":
            args, conds, seen = [], [], set()
            for a in it[2]:
                if a[0] == "v" and a[1] not in bound and a[1] not in seen:
                    args.append(a); seen.add(a[1]); continue
                c = fresh(); args.append(("v", c))
                if a[0] == "v": conds.append(("if", ("eq", ("var", c), ("var", a[1]))))
                elif a[0] == "e": conds.append(("if", ("eq", ("var", c), a[1])))
                elif a[0] == "some": conds.append(("iflet", a[1], ("var", c)))
                elif a[0] == "none": conds.append(("if", ("eq", ("var", c), "none")))
            it = ("cl", it[1], args, conds + list(it[3]))
        elif it[0] == "neg":
            it = ("agg", [], "not", [], it[1], ["_" if a[0] == "_" else ("k", a[1]) for a in it[2]])
        out.append(it)
        bound.update(binders(it))
    return out


def max_int(x):
    """largest integer anywhere in the structure (an over-approximation of the largest variable number)"""
    if isinstance(x, bool): return 0
    if isinstance(x, int): return x
    if isinstance(x, dict): return max([0] + [max_int(y) for y in x.values()])
    if isinstance(x, (list, tuple)): return max([0] + [max_int(y) for y in x])
    return 0


def expand_spec(p, bare=False):
    """the documented meaning of a surface program as a core program (eng.py format, plus column types).
    bare=True is NOT the documented meaning: it pastes expression arguments of macro invocations as raw tokens (prediction of finding F26)"""
    fresh = Fresh(max(100, max_int([p["rules"], p.get("macros", [])]) + 1))
    macros = p.get("macros", [])
    rules = []
    for r in p["rules"]:
        body = expand_macros_body(r["body"], macros, fresh, bare=bare)
        heads = expand_macros_heads(r["heads"], macros, fresh, bare=bare)
        if bare: body, heads = resolve_bare_all(body), resolve_bare_all(heads)
        for flat in products(body):
            core = expand_flat(flat, fresh)
            for h in heads:
                rules.append({"heads": [h], "body": copy.deepcopy(core)})
    return {"rels": copy.deepcopy(p["rels"]), "rules": rules}


def macros_recursive(p):
    """does some macro reach itself (the documentation's notion: such programs must be rejected)"""
    macros = p.get("macros", [])
    def calls(m):
        out = set()
        def walk(items):
            for it in items:
                if it[0] == "mac": out.add(it[1])
                elif it[0] == "or":
                    for alt in it[1]: walk(alt)
        if "heads" in m: walk([h for h in m["heads"] if h[0] == "mac"])
        else: walk(m["body"])
        return out
    g = {i: calls(m) for i, m in enumerate(macros)}
    for s in g:
        seen, todo = set(), list(g[s])
        while todo:
            x = todo.pop()
            if x == s: return True
            if x in seen: continue
            seen.add(x); todo += list(g.get(x, ()))
    return False


def is_core(p):
    def ok_item(it):
        if it[0] in ("or", "neg", "mac"): return False
        if it[0] == "cl": return all(a[0] in ("v", "e") for a in it[2])
        return True
    return not p.get("macros") and all(all(ok_item(i) for i in r["body"]) and all(h[0] != "mac" for h in r["heads"]) for r in p["rules"])
