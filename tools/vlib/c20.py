"""C20 — program instances are isolated and independent of the rayon pool they run in."""
from . import core, eng, gen, engcheck

THEOREMS = ["insert_within", "insertMut_within", "moveContents_within", "new_within", "mergeStep_pool_independent",
            "pool_independent", "rerun_other_pool", "construct_pool_irrelevant"]
TRUSTED = ["Lean 4.33.0 kernel", "axioms: propext, Classical.choice, Quot.sound only (audited per theorem)",
           "statement: Props/C20.lean; Props/C20Phys.lean: over the ascent_par! code with its concurrent indices (Model/EnginePhysPar.lean, per-thread CRelNoIndex shards constructed in the "
           "current pool): the pool a program value is constructed in is irrelevant (construct_pool_irrelevant), two runs in pools of different sizes under any schedules agree "
           "(pool_independent), a re-run in another pool changes nothing and does not panic (rerun_other_pool) - corollaries of runPhysPar_eq_leastModel (Props/C02Phys.lean)",
           "tie: several instances (same and different generated types, serial and ascent_par!) run at the same time on OS threads; parallel instances "
           "constructed in a pool of a threads, run in b, re-run after pushes in c, for (a,b,c) in {1,2,3,8,16}^3 (sampled in the quick tier); each "
           "result must equal what the instance computes alone (model) and the naive oracle",
           "PARTIAL: data races on the `static mut` timing counters are undefined behaviour that neither the model nor a run can exhibit reliably; "
           "rayon pool internals and DashMap are trusted"]
POOLS = [1, 2, 3, 5, 8, 16]


def build(rng, tier):
    PROGS.clear()
    n = 6 if tier == "quick" else 20
    plist = engcheck.make_programs(rng.fork("c20"), n)
    progs, mods, cases = {}, [], []
    for i, p in enumerate(plist):
        for par in (False, True):
            pid = f"{'y' if par else 'x'}{i}"
            progs[pid] = p
            mods.append((pid, eng.rs_module(pid, p, macro="ascent_par" if par else "ascent")))
    PROGS.update(progs)
    # (1) pool independence of parallel programs across construction / run / re-run
    for i, p in enumerate(plist):
        pid = f"y{i}"
        for j in range(4 if tier == "quick" else 25):
            r2 = rng.fork(f"{pid}p{j}")
            a, b, c = r2.choice(POOLS), r2.choice(POOLS), r2.choice(POOLS)
            inp = gen.nodup_input(r2, p, max_rows=8)
            extra = gen.nodup_input(r2, p, max_rows=3)
            inst = f"{pid}_{j}"
            ops = [f"eng new {inst} {pid} par {a}"] + engcheck.load_ops(inst, inp) + [f"eng runin {inst} {b}", f"eng dump {inst}"]
            for r, rows in extra.items():
                if rows: ops.append(f"eng push {inst} r{r}" + "".join(" " + eng.sx_tuple(t) for t in rows))
            ops += [f"eng runin {inst} {c}", f"eng dump {inst}"]
            union = {r: list(inp.get(r, [])) + list(extra.get(r, [])) for r in range(len(p["rels"]))}
            cases.append(engcheck.Case(pid, inst, ops, {"inp": inp, "union": union, "kind": "pools", "abc": (a, b, c)}))
    # (1b) many rows, so that worker threads with an index beyond the constructing pool's size insert into the per-thread shards;
    # the relation is scanned without bound columns (no-index) and first becomes a head in a RECURSIVE stratum fed by input facts
    stress = {"rels": [{"arity": 2}, {"arity": 2}],
              "rules": [{"heads": [(0, [("var", 0), ("add", ("var", 1), 1)])], "body": [("cl", 0, [("v", 0), ("v", 1)], []), ("if", ("lt", ("var", 1), 4))]},
                        {"heads": [(1, [("var", 0), ("var", 1)])], "body": [("cl", 0, [("v", 0), ("v", 1)], [])]}]}
    progs["ystress"] = stress; PROGS["ystress"] = stress
    mods.append(("ystress", eng.rs_module("ystress", stress, macro="ascent_par")))
    sinp = {0: [(x, 0) for x in range(1500)]}
    for j, (a, b) in enumerate([(1, 4), (2, 8), (1, 16), (4, 4), (8, 2)] if tier == "quick" else [(a, b) for a in POOLS for b in POOLS]):
        inst = f"ystress_{j}"
        ops = [f"eng new {inst} ystress par {a}"] + engcheck.load_ops(inst, sinp) + [f"eng runin {inst} {b}", f"eng dump {inst}", f"eng runin {inst} {b}", f"eng dump {inst}"]
        cases.append(engcheck.Case("ystress", inst, ops, {"inp": sinp, "union": sinp, "kind": "pools-stress", "abc": (a, b, b), "no_model": True}))
    # (1b') re-run in a SMALLER pool after facts were pushed into ANOTHER relation: `b(x) <-- a(x), if x >= 0;  c(x, y) <-- b(x), d(y)` with thousands of rows in `a`;
    # the first run (pool of 8 / 16) spreads the rows of the derived `b` over the per-thread shards of its no-index; `d` then grows, `a` and `b` do not, and the second run
    # (pool of 1 / 2 / 3) must still find every row of `b` - whatever a run keeps from the previous one must not depend on the pool that one ran in
    shrink = {"rels": [{"arity": 1}, {"arity": 1}, {"arity": 2}, {"arity": 1}],
              "rules": [{"heads": [(1, [("var", 0)])], "body": [("cl", 0, [("v", 0)], []), ("if", ("le", 0, ("var", 0)))]},
                        {"heads": [(2, [("var", 0), ("var", 1)])], "body": [("cl", 1, [("v", 0)], []), ("cl", 3, [("v", 1)], [])]}]}
    progs["yshrink"] = shrink; PROGS["yshrink"] = shrink
    mods.append(("yshrink", eng.rs_module("yshrink", shrink, macro="ascent_par")))
    hinp = {0: [(x,) for x in range(6000)], 3: [(0,)]}
    hunion = {0: hinp[0], 3: [(0,), (1,)]}
    for j, (a, b) in enumerate([(8, 2), (8, 1), (16, 3), (16, 1), (4, 4), (2, 8)] if tier == "quick" else [(a, b) for a in (2, 4, 8, 16) for b in (1, 2, 3, 8)]):
        inst = f"yshrink_{j}"
        ops = [f"eng new {inst} yshrink par {a}"] + engcheck.load_ops(inst, hinp) + [f"eng runin {inst} {a}", f"eng dump {inst}", f"eng push {inst} r3 (1)", f"eng runin {inst} {b}", f"eng dump {inst}"]
        cases.append(engcheck.Case("yshrink", inst, ops, {"inp": hinp, "union": hunion, "kind": "pools-shrink-after-push", "abc": (a, a, b), "no_model": True}))
    # (1c) keyed (hash-sharded) indices with many keys, merged delta -> total in pools whose size is not a power of two and differs from the
    # pool the instance (and the process-wide shard count) was created in: every shard must take part in the merge
    join = {"rels": [{"arity": 2}, {"arity": 2}, {"arity": 2}],
            "rules": [{"heads": [(1, [("var", 0), ("var", 1)])], "body": [("cl", 0, [("v", 0), ("v", 1)], [])]},
                      {"heads": [(1, [("var", 0), ("var", 2)])], "body": [("cl", 1, [("v", 0), ("v", 1)], []), ("cl", 0, [("v", 1), ("v", 2)], [])]},
                      {"heads": [(2, [("var", 0), ("var", 2)])], "body": [("cl", 1, [("v", 0), ("v", 1)], []), ("cl", 1, [("v", 1), ("v", 2)], []), ("cl", 0, [("v", 0), ("v", 3)], [])]}]}
    progs["yjoin"] = join; PROGS["yjoin"] = join
    mods.append(("yjoin", eng.rs_module("yjoin", join, macro="ascent_par")))
    jinp = {0: [(10 * c + k, 10 * c + k + 1) for c in range(120) for k in range(4)]}
    for j, (a, b) in enumerate([(4, 3), (8, 5), (3, 3), (16, 6), (16, 7), (5, 5), (2, 3)] if tier == "quick" else [(a, b) for a in (1, 2, 3, 4, 5, 8, 16) for b in (3, 5, 6, 7, 9, 12)]):
        inst = f"yjoin_{j}"
        ops = [f"eng new {inst} yjoin par {a}"] + engcheck.load_ops(inst, jinp) + [f"eng runin {inst} {b}", f"eng dump {inst}", f"eng runin {inst} {b}", f"eng dump {inst}"]
        cases.append(engcheck.Case("yjoin", inst, ops, {"inp": jinp, "union": jinp, "kind": "pools-join-stress", "abc": (a, b, b), "no_model": True}))
    # (1e) a lattice with many keys, every key derived several times in ONE iteration: whatever serialises the check-then-insert of a new lattice key must be
    # decided by the pool that RUNS the program, not by the one it was constructed in (one row per key, holding the maximum)
    lat = {"rels": [{"arity": 2}, {"arity": 2, "lat": "max"}],
           "rules": [{"heads": [(1, [("var", 0), ("var", 1)])], "body": [("cl", 0, [("v", 0), ("v", 1)], [])]}]}
    progs["ylat"] = lat; PROGS["ylat"] = lat
    mods.append(("ylat", eng.rs_module("ylat", lat, macro="ascent_par")))
    linp = {0: [(k, (k * 7 + 13 * v) % 101 + 200 * v) for v in range(4) for k in range(5000)]}
    for j, (a, b) in enumerate([(1, 8), (1, 16), (1, 4), (2, 8), (8, 8), (1, 8), (1, 16)] if tier == "quick" else [(a, b) for a in (1, 1, 1, 2, 8) for b in (2, 3, 4, 8, 16)]):
        inst = f"ylat_{j}"
        ops = [f"eng new {inst} ylat par {a}"] + engcheck.load_ops(inst, linp) + [f"eng runin {inst} {b}", f"eng dump {inst}", f"eng runin {inst} {b}", f"eng dump {inst}"]
        cases.append(engcheck.Case("ylat", inst, ops, {"inp": linp, "union": linp, "kind": "pools-lattice-stress", "abc": (a, b, b), "no_model": True}))
    # (1d) programs that generate their own data (no loads), used by the fresh-process step `fresh_process_step` below
    outer = {"rels": [{"arity": 1}, {"arity": 2}, {"arity": 2}, {"arity": 1}, {"arity": 2}],
             "rules": [{"heads": [(0, [("var", 0)])], "body": [("for", 0, ("range", 0, 70))]},
                       {"heads": [(1, [("var", 0), ("var", 1)])], "body": [("cl", 0, [("v", 0)], []), ("cl", 0, [("v", 1)], []), ("if", ("eq", ("add", ("var", 0), 1), ("var", 1)))]},
                       {"heads": [(2, [("var", 0), ("var", 1)])], "body": [("cl", 1, [("v", 0), ("v", 1)], [])]},
                       {"heads": [(2, [("var", 0), ("var", 2)])], "body": [("cl", 2, [("v", 0), ("v", 1)], []), ("cl", 1, [("v", 1), ("v", 2)], [])]},
                       {"heads": [(3, [("var", 0)])], "body": [("cl", 2, [("v", 0), ("e", 69)], [])]},
                       {"heads": [(4, [("var", 0), ("var", 1)])], "body": [("cl", 3, [("v", 0)], []), ("cl", 3, [("v", 1)], []), ("if", ("eq", ("add", ("var", 0), 2), ("var", 1)))]},
                       {"heads": [(4, [("var", 0), ("var", 2)])], "body": [("cl", 4, [("v", 0), ("v", 1)], []), ("cl", 4, [("v", 1), ("v", 2)], [])]}]}
    inner = {"rels": [{"arity": 1}, {"arity": 2}],
             "rules": [{"heads": [(0, [("var", 0)])], "body": [("for", 0, ("range", 0, 12))]},
                       {"heads": [(1, [("var", 0), ("var", 1)])], "body": [("cl", 0, [("v", 0)], []), ("cl", 0, [("v", 1)], []), ("if", ("lt", ("var", 0), ("var", 1)))]}]}
    for pid, q in (("youter", outer), ("yinner", inner)):
        progs[pid] = q; PROGS[pid] = q
        mods.append((pid, eng.rs_module(pid, q, macro="ascent_par")))
    # (1f) lattice programs whose lattice is read through a NON-key (set-valued) index inside its own stratum, for the "small first pool" fresh-process scenarios below
    sp = gen.sp_program()
    progs["ysp"] = sp; PROGS["ysp"] = sp
    mods.append(("ysp", eng.rs_module("ysp", sp, macro="ascent_par")))
    for i, q in enumerate(engcheck.make_programs(rng.fork("c20lat"), 3 if tier == "quick" else 8, genf=gen.gen_lat_program, filt=gen.lat_ok)):
        progs[f"ylp{i}"] = q; PROGS[f"ylp{i}"] = q
        mods.append((f"ylp{i}", eng.rs_module(f"ylp{i}", q, macro="ascent_par")))
    # (1g) NESTED instances: every product in the rules of `tn` is computed by `crate::common::nested_mul` - a second program value constructed and run to completion inside the rule,
    # on the thread that evaluates it (serial program: the caller's thread; ascent_par!: several rayon workers at the same time, each with its own inner instance)
    tn = {"rels": [{"arity": 1}, {"arity": 2}, {"arity": 2}],
          "rules": [{"heads": [(1, [("var", 0), ("mul", ("var", 0), ("var", 0))])], "body": [("cl", 0, [("v", 0)], [])]},
                    {"heads": [(1, [("add", ("var", 0), 1), ("mul", ("add", ("var", 0), 1), ("add", ("var", 0), 1))])], "body": [("cl", 1, [("v", 0), ("v", 1)], []), ("if", ("lt", ("var", 0), 8))]},
                    {"heads": [(2, [("var", 0), ("mul", ("var", 1), 2)])], "body": [("cl", 1, [("v", 0), ("v", 1)], [])]}]}
    nnm = eng.Names(); nnm.nested_mul = True
    for pid, macro in (("xtn", "ascent"), ("ytn", "ascent_par")):
        progs[pid] = tn; PROGS[pid] = tn
        mods.append((pid, eng.rs_module(pid, tn, nm=nnm, macro=macro)))
        for j in range(4 if tier == "quick" else 12):
            r2 = rng.fork(f"{pid}n{j}")
            inp = {0: [(x,) for x in sorted({r2.below(5) for _ in range(r2.range(1, 4))})], 1: [], 2: []}
            inst = f"{pid}_{j}"
            a = r2.choice(POOLS)
            ops = [f"eng new {inst} {pid}" + (f" par {a}" if macro == "ascent_par" else "")] + engcheck.load_ops(inst, inp) + [f"eng run {inst}", f"eng dump {inst}", f"eng run {inst}", f"eng dump {inst}"]
            cases.append(engcheck.Case(pid, inst, ops, {"inp": inp, "union": inp, "kind": "nested-instances", "abc": (a, a, a)}))
    # (1h) many workers deriving the SAME few tuples at the same moment: `r(min(x, 15)) <-- s(x)` over 20000 facts, counted by a later stratum - for the fresh-process scenarios
    # below (whatever a process remembers from its FIRST pool must not weaken the "insert if absent" of a later, larger pool)
    dup = {"rels": [{"arity": 1}, {"arity": 1}, {"arity": 1}],
           "rules": [{"heads": [(1, [("min", ("var", 0), 15)])], "body": [("cl", 0, [("v", 0)], [])]},
                     {"heads": [(2, [("var", 21)])], "body": [("agg", [21], "count", [], 1, ["_"])]}]}
    progs["ydup"] = dup; PROGS["ydup"] = dup
    mods.append(("ydup", eng.rs_module("ydup", dup, macro="ascent_par")))
    # (2) several instances, of the same and of different generated types, serial and parallel, running at the same time
    pids = list(progs)
    for g in range(6 if tier == "quick" else 40):
        r2 = rng.fork(f"conc{g}")
        members = []
        k = r2.range(2, 5)
        for m in range(k):
            pid = pids[0] if (m < 2 and g % 2 == 0) else r2.choice(pids)     # even groups: two instances of the SAME type
            inp = gen.nodup_input(r2, progs[pid], max_rows=8)
            inp = {r: rows for r, rows in inp.items() if not progs[pid]["rels"][r].get("lat")}      # lattice relations are derived, never loaded (one row per key)
            members.append((f"g{g}_{m}", pid, inp))
        ops = []
        for inst, pid, inp in members:
            ops.append(f"eng new {inst} {pid}" + (f" par {r2.choice(POOLS)}" if pid.startswith("y") else ""))
            ops += engcheck.load_ops(inst, inp)
        ops.append("eng conc " + " ".join(inst for inst, _, _ in members))
        for inst, _, _ in members: ops.append(f"eng dump {inst}")
        cases.append(engcheck.Case(members[0][1], f"g{g}", ops, {"inp": members[0][2], "kind": "concurrent", "members": members}))
    # (2b) instances with LONG recursive strata (about 70 iterations each) evaluated at the same time on ONE shared pool: anything per-thread or per-pool
    # rather than per-instance (a "changed" flag, a scratch buffer) is seen by the neighbour
    for g, (sz, pids2) in enumerate([(4, ["youter", "youter"]), (8, ["youter", "youter", "yinner"]), (2, ["youter", "youter"]), (4, ["youter", "ystress"])] if tier == "quick"
                                    else [(sz, ps) for sz in (2, 3, 4, 8, 16) for ps in (["youter", "youter"], ["youter", "youter", "youter", "yinner"], ["youter", "ystress"])]):
        members = [(f"sh{g}_{m}", pid, (sinp if pid == "ystress" else {})) for m, pid in enumerate(pids2)]
        ops = []
        for inst, pid, inp in members:
            ops.append(f"eng new {inst} {pid} par {sz}")
            ops += engcheck.load_ops(inst, inp)
        ops.append("eng conc " + " ".join(inst for inst, _, _ in members))
        for inst, _, _ in members: ops.append(f"eng dump {inst}")
        cases.append(engcheck.Case(members[0][1], f"sh{g}", ops, {"inp": members[0][2], "kind": "concurrent", "members": members, "no_model": True}))
    return progs, mods, cases


def build_conc(rng, tier, progs):
    """groups of instances run concurrently; returned as one multi-program case list (handled by check())"""
    return []


PROGS = {}


def oracle(c, p, out):
    dumps = [l for l, o in zip(out, c.ops) if o.startswith("eng dump")]
    for o, l in zip(c.ops, out):
        if l.startswith("panic") or l.startswith("bad"): return f"`{o}` -> {l}"
    if c.meta["kind"] == "concurrent":
        for (inst, pid, inp), d in zip(c.meta["members"], dumps):
            w = engcheck.check_sets(PROGS[pid], d, engcheck.spec_sets(PROGS[pid], inp))
            if w: return f"instance {inst} of {pid} run concurrently with {len(dumps) - 1} others: " + w
        return None
    for dmp in dumps[:2]:
        _, mult = engcheck.dump_sets(dmp)
        for r, dcl in enumerate(p["rels"]):
            if dcl.get("lat"):
                keys = {}
                for t, m in mult.get(r, {}).items():
                    k = eng.split_key(t); keys[k] = keys.get(k, 0) + m
                bad = [k for k, m in keys.items() if m != 1]
                if bad: return f"constructed in pool {c.meta['abc'][0]}, run in pool {c.meta['abc'][1]}: lattice r{r} has {keys[bad[0]]} rows for key ({bad[0]}) ({len(bad)} such keys)"
    w = engcheck.check_sets(p, dumps[0], engcheck.spec_sets(p, c.meta["inp"]))
    if w: return f"constructed in pool {c.meta['abc'][0]}, run in pool {c.meta['abc'][1]}: " + w
    w = engcheck.check_sets(p, dumps[1], engcheck.spec_sets(p, c.meta["union"]))
    if w: return f"re-run in pool {c.meta['abc'][2]} after pushes: " + w
    return None


def canon(c, out):
    if c.meta.get("no_model"): return ["<too large for the Lean model: judged by the oracle>" for _ in out]
    return out


def fresh_process_step(r, d, progs, bins, tier):
    """instances CONSTRUCTED and run at the same time in pools of different sizes, each scenario in a FRESH process (the process-wide shard count
    is decided by the first parallel index ever created: what a later, larger pool does must not reach an instance that is already running)"""
    from . import tieb
    if not bins or "youter" not in bins: return
    specs = {pid: engcheck.spec_sets(PROGS[pid], {}) for pid in ("youter", "yinner")}
    n = 0
    for (pa, pb) in ([(1, 8), (2, 16), (1, 16)] if tier == "quick" else [(1, 8), (2, 16), (1, 16), (1, 4), (4, 16), (2, 8)]):
        for delay in ([0, 1, 2, 4, 8, 16, 32] if tier == "quick" else [0, 1, 2, 3, 4, 6, 8, 12, 16, 24, 32, 48, 64]):
            lines = [f"eng prog youter {eng.sx_prog(PROGS['youter'])}", f"eng prog yinner {eng.sx_prog(PROGS['yinner'])}",
                     f"eng concmk o youter {pa} 0 i yinner {pb} {delay}", "eng dump o", "eng dump i"]
            out = tieb.run_impl(bins, lines, ["youter"] * len(lines), timeout=300)
            n += 1
            why = None
            if out[2] != "ok": why = f"`{lines[2]}` -> {out[2]}"
            else:
                for pid, dump in (("youter", out[3]), ("yinner", out[4])):
                    w = engcheck.check_sets(PROGS[pid], dump, specs[pid])
                    if w: why = f"{pid} constructed and run concurrently (pools {pa} / {pb}, second thread {delay} ms later): {w}"; break
            d.evals += 1
            if why: d.failing.append({"input": "\n".join(lines), "impl": "\n".join(str(x) for x in out), "model": None, "why": why})
    r.cov["fresh_process_scenarios"] = n
    # the process-wide shard count of the concurrent indices is decided by the pool in which the FIRST parallel program value of the process is constructed: in a fresh
    # process whose first value is made in a pool of 1 / 2 / 3 threads (4 / 8 / 16 shards) lattice and relational programs then run in pools of 1..16 threads
    rng = core.SplitMix(core.seed()).fork("C20few")
    m = 0
    lat_pids = ["ysp"] + sorted(pid for pid in PROGS if pid.startswith("ylp"))
    for first in (1, 2, 3):
        for k, pid in enumerate(lat_pids + ["yjoin", "ydup"]):
            p = PROGS[pid]
            lines = [f"eng prog {pid} {eng.sx_prog(p)}", f"eng new warm {pid} par {first}"]
            # ... and RUN there on a small input first (whatever is decided lazily at the first insertion / merge of the process is decided in the small pool)
            winp = {0: [(x,) for x in range(40)]} if pid == "ydup" else ({0: [(1, 2), (2, 3)]} if pid == "yjoin" else (gen.sp_input(rng.fork(f"w{first}{pid}")) if pid == "ysp" else gen.gen_lat_input(rng.fork(f"w{first}{pid}"), p)))
            lines += engcheck.load_ops("warm", winp) + [f"eng runin warm {first}"]
            exp = []
            for j, t in enumerate(((8, 16, 8, 16, 4, 16) if pid == "ydup" else (4, 16, 1, 3)) if tier == "quick" else ((8, 16) * 6 if pid == "ydup" else (1, 2, 3, 4, 5, 8, 16))):
                g = rng.fork(f"{first}_{pid}_{j}")
                inp = gen.sp_input(g) if pid == "ysp" else ({0: [(10 * c + q, 10 * c + q + 1) for c in range(40) for q in range(4)]} if pid == "yjoin" else
                                                             ({0: [(x,) for x in range(20000)]} if pid == "ydup" else gen.gen_lat_input(g, p)))
                inst = f"f{j}"
                lines += [f"eng new {inst} {pid} par {t}"] + engcheck.load_ops(inst, inp) + [f"eng runin {inst} {t}", f"eng dump {inst}"]
                exp.append((len(lines) - 1, inp, t))
            out = tieb.run_impl(bins, lines, [pid] * len(lines), timeout=300)
            m += 1
            why = None
            for pos, inp, t in exp:
                w = engcheck.check_sets(p, str(out[pos]), engcheck.spec_sets(p, inp))
                if not w and pid == "ydup":
                    _, mult = engcheck.dump_sets(str(out[pos]))
                    twice = [t2 for t2, m2 in mult.get(1, {}).items() if m2 != 1]
                    if twice: w = f"relation r1 holds the row {twice[0]} {mult[1][twice[0]]} times ({len(twice)} such rows): a derived tuple is inserted once"
                if w: why = f"{pid} in a pool of {t} threads, in a process whose first parallel program value was constructed in a pool of {first}: {w}"; break
            d.evals += 1
            if why: d.failing.append({"input": "\n".join(lines), "impl": "\n".join(str(x) for x in out), "model": None, "why": why})
    r.cov["small_first_pool_scenarios"] = m


def check(tier, replay=None):
    return engcheck.run_property("C20", tier, extra=fresh_process_step, modules=["AscentVerif.Props.C20", "AscentVerif.Props.C20Phys"], theorems=THEOREMS, trusted=TRUSTED, group="c20",
                                 build=build, oracle=oracle, canon=canon, nbins=1, what="instances across pools and concurrent instances",
                                 rule="parallel programs constructed / run / re-run (after pushes) in pools of different sizes (a,b,c) in {1,2,3,8,16}^3; groups of instances of the "
                                      "same and of different generated types run at the same time on OS threads; every instance must compute what it computes alone; stress programs with 1500 rows "
                                      "(per-thread no-index shards) and 480 keyed rows (hash-sharded indices) in pools of 3, 5, 6, 7 threads created in pools of other sizes; a lattice with 5000 keys each derived 4 times in one iteration, "
                                      "constructed in a pool of 1 / 2 / 8 threads and run in 4 / 8 / 16 (one row per key); "
                                      "fresh-process scenarios: two instances constructed and run at the same time in pools of different sizes, the second 0-32 ms later")
