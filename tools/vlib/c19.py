"""C19 — index building blocks behave as multimaps through insert, merge and freeze."""
import os
from . import core, tiec

THEOREMS = ["get_insert", "get_of_inserts", "entries_of_inserts", "mergeStep_spec", "mergeStep_nonempty", "combinedGet_spec",
            "insertIfNotPresent_spec", "insert_idem", "setAdd_nodup", "mem_setAdd", "freeze_unfreeze", "panic_iff", "vals_insert",
            "inserts_order_independent", "buildIdx_get", "buildIdx_entries", "moveContents_spec", "race_one_winner", "insertIfNotPresentMut_spec", "moveContents_truncates", "isEmpty_sound", "isEmpty_complete", "combinedIsEmpty_spec"]
TRUSTED = ["Lean 4.33.0 kernel", "axioms: propext, Classical.choice, Quot.sound only (audited per theorem)",
           "statement of Props/C19.lean (refinement to multimaps up to List.Perm)",
           "model Model/Index.lean hand-written after internal.rs / rel_index_read.rs / c_rel_*.rs / c_lat_index.rs; tied by op-sequence "
           "correspondence (harness/ds idx ops vs Lean driver) over all eight index types and the combined view",
           "modelled not verified: std/hashbrown HashMap and Vec, DashMap shard locking (one insert / insert_if_not_present = one atomic step), "
           "rayon parallel iterators, the unsafe shard access; real interleavings are exercised by multi-threaded `par` ops, not proved"]
SERIAL = ["rel", "full", "lat", "noidx"]
CONC = ["crel", "cfull", "clat", "cnoidx"]


class Abs:
    """the abstract multimap / set / map the property talks about (independent of the Lean model)"""

    def __init__(self, ty, shards=1):
        self.ty, self.frozen, self.shards = ty, False, shards
        self.m = {}            # key -> list (multiset) | set | single value
        self.alts = {}         # full index: key -> set of acceptable values after a conflicting merge
        self.unknown = False

    def conc(self): return self.ty in CONC

    def ins(self, k, v):
        if self.ty in ("noidx", "cnoidx"): k = 0
        if self.ty in ("full", "cfull"):
            self.m[k] = v; self.alts.pop(k, None)
        elif self.ty in ("lat", "clat"):
            self.m.setdefault(k, [])
            if v not in self.m[k]: self.m[k].append(v)
        else:
            self.m.setdefault(k, []).append(v)

    def vals(self, k):
        if self.ty in ("noidx", "cnoidx"): return list(self.m.get(0, []))
        if k not in self.m: return None
        return [self.m[k]] if self.ty in ("full", "cfull") else list(self.m[k])

    def entries(self):
        out = []
        for k, x in self.m.items():
            for v in ([x] if self.ty in ("full", "cfull") else x): out.append((k, v))
        return sorted(out)


def show_vals(vs): return "none" if vs is None else "some" + "".join(f" {v}" for v in sorted(vs))
def show_entries(es): return "all" + "".join(f" {k}:{v}" for k, v in sorted(es))


def spec_run(ops):
    """expected outputs per op under the abstract semantics; None where the property does not determine the output"""
    st, out = {}, []
    for op in ops:
        t = op.split()[1:]
        o = t[0]
        try:
            if o == "mk":
                st[t[1]] = Abs(t[2], int(t[3]) if len(t) > 3 else 1); out.append("ok")
            elif o in ("ins", "cins"):
                a = st[t[1]]
                if a.conc() and a.frozen and not (o == "ins" and a.ty == "cnoidx"): out.append("panic")
                elif o == "cins" and not a.conc(): out.append("panic")
                else: a.ins(int(t[2]), int(t[3])); out.append("ok")
            elif o in ("insnp", "cinsnp"):
                a, k, v = st[t[1]], int(t[2]), int(t[3])
                if o == "cinsnp" and a.frozen: out.append("panic"); continue
                if o == "insnp": a.frozen = False
                if k in a.m: out.append("false")
                else: a.m[k] = v; out.append("true")
            elif o == "has":
                a = st[t[1]]
                out.append("panic" if a.conc() and not a.frozen else str(int(t[2]) in a.m).lower())
            elif o == "getcloned":
                a, k = st[t[1]], int(t[2])
                out.append(None if k in a.alts else ("none" if k not in a.m else f"some {a.m[k]}"))
            elif o in ("freeze", "unfreeze"):
                st[t[1]].frozen = (o == "freeze"); out.append("ok")
            elif o in ("get", "cget"):
                a = st[t[1]]; k = int(t[2]) if len(t) > 2 else 0
                if a.conc() and not a.frozen: out.append("panic")
                elif k in a.alts or a.unknown: out.append(None)
                else: out.append(show_vals(a.vals(k)))
            elif o in ("all", "call", "callin"):
                a = st[t[1]]
                if a.conc() and not a.frozen: out.append("panic")
                elif a.alts or a.unknown: out.append(None)
                else: out.append(show_entries(a.entries()))
            elif o == "empty":
                a = st[t[1]]
                if a.conc() and not a.frozen: out.append("panic")
                elif a.unknown: out.append(None)
                else: out.append(str(len(a.m) == 0).lower())
            elif o == "combempty":
                a, b = st[t[1]], st[t[2]]
                # `ind1.is_empty() && ind2.is_empty()`: the second side is only looked at when the first is empty
                if a.conc() and not a.frozen: out.append("panic")
                elif a.unknown: out.append(None)
                elif len(a.m) != 0: out.append("false")
                elif b.conc() and not b.frozen: out.append("panic")
                elif b.unknown: out.append(None)
                else: out.append(str(len(b.m) == 0).lower())
            elif o in ("comb", "comball"):
                a, b = st[t[1]], st[t[2]]
                if a.conc() and not (a.frozen and b.frozen): out.append("panic")
                elif o == "comb":
                    k = int(t[3]); x, y = a.vals(k), b.vals(k)
                    out.append(None if (k in a.alts or k in b.alts) else show_vals(None if x is None and y is None else (x or []) + (y or [])))
                else:
                    out.append(None if (a.alts or b.alts) else show_entries(a.entries() + b.entries()))
            elif o in ("move", "merge"):
                names = t[1:]
                frm, to = (st[names[0]], st[names[1]]) if o == "move" else (st[names[1]], st[names[2]])
                if frm.ty not in ("cnoidx",) and frm.conc() and (frm.frozen or to.frozen): out.append("panic"); continue
                if frm.ty == "cnoidx" and frm.shards > to.shards:
                    # outside the law's hypothesis (from has more shards than to): contents undetermined from here on
                    frm.unknown = to.unknown = True
                    if o == "merge": st[names[0]], st[names[1]] = st[names[1]], st[names[0]]
                    out.append(None); continue
                if frm.unknown: to.unknown = True
                for k, x in frm.m.items():
                    if frm.ty in ("full", "cfull"):
                        if k in to.m and to.m[k] != x: to.alts[k] = {to.m[k], x}
                        else: to.m[k] = x
                    elif frm.ty in ("lat", "clat"):
                        to.m.setdefault(k, [])
                        for v in x:
                            if v not in to.m[k]: to.m[k].append(v)
                    else:
                        to.m.setdefault(k, []).extend(x)
                frm.m, frm.alts = {}, {}
                if o == "merge":
                    st[names[0]], st[names[1]] = st[names[1]], st[names[0]]   # swap(new, delta): names keep their roles
                out.append("ok")
            elif o == "par":
                a, kind = st[t[2]], t[3]
                atts = [tuple(map(int, x.split(":"))) for x in t[4:]]
                if a.frozen: out.append(None); continue
                if kind == "cinsnp":
                    res = []
                    for k in sorted({k for k, _ in atts}):
                        res.append(f" {k}:{0 if k in a.m else 1}")
                    for k, v in atts: a.m.setdefault(k, v)
                    out.append("winners" + "".join(res))
                else:
                    for k, v in atts: a.ins(k, v)
                    out.append("ok")
            else:
                out.append(None)
        except KeyError:
            out.append(None)
    return out


def gen_scenario(rng, idn, tier):
    ty = rng.choice(SERIAL + CONC + CONC)
    p = f"s{idn}"
    N, D, T = p + "n", p + "d", p + "t"
    ops = []
    if ty == "cnoidx":
        sh = [rng.range(1, 4)] * 3 if rng.chance(3, 4) else [rng.range(1, 4) for _ in range(3)]
        for nm, s in zip((N, D, T), sh): ops.append(f"idx mk {nm} cnoidx {s}")
        shards = dict(zip((N, D, T), sh))
    else:
        for nm in (N, D, T): ops.append(f"idx mk {nm} {ty}")
    conc = ty in CONC
    frozen = {N: False, D: False, T: False}
    nops = rng.range(4, 16 if tier == "quick" else 40)
    keys = [0, 1, 2]
    for _ in range(nops):
        x = rng.choice([N, D, T, T, D])
        r = rng.below(100)
        k, v = rng.choice(keys), rng.range(0, 3 if ty in ("full", "cfull") or rng.chance(1, 3) else 9)      # multimaps: value sets that differ between the versions
        if r < 38:
            if conc and rng.chance(1, 2):
                if ty == "cnoidx" and rng.chance(1, 2):
                    n = rng.range(1, 4); ops.append(f"idx cins {x} {k} {v} {n} {rng.below(n)}")
                else: ops.append(f"idx cins {x} {k} {v}")
            else: ops.append(f"idx ins {x} {k} {v}")
        elif r < 46 and ty in ("full", "cfull"):
            ops.append(f"idx {'cinsnp' if ty == 'cfull' and rng.chance(1, 2) else 'insnp'} {x} {k} {v}")
        elif r < 56:
            ops.append(f"idx {'cget' if conc and rng.chance(1, 2) else 'get'} {x} {rng.choice(keys + [7])}")
        elif r < 60:
            ops.append(f"idx {'call' if conc and rng.chance(1, 2) else 'all'} {x}")
        elif r < 62 and ty not in ("noidx", "cnoidx"):
            ops.append(f"idx empty {x}" if (rng.chance(1, 2) or ty == "clat") else f"idx combempty {T} {D}")
        elif r < 66 and ty in ("full", "cfull"):
            ops.append(f"idx {'getcloned' if ty == 'cfull' and rng.chance(1, 2) else 'has'} {x} {rng.choice(keys + [7])}")
        elif r < 74 and ty not in ("noidx", "cnoidx", "clat"):
            ops.append(f"idx comb {T} {D} {rng.choice(keys + [7])}" if rng.chance(2, 3) else f"idx comball {T} {D}")
        elif r < 86:
            if conc and rng.chance(3, 4):
                for y in (N, D, T):
                    if frozen[y]: ops.append(f"idx unfreeze {y}"); frozen[y] = False
            ops.append(f"idx merge {N} {D} {T}" if rng.chance(4, 5) else f"idx move {rng.choice([N, D])} {T}")
        elif r < 94 and conc:
            f = rng.chance(1, 2)
            ops.append(f"idx {'freeze' if f else 'unfreeze'} {x}"); frozen[x] = f
        elif conc and not frozen[x]:
            n = rng.choice([2, 3, 4, 8])
            if ty == "cfull" and rng.chance(2, 3):
                atts = [f"{rng.choice(keys + [5, 6])}:9" for _ in range(rng.range(2, 12))]
                ops.append(f"idx par {n} {x} cinsnp " + " ".join(atts))
            else:
                atts = [f"{rng.choice(keys)}:{rng.range(0, 3) if ty != 'cfull' else 9}" for _ in range(rng.range(2, 12))]
                ops.append(f"idx par {n} {x} cins " + " ".join(atts))
        else:
            ops.append(f"idx get {x} {k}")
    for y in (N, D, T):
        if conc: ops.append(f"idx freeze {y}")
        ops.append(f"idx all {y}")
        if ty not in ("noidx", "cnoidx"): ops.append(f"idx empty {y}")
    if ty not in ("noidx", "cnoidx", "clat"): ops.append(f"idx combempty {T} {D}")
    return ty, ops


def forced_scenarios():
    """merge with |delta| <, =, > |total| at the map level and at the per-key vector level, for every type"""
    out = []
    i = 0
    for ty in SERIAL + ["crel", "cfull", "clat"]:
        for nd, nt, vd, vt in [(1, 3, 1, 1), (3, 1, 1, 1), (2, 2, 1, 1), (1, 1, 3, 1), (1, 1, 1, 3), (0, 2, 0, 1), (2, 0, 1, 0), (3, 3, 2, 2)]:
            i += 1
            p = f"f{i}"
            ops = [f"idx mk {p}n {ty}", f"idx mk {p}d {ty}", f"idx mk {p}t {ty}", f"idx ins {p}n 9 1"]
            multi = ty not in ("full", "cfull")
            for k in range(nt):
                for j in range(vt if multi else min(vt, 1)): ops.append(f"idx ins {p}t {k} {10 + j}")
            for k in range(nd):
                kk = k if multi else 5 + k          # full indices: disjoint keys (the engine's invariant)
                for j in range(vd if multi else min(vd, 1)): ops.append(f"idx ins {p}d {kk} {20 + j}")
            ops.append(f"idx merge {p}n {p}d {p}t")
            for y in ("n", "d", "t"):
                if ty in CONC: ops.append(f"idx freeze {p}{y}")
                ops.append(f"idx all {p}{y}")
                ops.append(f"idx get {p}{y} 0")
            out.append((ty, ops))
    return out


def pool_iter_scenarios():
    """the parallel whole-index iteration (`c_iter_all`) of a frozen concurrent index holding many keys (every DashMap shard is hit), run inside rayon pools whose
    size does and does not divide the process-wide shard count: every entry exactly once, whatever the pool"""
    out = []
    for ty in ["crel", "cfull", "clat"]:
        for n in (1, 2, 3, 5, 6, 7, 12, 16):
            p = f"pi{ty}{n}"
            ops = [f"idx mk {p} {ty}"] + [f"idx ins {p} {k * 13 + 1} {k % 5}" for k in range(96)] + [f"idx freeze {p}", f"idx callin {p} {n}", f"idx all {p}"]
            out.append((ty, ops))
    return out


def shard_mismatch_scenarios():
    """the concurrent no-index (`CRelNoIndex`: one shard per thread of the pool it was created in) merged between indices created in pools of DIFFERENT sizes, inside the
    law's hypothesis (the source has no more shards than the destination): `total` made in a pool of 4 / 3 with an entry in EVERY shard, `delta` and `new` made in a pool of
    2 / 1 and holding MORE entries than `total` - every entry of `total` and of `delta` must be in `total` afterwards, `delta` = old `new`, `new` empty"""
    out = []
    for k, (st, sd) in enumerate([(4, 2), (4, 1), (3, 2), (4, 3), (2, 2), (3, 1)]):
        p = f"sm{k}"
        N, D, T = p + "n", p + "d", p + "t"
        ops = [f"idx mk {N} cnoidx {sd}", f"idx mk {D} cnoidx {sd}", f"idx mk {T} cnoidx {st}"]
        ops += [f"idx cins {T} 0 {100 + th} {st} {th}" for th in range(st)]
        ops += [f"idx cins {D} 0 {v} {sd} {v % sd}" for v in range(10)]
        ops += [f"idx cins {N} 0 {50 + v} {sd} {v % sd}" for v in range(3)]
        look = [x for nm in (T, D, N) for x in (f"idx freeze {nm}", f"idx all {nm}", f"idx unfreeze {nm}")]
        ops += [f"idx merge {N} {D} {T}"] + look
        # a second round: the former `new` is the delta now
        ops += [f"idx cins {N} 0 {70 + v} {sd} {v % sd}" for v in range(6)] + [f"idx merge {N} {D} {T}"] + look
        out.append(("cnoidx", ops))
    return out


def sparse_scenarios():
    """an index holding ONE key (every key of a range in turn, so every shard of the real DashMap is hit), alone and as one side of the
    combined view: `is_empty` must answer false (generated code skips the whole rule on true)"""
    out = []
    for ty in ["rel", "full", "lat", "crel", "cfull", "clat"]:
        for k in range(0, 48):
            p = f"e{ty}{k}"
            ops = [f"idx mk {p}a {ty}", f"idx mk {p}b {ty}", f"idx ins {p}a {k * 37 + 5} 1"]
            if ty in CONC: ops += [f"idx freeze {p}a", f"idx freeze {p}b"]
            ops += [f"idx empty {p}a", f"idx empty {p}b"]
            if ty != "clat": ops += [f"idx combempty {p}a {p}b", f"idx combempty {p}b {p}a", f"idx combempty {p}b {p}b"]
            out.append((ty, ops))
    return out


def check(tier, replay=None):
    r = core.Report("C19", tier)
    rng = core.SplitMix(core.seed()).fork("C19")
    if os.environ.get("VERIF_DEV_SKIP_PROOF"):
        proof = core.ProofResult(); core.run(["lake", "build", "driver"], cwd=core.LEAN)
    else:
        proof = core.lean_prove(["AscentVerif.Props.C19", "AscentVerif.Props.C19Bridge", "AscentVerif.Props.C05Par"], leanchecker=(tier == "thorough"))
        core.require_theorems(proof, THEOREMS)
    r.proof(proof, "lake build AscentVerif.Props.C19 && #audit_module (axioms of every theorem)" + (" && lake env leanchecker" if tier == "thorough" else ""))
    binary, blog = tiec.build_ds(r)
    if binary is None:
        r.violation({"kind": "obligation-broken", "no_longer_checks": ["harness/ds does not build against the repository"], "log": blog[-2000:]}, no_input=True)
        return r.finish(TRUSTED)
    scen = []
    if replay:
        import json
        scen = [("replay", json.load(open(replay))["input"].split("\n"))]
    else:
        for fn, c in core.corpus("C19"):
            scen.append(("corpus:" + fn, c["ops"]))
        scen += forced_scenarios()
        scen += sparse_scenarios()
        scen += pool_iter_scenarios()
        scen += shard_mismatch_scenarios()
        n = 400 if (tier == "quick" and proof.ok) else 4000
        for i in range(n):
            scen.append(gen_scenario(rng, i, tier))
        # racing insert-if-absent, many rounds (timing-dependent in the real code)
        rounds = 60 if tier == "quick" else 600
        for i in range(rounds):
            p = f"r{i}"
            keys = list(range(8))
            atts = " ".join(f"{k}:9" for k in keys for _ in range(8))
            scen.append(("cfull-race", [f"idx mk {p} cfull", f"idx par 8 {p} cinsnp {atts}", f"idx par 8 {p} cinsnp {atts}", f"idx freeze {p}", f"idx all {p}"]))
    lines = [l for _, ops in scen for l in ops]
    model_ok = proof.ok or os.path.exists(core.lean_driver())
    rc, impl, model, err = tiec.run_both(binary, lines, model_ok)
    if rc != 0 and len(impl) < len(lines):
        # the real code died (abort / segfault / stack overflow) in the middle of the op file: the scenario containing the first operation that produced
        # no output is the failing input; it is replayed alone to make sure it fails by itself
        pos = 0
        for ty, ops in scen:
            if pos + len(ops) > len(impl):
                rc2, impl2, _, err2 = tiec.run_both(binary, ops, False)
                r.violation({"kind": "failing-input", "what": "the implementation crashed (process killed) while executing this operation sequence",
                             "scenario": ty, "input": "\n".join(ops), "impl": "\n".join(impl[pos:]), "rc": rc, "alone_rc": rc2, "stderr": err[-800:],
                             "replay_cmd": "./check C19 --replay <this file>"}, no_input=False)
                return r.finish(TRUSTED)
            pos += len(ops)
    if len(impl) != len(lines) or (model is not None and len(model) != len(lines)):
        r.violation({"kind": "obligation-broken", "no_longer_checks": [f"harness/model output length impl={len(impl)} model={None if model is None else len(model)} ops={len(lines)} rc={rc}"], "stderr": err[-800:]}, no_input=True)
        return r.finish(TRUSTED)
    d = tiec.Decision(r)
    pos, hist, ops_hist = 0, {}, {}
    for ty, ops in scen:
        io = impl[pos:pos + len(ops)]
        mo = model[pos:pos + len(ops)] if model is not None else None
        pos += len(ops)
        exp = spec_run(ops)
        if ty == "cfull":
            # a merge of full indices with a key on both sides keeps one of the two values depending on the real
            # DashMap's shard sizes, which the model's shard function does not mirror: mask what the spec leaves open
            io = [o if e is not None else "?" for o, e in zip(io, exp)]
            if mo is not None: mo = [o if e is not None else "?" for o, e in zip(mo, exp)]
        hist[ty] = hist.get(ty, 0) + 1
        for o in ops:
            ops_hist[o.split()[1]] = ops_hist.get(o.split()[1], 0) + 1

        def oracle(_line, outs, exp=exp, ops=ops):
            for j, (e, o) in enumerate(zip(exp, outs.split("\n"))):
                if e is not None and e != o:
                    return f"op {j} `{ops[j]}`: expected {e!r} by the multimap semantics, got {o!r}"
            return None
        d.case("\n".join(ops), "\n".join(io), None if mo is None else "\n".join(mo), oracle, nontrivial=any(o.split()[1] in ("merge", "move", "par") for o in ops))
        if hist[ty] == 1:
            r.sample({"type": ty, "ops": ops, "impl": io})
    r.cov["scenarios_per_type"] = hist
    r.cov["op_histogram"] = ops_hist
    r.cov["rule"] = ("scenario = op sequence on a (new, delta, total) triple of one of the 8 index types: inserts (&mut and shared), insert-if-absent, "
                     "lookups of present/absent keys, is_empty (alone and of the combined view; one-key indices for 48 keys per type), iteration (serial and rayon), combined view, merge/move with either side larger (forced "
                     "scenarios cover <,=,> at map and vector level), freeze/unfreeze incl. wrong-state panics, multi-threaded `par` phases, "
                     "plus racing insert-if-absent rounds (8 threads x 8 keys); non-trivial = scenario containing a merge, move or par op")
    d.conclude(proof, "index operation sequences")
    return r.finish(TRUSTED)
