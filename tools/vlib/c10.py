"""C10 — `#[ds(eqrel)]` behaves as its explicit closure.

Tie B: generated programs with ONE relation tagged `ds: "eqrel"` (binary `t(T,T)` and ternary `t(K,T,T)`) compiled against the
repository; the Lean engine model and the naive oracle run the explicit-closure twin (`eng.twin`).  Only plain relations are compared.
Tie C: op sequences on the provider's `rel_ind_common` triple (new / delta / total) through the trait methods generated code uses,
against the Lean model (Model/EqRelInd.lean) and a closure oracle (the provider contract).
"""
import itertools, json, os
from . import core, eng, gen, engcheck, tieb, tiec

THEOREMS = ["eqrel_twin_binary", "eqrel_twin_ternary", "eqrel_twin_binary_least", "eqrel_twin_binary_refl", "derives_3_1", "not_derives_4",
            "eqrel_add_spec", "eqrel_combine_spec", "eqrel_contains_spec", "eqrel_iter_all_spec", "eqrel_denotes_per", "eqrel_wf_empty",
            "provider_init", "provider_ins_contract", "provider_merge_contract", "provider_run_contract", "provider_total_content",
            "provider_delta_content", "provider_contains_key", "provider_head_guard", "provider_iter_all_added", "provider_index_get_0",
            "provider_iter_all_0_overapprox", "provider_all_inserted", "provider_after_merge"]
TRUSTED = ["Lean 4.33.0 kernel", "axioms: propext, Classical.choice, Quot.sound only (audited per theorem)",
           "statements of Props/C10.lean: (a) Spec/Datalog.lean least model of the explicit-closure twin vs Spec/EqClosure.lean; the closure rules "
           "eqRules2/eqRules3 are compared (Lean driver op `eqtwin`) with the rules tools/vlib/eng.py `twin` appends, for every generated twin; "
           "(b) the provider contract over Model/EqRelInd.lean",
           "tie B: the tagged program is compiled by rustc against the repository, its explicit-closure twin is run by the Lean engine model "
           "(Model/Engine.lean, proved = least model in C01) and by the independent naive oracle of tools/vlib/eng.py; only plain relations are compared",
           "tie C: Model/EqRelInd.lean (union_find.rs EqRel, eqrel_ind.rs EqRelIndCommon, hand-written statement by statement) tied to the real serial "
           "and parallel types through the trait methods generated code calls (harness/ds/src/eqrel.rs); the closure oracle of tools/vlib/c10.py is "
           "independent of the Lean model",
           "modelled not verified: hashbrown HashMap/HashSet (association lists / duplicate-free lists, observations compared after sorting), Rc sharing "
           "(values), Mutex (sequential), real thread interleavings of ascent_par (exercised by multi-threaded runs of compiled programs, not proved)",
           "not covered by theorems: the ternary provider (findings F6, F21, F22 make the contract false for it; F13 and F20 are compile failures)"]

DOM = 6        # element values 0..DOM
KEYS = 3       # key values 0..KEYS-1 (ternary)
V = lambda n: ("v", n)
X = lambda n: ("var", n)


# ---------------------------------------------------------------- program generator

class PB:
    """program builder with named relations"""
    def __init__(self):
        self.rels, self.rules, self.id, self.inputs, self.meta = [], [], {}, [], {}

    def rel(self, name, arity, inp=False, **kw):
        self.rels.append({"arity": arity, **kw}); self.id[name] = len(self.rels) - 1
        if inp: self.inputs.append(name)
        return self.id[name]

    def rule(self, heads, body):
        fix = lambda h: (self.id[h[0]] if isinstance(h[0], str) else h[0], list(h[1]))
        self.rules.append({"heads": [fix(h) for h in heads], "body": [self.item(i) for i in body]})

    def item(self, it):
        if it[0] == "cl": return ("cl", self.id[it[1]] if isinstance(it[1], str) else it[1], list(it[2]), list(it[3]) if len(it) > 3 else [])
        return it

    def prog(self): return {"rels": self.rels, "rules": self.rules}


def cl(rel, *args): return ("cl", rel, [a if isinstance(a, tuple) else ("e", a) for a in args], [])


def patterns(ar):
    """every subset of columns of the tagged relation"""
    return [tuple(s) for k in range(ar + 1) for s in itertools.combinations(range(ar), k)]


def pat_name(s): return "n" if not s else "".join(map(str, s))


def add_observer(b, name, ar, pat, mode, rng, feedback):
    """observer of access pattern `pat` (columns bound) of the tagged relation `t`: `mode` probe = bound by probe relations
    (kk for the key column, p / q for the element columns), const = bound by constants.  feedback: also `t(..) <-- o(..)`,
    which leaves the least model unchanged (o is a subset of t) but puts the observer into t's stratum."""
    b.rel(name, ar)
    probes = (["p", "q"] if ar == 2 else ["kk", "p", "q"])
    vs = [V(j) for j in range(ar)]
    if mode == "probe":
        body = [cl(probes[c], V(c)) for c in pat] + [("cl", "t", vs, [])]
        head = [X(j) for j in range(ar)]
    elif mode in ("join", "rjoin"):
        # a two-clause rule joining t with ONE probe relation over the bound columns: generated code iterates the side with the
        # smaller len_estimate (iter_all) and looks the other one up (index_get) — both directions of the view are exercised
        jn = "j" + pat_name(pat)
        if jn not in b.id:
            b.rel(jn, len(pat), inp=True); b.meta.setdefault("join_probes", {})[jn] = list(pat)
        body = [cl(jn, *[V(c) for c in pat]), ("cl", "t", vs, [])]
        if mode == "rjoin": body.reverse()
        head = [X(j) for j in range(ar)]
    else:
        cs = {c: (rng.below(KEYS) if (ar == 3 and c == 0) else rng.range(0, 3)) for c in pat}
        body = [("cl", "t", [("e", cs[j]) if j in cs else V(j) for j in range(ar)], [])]
        head = [cs[j] if j in cs else X(j) for j in range(ar)]
    b.rule([(name, head)], body)
    if feedback:
        b.rule([("t", [X(j) for j in range(ar)])], [("cl", name, vs, [])])
    b.meta.setdefault("observers", []).append({"rel": name, "pattern": list(pat), "mode": mode, "in_stratum": feedback})


def gen_tagged(rng, ar, recursive, variant, only_pats=None, skip_pats=(), join_skip=(), only_modes=None):
    """one program around a tagged relation t of arity `ar` (2: t(x,y); 3: t(k,x,y))"""
    b = PB()
    k = [V(9)] if ar == 3 else []
    kx = [X(9)] if ar == 3 else []
    b.rel("e", ar, inp=True); b.rel("e2", ar, inp=True)
    b.rel("p", 1, inp=True); b.rel("q", 1, inp=True)
    if ar == 3: b.rel("kk", 1, inp=True); b.rel("link", 2, inp=True)
    b.rel("s", ar - 1, inp=True)
    b.rel("t", ar, ds="eqrel")
    T = lambda a, c: ("cl", "t", k + [a, c], [])
    if recursive:
        # facts reach t over many iterations: s activates edges, t spreads s over whole classes
        b.rule([("t", kx + [X(0), X(1)])], [("cl", "s", k + [V(0)], []), ("cl", "e", k + [V(0), V(1)], [])])
        if variant % 2 == 0:
            b.rule([("s", kx + [X(1)])], [("cl", "s", k + [V(0)], []), T(V(0), V(1))])           # column x bound
        else:
            b.rule([("s", kx + [X(0)])], [("cl", "s", k + [V(1)], []), T(V(0), V(1))])           # column y bound
        if ar == 3:
            # a key is activated by another key: keys start late, pause and resume
            b.rule([("s", [X(8), X(0)])], [("cl", "s", [V(9), V(0)], []), ("cl", "link", [V(9), V(8)], [])])
        if variant % 3 == 1:
            # congruence shape: t in body and head of the same rule
            b.rule([("t", kx + [X(2), X(3)])], [T(V(0), V(1)), ("cl", "e2", k + [V(0), V(2)], []), ("cl", "e2", k + [V(1), V(3)], [])])
        if variant % 3 == 2:
            b.rule([("t", kx + [X(0), X(1)])], [("cl", "e2", k + [V(0), V(1)], [])])            # a second, non-recursive, source
    else:
        b.rule([("t", kx + [X(0), X(1)])], [("cl", "e", k + [V(0), V(1)], [])])
        if variant % 2 == 1:
            b.rule([("t", kx + [X(1), X(0)])], [("cl", "e2", k + [V(0), V(1)], [])])            # second source rule (a stratum of its own)
        if variant % 3 == 2:
            b.rule([("t", kx + [X(0), X(2)])], [T(V(0), V(1)), ("cl", "e2", k + [V(1), V(2)], [])])   # t recursive through itself only
    pats = [s for s in patterns(ar) if s not in skip_pats and (only_pats is None or s in only_pats)]
    for s in pats:
        modes = ["probe", "const"] if s else ["probe"]
        if s and s not in join_skip: modes += (["rjoin"] if len(s) == 1 else ["join", "rjoin"])
        for m in modes:
            if only_modes is not None and m not in only_modes: continue
            # (in-stratum copies of the two-clause joins only for the binary form: the ternary form is broken there anyway, F21)
            if recursive and (ar == 2 or m in ("probe", "const")):
                add_observer(b, f"i{m[0]}{pat_name(s)}", ar, s, m, rng, True)
            add_observer(b, f"o{m[0]}{pat_name(s)}", ar, s, m, rng, False)
    # random rules with t in body and/or head positions (arguments: bound variables, constants, expressions, repeated variables)
    p = b.prog()
    plain = [r for r, d in enumerate(p["rels"]) if not d.get("ds")]
    for j in range(rng.range(1, 3)):
        if only_pats is not None: break
        r2 = rng.fork(f"x{j}")
        body_rels = [r2.choice(plain) for _ in range(r2.range(0, 1))] + [b.id["t"]] + [r2.choice(plain) for _ in range(r2.range(0, 1))]
        hname = f"x{j}"
        har = r2.choice([1, 2, ar])
        b.rel(hname, har)
        head = b.id[hname] if not (recursive and r2.chance(1, 3)) else b.id["t"]
        for attempt in range(20):
            ru = gen.gen_rule(r2.fork(f"a{attempt}"), p, head, body_rels, {"conds": True})
            if not reads_pat(p, ru, b.id["t"], tuple(skip_pats) + tuple(join_skip)): break
        else: continue
        p["rules"].append(ru)
        if head != b.id["t"] and recursive and r2.chance(1, 2) and har == ar:
            p["rules"].append({"heads": [(b.id["t"], [X(j2) for j2 in range(ar)])], "body": [("cl", head, [V(j2) for j2 in range(ar)], [])]})
    return p, b


def bound_cols(p, ru, t):
    """access patterns with which rule `ru` reads relation t (columns bound when the clause is reached)"""
    out = []
    bound = set()
    body = ru["body"]
    if len(body) >= 2 and body[0][0] == "cl" and body[1][0] == "cl" and body[0][1] == t:
        # first clause of a (candidate) simple join: read through the index of the columns shared with the second clause
        v2 = {a[1] for a in body[1][2] if a[0] == "v"}
        sh = tuple(j for j, a in enumerate(body[0][2]) if a[0] == "v" and a[1] in v2)
        if sh: out.append(sh)
    for it in ru["body"]:
        if it[0] == "cl":
            if it[1] == t:
                s = set()
                seen_here = set()
                for j, a in enumerate(it[2]):
                    if a[0] == "e": s.add(j)
                    elif a[1] in bound: s.add(j)
                    elif a[1] in seen_here: pass          # repeated fresh variable: an equality condition, not an index column
                    seen_here.add(a[1]) if a[0] == "v" else None
                out.append(tuple(sorted(s)))
            for a in it[2]:
                if a[0] == "v": bound.add(a[1])
            for c in it[3]:
                if c[0] in ("let", "iflet"): bound.add(c[1])
        elif it[0] in ("let", "iflet", "for"): bound.add(it[1])
    return out


def reads_pat(p, ru, t, pats):
    """the rule reads the tagged relation with one of the access patterns `pats` (those that do not compile: findings F13, F20)"""
    return any(s in pats for s in bound_cols(p, ru, t))


def tagged(p):
    return [r for r, d in enumerate(p["rels"]) if d.get("ds")]


def gen_inputs(rng, p, b, shape):
    """inputs for the plain input relations of a generated program"""
    ar = p["rels"][b.id["t"]]["arity"]
    nk = KEYS if ar == 3 else 1
    inp = {}
    def edges(n, dom):
        return [(rng.range(0, dom), rng.range(0, dom)) for _ in range(n)]
    if shape == "chain":
        # one long chain: with one seed the facts arrive one per iteration
        es = {kk: [(i, i + 1) for i in range(DOM)] for kk in range(nk)}
        seeds = {kk: [0] for kk in range(nk)}
    elif shape == "two-chains":
        es = {kk: [(0, 1), (1, 2), (3, 4), (4, 5), (2, 3) if kk % 2 == 0 else (5, 6)] for kk in range(nk)}
        seeds = {kk: [0, 5] for kk in range(nk)}
    else:
        es = {kk: edges(rng.range(0, 6), rng.range(2, DOM)) for kk in range(nk)}
        seeds = {kk: [rng.range(0, DOM) for _ in range(rng.range(0, 2))] for kk in range(nk)}
    e2 = {kk: edges(rng.range(0, 3), DOM) for kk in range(nk)}
    if ar == 2:
        inp[b.id["e"]] = es[0]; inp[b.id["e2"]] = e2[0]
        inp[b.id["s"]] = [(x,) for x in seeds[0]]
    else:
        inp[b.id["e"]] = [(kk, x, y) for kk in range(nk) for x, y in es[kk]]
        inp[b.id["e2"]] = [(kk, x, y) for kk in range(nk) for x, y in e2[kk]]
        if shape in ("chain", "two-chains"):
            # key 0 is seeded; the other keys are activated through link (later, and again later: pause and resume)
            inp[b.id["s"]] = [(0, x) for x in seeds[0]]
            inp[b.id["link"]] = [(0, 1), (1, 2)] if shape == "chain" else [(0, 2), (2, 1), (1, 0)]
        else:
            inp[b.id["s"]] = [(kk, x) for kk in range(nk) for x in seeds[kk] if rng.chance(2, 3)]
            inp[b.id["link"]] = [(rng.below(nk), rng.below(nk)) for _ in range(rng.range(0, 3))]
        inp[b.id["kk"]] = [(x,) for x in range(nk) if rng.chance(2, 3)]
    for jn, pat in b.meta.get("join_probes", {}).items():
        # small or large on purpose: the join direction depends on the len_estimates of both sides
        n = rng.choice([1, 2, 4, 12, 40])
        inp[b.id[jn]] = [tuple(rng.below(nk) if (ar == 3 and c == 0) else rng.range(0, DOM) for c in pat) for _ in range(n)]
    inp[b.id["p"]] = [(x,) for x in range(DOM + 1) if rng.chance(1, 2)]
    inp[b.id["q"]] = [(x,) for x in range(DOM + 1) if rng.chance(1, 2)]
    return {r: list(dict.fromkeys(rows)) for r, rows in inp.items()}


def module_text(pid, p, par=False):
    """the Driver module of eng.rs_module, with the (FakeVec) tagged relation not loadable"""
    text = eng.rs_module(pid, p, macro="ascent_par" if par else "ascent")
    out = []
    for line in text.split("\n"):
        st = line.strip()
        if any(st.startswith(f"{r} => {{ let v: Vec<") for r in tagged(p)):
            out.append(line[: len(line) - len(line.lstrip())] + st.split(" => ")[0] + " => return None,")
        elif not par and "pl.install(|| Default::default())" in line:
            out.append("      let p = Default::default();")          # serial eqrel holds Rc: the program value is not Send
        elif not par and "pl.install(|| p.run())" in line:
            out.append("      fn run(&mut self) { self.p.run() }")
        else: out.append(line)
    return "\n".join(out)


# ---------------------------------------------------------------- tie B: programs, histories, oracle, known-finding classes

def rels_reaching(p, src):
    """relations whose content depends on relation src (relation-level reachability, src included)"""
    adj = {}
    for ru in p["rules"]:
        for it in ru["body"]:
            if it[0] == "cl":
                for h, _ in ru["heads"]: adj.setdefault(it[1], set()).add(h)
    seen, todo = {src}, [src]
    while todo:
        x = todo.pop()
        for y in adj.get(x, ()):
            if y not in seen: seen.add(y); todo.append(y)
    return seen


def head_rules(p, t): return [ru for ru in p["rules"] if any(h == t for h, _ in ru["heads"])]


def dynamic_in_loop(p, t):
    """some rule deriving t reads a relation that depends on t: t is updated inside a looping stratum"""
    dep = rels_reaching(p, t)
    return any(it[0] == "cl" and it[1] in dep for ru in head_rules(p, t) for it in ru["body"])


F21_TEXT = ("ternary eqrel relation derived inside a looping stratum: its delta is always empty when the rules run, so rules reading it never see "
            "new tuples (the full-index write view `&mut EqRel2IndCommon` forwards merge_delta_to_total_new_to_delta, so the generated per-index "
            "merge performs the real merge a second time in every iteration: new -> delta -> total at once)")
F6_TEXT = ("ternary eqrel relation derived by more than one rule (several strata): tuples of a key that is already present are lost (the merge "
           "drains delta.map, merges `new` into the drained per-key delta and drops it; a key present only in `new` restarts from an empty class set)")


def ternary_class(p):
    """class predicates of the two findings about the TERNARY eqrel provider, over the generated program:
    F21: the tagged ternary relation is derived inside a looping stratum (some rule deriving it reads a relation that depends on it);
    F6:  otherwise, it is derived by at least two rules (= at least two non-looping strata update it, the later ones find its keys present)"""
    for t in tagged(p):
        if p["rels"][t]["arity"] == 3:
            if dynamic_in_loop(p, t): return ("F21", F21_TEXT)
            if len(head_rules(p, t)) >= 2: return ("F6", F6_TEXT)
    return None


def joins_on_last_two(p):
    """class predicate of finding F22: some rule starts with two clauses, one of them the TERNARY tagged relation r(k, x, y), the other
    one sharing with it exactly the variables of its columns 1 and 2 (generated code joins them through view [1,2] and iterates the
    eqrel side with iter_all whenever its len_estimate is the smaller one)"""
    for t in tagged(p):
        if p["rels"][t]["arity"] != 3: continue
        for ru in p["rules"]:
            b = ru["body"]
            if len(b) < 2 or b[0][0] != "cl" or b[1][0] != "cl": continue
            for me, other in ((b[0], b[1]), (b[1], b[0])):
                if me[1] != t or other[1] == t: continue
                ov = {a[1] for a in other[2] if a[0] == "v"}
                sh = tuple(j for j, a in enumerate(me[2]) if a[0] == "v" and a[1] in ov)
                if sh == (1, 2): return True
    return False


def strip_tagged(p, line):
    """a dump line without the content of the tagged relations (never observable in the real program: FakeVec)"""
    if not line.startswith("r0:"): return line
    parts = line.split(" | ")
    for t in tagged(p):
        if t < len(parts): parts[t] = f"r{t}:"
    return " | ".join(parts)


class Group:
    def __init__(self, name): self.name, self.twins, self.tagged, self.mods, self.cases, self.par = name, {}, {}, [], [], set()

    def add(self, pid, p, par=False):
        if par: self.par.add(pid)
        self.tagged[pid] = p; self.twins[pid] = eng.twin(p); self.mods.append((pid, module_text(pid, p, par)))


def history(inst, pid, inp, par):
    return [f"eng new {inst} {pid}" + (" par" if par else "")] + engcheck.std_history(inst, pid, inp)[1:]


SHAPES = ["chain", "two-chains", "rand", "rand", "rand"]


def build(rng, tier):
    """-> (main group, [groups expected not to compile])"""
    g, gx, gy = Group("c10"), Group("c10x"), Group("c10y")
    nvar = 3 if tier == "quick" else 9
    ninp = 5 if tier == "quick" else 24
    plan = []
    for v in range(nvar):
        plan.append((f"bn{v}", 2, False, v)); plan.append((f"br{v}", 2, True, v))
        plan.append((f"tn{v}", 3, False, v)); plan.append((f"tr{v}", 3, True, v))
    for pid, ar, rec, v in plan:
        r2 = rng.fork(pid)
        variants = [(pid, False)] + ([(pid + "p", True)] if ar == 2 else [])
        for pid2, par in variants:
            # patterns that do not compile (F13: ternary [2]; F20: parallel binary [0,1]) live in binaries of their own
            p, b = gen_tagged(rng.fork(pid), ar, rec, v, skip_pats=((2,),) if ar == 3 else (((0, 1),) if par else ()),
                              join_skip=((1, 2),) if ar == 3 else ())
            g.add(pid2, p, par)
            for j in range(ninp):
                inp = gen_inputs(r2.fork(f"i{j}"), p, b, SHAPES[j % len(SHAPES)])
                inst = f"{pid2}_{j}"
                g.cases.append(engcheck.Case(pid2, inst, history(inst, pid2, inp, par),
                                             {"inp": inp, "kind": ("binary" if ar == 2 else "ternary") + ("-rec" if rec else "-nonrec") + ("-par" if par else ""),
                                              "shape": SHAPES[j % len(SHAPES)]}))
            if ar == 2 and not par:
                # re-run after pushing more edges (extra coverage: the provider state survives between runs)
                inp = gen_inputs(r2.fork("rr"), p, b, "rand")
                more = gen_inputs(r2.fork("rr2"), p, b, "two-chains")
                inst = f"{pid2}_rr"
                ops = history(inst, pid2, inp, par)
                union = {r: list(rows) for r, rows in inp.items()}
                for r in (b.id["e"], b.id["s"]):
                    ops.append(f"eng push {inst} r{r}" + "".join(" " + eng.sx_tuple(t) for t in more[r]))
                    union[r] = list(dict.fromkeys(union[r] + more[r]))
                ops += [f"eng run {inst}", f"eng dump {inst}"]
                g.cases.append(engcheck.Case(pid2, inst, ops, {"inp": inp, "inp2": union, "kind": "binary-rerun"}))
    # ternary relation joined on its last two columns in a two-clause rule (finding F22: iter_all of view [1,2] yields wrong tuples);
    # single source rule, no recursion: outside the classes of F6 / F21
    for v in range(2 if tier == "quick" else 6):
        pid = f"tj{v}"
        r2 = rng.fork(pid)
        p, b = gen_tagged(r2, 3, False, 0, only_pats=[(1, 2)], only_modes=("join", "rjoin"))
        g.add(pid, p)
        for j in range(ninp):
            inp = gen_inputs(r2.fork(f"i{j}"), p, b, SHAPES[j % len(SHAPES)])
            inst = f"{pid}_{j}"
            g.cases.append(engcheck.Case(pid, inst, history(inst, pid, inp, False), {"inp": inp, "kind": "ternary-join-on-last-two-columns"}))
    # ternary relation read with only its third column bound: its own binary (finding F13: does not compile)
    for v, rec in ((0, False), (1, True)):
        pid = f"tx{v}"
        r2 = rng.fork(pid)
        p, b = gen_tagged(r2, 3, rec, 0, only_pats=[(2,)])
        gx.add(pid, p)
        for j in range(ninp):
            inp = gen_inputs(r2.fork(f"i{j}"), p, b, SHAPES[j % len(SHAPES)])
            inst = f"{pid}_{j}"
            gx.cases.append(engcheck.Case(pid, inst, history(inst, pid, inp, False), {"inp": inp, "kind": "ternary-third-column" + ("-rec" if rec else "-nonrec")}))
    # parallel binary relation read with both columns bound: its own binary (finding F20: does not compile)
    for v, rec in ((0, False), (1, True)):
        pid = f"bx{v}"
        r2 = rng.fork(pid)
        p, b = gen_tagged(r2, 2, rec, 0, only_pats=[(0, 1)])
        gy.add(pid, p, True)
        for j in range(ninp):
            inp = gen_inputs(r2.fork(f"i{j}"), p, b, SHAPES[j % len(SHAPES)])
            inst = f"{pid}_{j}"
            gy.cases.append(engcheck.Case(pid, inst, history(inst, pid, inp, True), {"inp": inp, "kind": "binary-par-both-columns" + ("-rec" if rec else "-nonrec")}))
    # duplicate- and absence-sensitive readers of a binary eqrel relation in later strata (serial): count / sum over a class, negation with both / one column bound
    for v in range(2 if tier == "quick" else 5):
        p = {"rels": [{"arity": 2}, {"arity": 1}, {"arity": 2, "ds": "eqrel"}, {"arity": 2}, {"arity": 2}, {"arity": 2}, {"arity": 1}],
             "rules": [{"heads": [(2, [("var", 0), ("var", 1)])], "body": [("cl", 0, [("v", 0), ("v", 1)], [])]},
                       {"heads": [(3, [("var", 0), ("var", 21)])], "body": [("cl", 1, [("v", 0)], []), ("agg", [21], "count", [], 2, [("k", ("var", 0)), "_"] if v % 2 == 0 else ["_", ("k", ("var", 0))])]},
                       {"heads": [(4, [("var", 0), ("var", 21)])], "body": [("cl", 1, [("v", 0)], []), ("agg", [21], "sum", [20], 2, [("k", ("var", 0)), ("b", 20)])]},
                       {"heads": [(5, [("var", 0), ("var", 1)])], "body": [("cl", 1, [("v", 0)], []), ("cl", 1, [("v", 1)], []), ("agg", [], "not", [], 2, [("k", ("var", 0)), ("k", ("var", 1))])]},
                       {"heads": [(6, [("var", 0)])], "body": [("cl", 1, [("v", 0)], []), ("agg", [], "not", [], 2, [("k", ("var", 0)), "_"])]}]}
        pid = f"ag{v}"
        g.add(pid, p)
        for j in range(ninp):
            r2 = rng.fork(f"{pid}i{j}")
            n = r2.range(4, 8)
            e = list(dict.fromkeys((r2.below(n), r2.below(n)) for _ in range(r2.range(1, 6))))
            inp = {0: e, 1: [(x,) for x in range(n)], 3: [], 4: [], 5: [], 6: []}
            inst = f"{pid}_{j}"
            g.cases.append(engcheck.Case(pid, inst, history(inst, pid, inp, False), {"inp": inp, "kind": "binary-aggneg"}))
    gx.expect = ("F13", "ToEqRel2Ind2", "ternary-third-column (does not compile)",
                 "a ternary eqrel relation read with only its third column bound does not compile: eqrel_ternary.rs maps index [2] to "
                 "`ToEqRel2Ind2`, which is not defined anywhere (rustc: cannot find type `ToEqRel2Ind2`)")
    gy.expect = ("F20", "expected `&&(i64, i64)`", "binary-par-both-columns (does not compile)",
                 "under ascent_par! a binary eqrel relation read with both columns bound does not compile: ceqrel_ind.rs declares "
                 "`type Key = &'a (T, T)` in RelIndexRead / CRelIndexRead for CEqRelIndCommon where generated code passes `&(T, T)` (rustc E0308: expected `&&(i64, i64)`)")
    return g, [gx, gy]


def add_corpus(g):
    """witnesses and controls of corpus/C10 (always run, judged like generated cases)"""
    n = 0
    for fn, cfile in core.corpus("C10"):
        for it in cfile.get("scenarios", []):
            if "program" not in it: continue
            q = eng.from_json(it["program"])
            p = {"rels": [dict(d) for d in q["rels"]],
                 "rules": [{"heads": [(h[0], list(h[1])) for h in ru["heads"]], "body": [tuple(x) if isinstance(x, tuple) else x for x in ru["body"]]} for ru in q["rules"]]}
            pid = f"w{n}"; n += 1
            par = bool(it.get("par"))
            g.add(pid, p, par)
            inp = {int(k): [tuple(t) for t in v] for k, v in it["inputs"].items()}
            g.cases.append(engcheck.Case(pid, pid + "_0", history(pid + "_0", pid, inp, par), {"inp": inp, "kind": "corpus", "name": it.get("name")}))


def spec_of(g, c, inp, key):
    """least model of the explicit-closure twin over the case's input (computed once per case)"""
    if key not in c.meta: c.meta[key] = engcheck.spec_sets(g.twins[c.pid], inp)
    return c.meta[key]


def oracle_for(g):
    def oracle(c, out):
        """the observers of the tagged program must equal those of the explicit-closure twin (naive least model)"""
        p, q = g.tagged[c.pid], g.twins[c.pid]
        dumps = [o for o, op in zip(out, c.ops) if op.startswith("eng dump")]
        for o in out:
            if o.startswith("panic") or o.startswith("timeout") or o in ("bad-op", "no-output(crash)"): return f"run failed: {o}"
        exp_inputs = [("_spec", c.meta["inp"])] + ([("_spec2", c.meta["inp2"])] if "inp2" in c.meta else [])
        for dump, (key, inp) in zip(dumps, exp_inputs):
            if not dump.startswith("r0:"): return f"run/dump failed: {dump}"
            spec = spec_of(g, c, inp, key)
            sets, _ = engcheck.dump_sets(dump)
            for rel in range(len(p["rels"])):
                if rel in tagged(p): continue
                got, exp = sets.get(rel, set()), spec[rel]
                if got != exp:
                    return f"relation r{rel}: missing {sorted(exp - got)[:5]} unexpected {sorted(got - exp)[:5]} (explicit closure gives {len(exp)} tuples, eqrel {len(got)})"
        return None
    return oracle


def direction(g, c, out):
    """`missing` if the observers only lack tuples, `extra` if they only have unexpected ones, else `both` / None (no dump)"""
    p, q = g.tagged[c.pid], g.twins[c.pid]
    dump = out[-1]
    if not dump.startswith("r0:"): return None
    spec = spec_of(g, c, c.meta["inp"], "_spec")
    sets, _ = engcheck.dump_sets(dump)
    plain = [rel for rel in range(len(p["rels"])) if rel not in tagged(p)]
    miss = any(spec[rel] - sets.get(rel, set()) for rel in plain)
    extra = any(sets.get(rel, set()) - spec[rel] for rel in plain)
    return "both" if miss and extra else ("missing" if miss else "extra")


def known_for(g):
    def known(c, impl, model):
        # inside the class AND the failure has the finding's signature: derived tuples are missing, none is unexpected, nothing panics
        p = g.tagged[c.pid]
        cls = ternary_class(p)
        if "inp2" in c.meta: return None
        dr = direction(g, c, impl)
        if cls and dr == "missing": return cls
        # F22: outside the classes above, a two-clause join on the last two columns, and only unexpected tuples
        if cls is None and joins_on_last_two(p) and dr == "extra": return ("F22", F22_TEXT)
        return None
    return known


def run_model_parallel(lines, pid_of_line, k=6):
    """the Lean driver on the same lines, programs spread over k driver processes (instances of different programs are independent)"""
    import threading
    order = list(dict.fromkeys(pid_of_line))
    chunk = {pid: i % k for i, pid in enumerate(order)}
    idxs = [[i for i, p in enumerate(pid_of_line) if chunk[p] == c] for c in range(k)]
    out = [None] * len(lines)
    errs = []
    def work(ix):
        try:
            res = core.run_model([lines[i] for i in ix])
            for i, o in zip(ix, res): out[i] = o
        except Exception as ex: errs.append(ex)
    ths = [threading.Thread(target=work, args=(ix,)) for ix in idxs if ix]
    for t in ths: t.start()
    for t in ths: t.join()
    if errs: raise errs[0]
    return out


def run_impl_guarded(bins, lines, pid_of_line, timeout):
    """tieb.run_impl with a wall-clock bound per binary: a run() that does not return is an outcome (`timeout`), not a hang of the check"""
    import subprocess, threading
    by_bin = {}
    for i, pid in enumerate(pid_of_line): by_bin.setdefault(bins[pid], []).append(i)
    out = ["timeout (run() did not return)"] * len(lines)
    def feed(b, idxs):
        p = subprocess.Popen([b], stdin=subprocess.PIPE, stdout=subprocess.PIPE, stderr=subprocess.DEVNULL, text=True)
        try:
            res, _ = p.communicate("\n".join(lines[i] for i in idxs) + "\n", timeout=timeout)
        except subprocess.TimeoutExpired:
            p.kill()
            res, _ = p.communicate()
            res = res[: res.rfind("\n") + 1]          # drop a possibly incomplete last line
        res = res.split("\n")
        if res and res[-1] == "": res.pop()
        for j, i in enumerate(idxs):
            if j < len(res): out[i] = res[j]
            elif p.returncode not in (None, -9): out[i] = "no-output(crash)"
    ths = [threading.Thread(target=feed, args=bi) for bi in by_bin.items()]
    for t in ths: t.start()
    for t in ths: t.join()
    return out


RUN_TIMEOUT = {"quick": 120, "thorough": 1200}


def run_cases(report, g, model):
    """engcheck.run_cases with the model side run by several driver processes"""
    bins, log, wall = tieb.build(g.name, g.mods, nbins=8)
    report.cov["engine_build_s"] = round(report.cov.get("engine_build_s", 0) + wall, 1)
    if bins is None:
        tieb.report_build_failure(report, g.name, g.mods, log)
        return None
    lines, pids = [], []
    for pid, p in g.twins.items():
        lines.append(f"eng prog {pid} {eng.sx_prog(p)}"); pids.append(pid)
    spans = []
    for c in g.cases:
        a = len(lines)
        for o in c.ops:
            lines.append(o); pids.append(c.pid)
        spans.append((a, len(lines)))
    import threading, time
    box = {}
    th = threading.Thread(target=lambda: box.setdefault("impl", run_impl_guarded(bins, lines, pids, RUN_TIMEOUT[report.tier])))
    t0 = time.time()
    th.start()
    mod = run_model_parallel(lines, pids) if model else None
    th.join()
    report.cov["engine_run_s"] = round(report.cov.get("engine_run_s", 0) + time.time() - t0, 1)
    impl = box["impl"]
    return [(impl[a:b], mod[a:b] if mod is not None else None) for a, b in spans]


def run_group(r, d, g, model_ok, hist):
    outs = run_cases(r, g, model_ok)
    if outs is None: return False
    orc, kn0 = oracle_for(g), known_for(g)
    kc = r.cov.setdefault("known_finding_cases", {})
    def kn(c, i, m):
        res = kn0(c, i, m)
        if res:
            key = f"{res[0]}:{c.meta.get('kind')}"; kc[key] = kc.get(key, 0) + 1
        return res
    for c, (io, mo) in zip(g.cases, outs):
        p = g.tagged[c.pid]
        text = (f"eng prog {c.pid} {eng.sx_prog(g.twins[c.pid])}\n" + "\n".join(c.ops) + "\n# tagged-ast: " + json.dumps(p) +
                "\n# meta: " + json.dumps({"par": c.pid in g.par, "inp": {str(k): v for k, v in c.meta["inp"].items()},
                                           "inp2": {str(k): v for k, v in c.meta["inp2"].items()} if "inp2" in c.meta else None}) +
                "\n# tagged program:\n# " + eng.rs_program(p).replace("\n", "\n# "))
        io_c = [strip_tagged(p, x) for x in io]
        mo_c = None if mo is None else [strip_tagged(p, x) for x in mo]
        d.case(text, "\n".join(io_c), None if mo_c is None else "\n".join(mo_c),
               lambda _l, out, c=c: orc(c, out.split("\n")), nontrivial=True,
               known=lambda _l, i, m, c=c: kn(c, i.split("\n"), None if m is None else m.split("\n")))
        k = c.meta.get("kind", "case"); hist[k] = hist.get(k, 0) + 1
    if g.cases:
        r.sample({"program": eng.rs_program(g.tagged[g.cases[0].pid]), "history": g.cases[0].ops, "impl": outs[0][0]})
    return True


def tie_b(r, d, rng, tier, model_ok):
    g, broken = build(rng.fork("tieB"), tier)
    add_corpus(g)
    hist = {}
    run_group(r, d, g, model_ok, hist)
    # groups built on their own: a compile failure with the finding's rustc message is the finding (and only that message: every
    # `error` line of the log must be explained by it); if the group compiles its cases are checked like all others
    for gx in broken:
        bins, log, wall = tieb.build(gx.name, gx.mods, nbins=1)
        r.cov["engine_build_s"] = round(r.cov.get("engine_build_s", 0) + wall, 1)
        fid, marker, kind, text = gx.expect
        if bins is None:
            errs = [l for l in log.split("\n") if l.startswith("error[")]
            codes = {"F13": ("error[E0412]", "error[E0425]"), "F20": ("error[E0308]",)}[fid]
            if marker in log and errs and all(l.startswith(codes) for l in errs):
                r.known(fid, text)
                hist[kind] = len(gx.cases)
            else:
                r.violation({"kind": "obligation-broken", "no_longer_checks": [f"generated programs of group {gx.name} do not compile for an unexpected reason"], "log": log[-3000:]}, no_input=True)
        else:
            run_group(r, d, gx, model_ok, hist)
    # the twins handed to model and oracle end with exactly the closure rules of theorem (a) (checked by the Lean driver)
    if model_ok:
        tw = [(pid, p, grp.twins[pid]) for grp in [g] + broken for pid, p in grp.tagged.items()]
        outs = core.run_model([f"eqtwin {eng.sx_prog(q)} {tagged(p)[0]} {p['rels'][tagged(p)[0]]['arity']}" for _, p, q in tw])
        bad = [pid for (pid, _, _), o in zip(tw, outs) if o != "ok"]
        r.cov["twins_matching_theorem_rules"] = len(tw) - len(bad)
        if bad:
            r.violation({"kind": "obligation-broken", "no_longer_checks": [f"explicit-closure twins of {bad[:5]} do not end with the closure rules of Props/C10.lean (eqRules2/eqRules3)"]}, no_input=True)
    r.cov["programs"] = len(g.twins) + sum(len(x.twins) for x in broken)
    r.cov["case_kinds"] = hist
    pats = {}
    for grp in [g] + broken:
        for pid, p in grp.tagged.items():
            t = tagged(p)[0]
            for ru in p["rules"]:
                for s in bound_cols(p, ru, t):
                    key = f"arity{p['rels'][t]['arity']}:[{','.join(map(str, s))}]"
                    pats[key] = pats.get(key, 0) + 1
    r.cov["access_patterns_read"] = pats


# ---------------------------------------------------------------- tie C: the provider contract on op sequences

def closure(pairs):
    """equivalence closure of a set of pairs, reflexive on mentioned elements (naive relabelling partition)"""
    label = {}
    for x, y in pairs:
        label.setdefault(x, x); label.setdefault(y, y)
        lx, ly = label[x], label[y]
        if lx != ly:
            for k, v in label.items():
                if v == ly: label[k] = lx
    return {(a, b) for a in label for b in label if label[a] == label[b]}


def fields(line):
    return dict(kv.split("=", 1) for kv in line.split(" ")) if line and "=" in line else None


def plist(v, n=2):
    """`1:2,1:3` -> sorted list of tuples (multiplicity kept)"""
    return sorted(tuple(int(a) for a in p.split(":")) for p in v.split(",")) if v else []


def ilist(v):
    return None if v == "-" else (sorted(int(a) for a in v.split(",")) if v else [])


class BinSpec:
    """the provider contract (binary form): `new` holds the pairs inserted since the last merge; a merge makes
    total' = total ∪ delta (= the former delta.combined) and delta' = closure(total ∪ delta ∪ new) \ total'"""
    def __init__(self): self.N, self.D, self.T = set(), set(), set()

    def ins(self, x, y):
        fresh = (x, y) not in closure(self.N)
        self.N.add((x, y))
        return fresh

    def merge(self):
        self.T = set(self.D); self.D = closure(self.D | self.N); self.N = set()

    def version(self, ver):
        """(content as the list the exact views must print, the superset `iter_all` of view [0] may print)"""
        if ver == "delta": return sorted(self.D - self.T), self.D
        if ver == "total": return sorted(self.T), self.T
        return sorted(self.T) + sorted(self.D - self.T), self.D      # td: RelIndexCombined(total, delta)


def check_bin_snap(sp, ver, es, out, par):
    f = fields(out)
    if f is None: return f"unreadable snapshot {out!r}"
    content, upper = sp.version(ver)
    cset = set(content)
    bits = "".join("1" if (x, y) in cset else "0" for x in es for y in es)
    pre = ["", "c"] if par else [""]
    if f["has"] != bits: return f"contains_key: expected {bits}, got {f['has']}"
    for c in pre:
        if f[c + "get01"] != bits: return f"{c}index_get of the full index: expected {bits}, got {f[c + 'get01']}"
        for name in ("all01", "getn", "alln"):
            if plist(f[c + name]) != sorted(content): return f"{c}{name}: expected {sorted(content)}, got {f[c + name]}"
        got0 = f[c + "get0"].split(";") if es else []
        for x, g in zip(es, got0):
            exp = sorted(b for a, b in content if a == x)
            if (ilist(g) or []) != exp: return f"{c}index_get({x}) of view [0]: expected {exp}, got {g!r}"
        a0 = set(plist(f[c + "all0"]))
        if not (cset <= a0 <= upper): return f"{c}iter_all of view [0]: {sorted(a0)} is not between the content {sorted(cset)} and combined {sorted(upper)}"
        if ver == "total" and plist(f[c + "all0"]) != sorted(content): return f"{c}iter_all of view [0] of total: expected {sorted(content)}, got {f[c + 'all0']}"
    if not par and int(f["count"]) != len(content): return f"count_exact: expected {len(content)}, got {f['count']}"
    return None


def bin_oracle(ops, outs):
    sp = BinSpec()
    for j, (op, o) in enumerate(zip(ops, outs)):
        t = op.split()
        k = t[1]
        bad = lambda why: f"op {j} `{op}` -> {o[:200]!r}: {why}"
        if o.startswith("panic"): return f"op {j} `{op}` panics"
        if k == "mk":
            sp = BinSpec()
            if o != "ok": return bad("expected ok")
        elif k == "ins":
            exp = str(sp.ins(int(t[3]), int(t[4]))).lower()
            if o != exp: return bad(f"insert_if_not_present must return {exp} (true iff the pair is not in the closure of what `new` holds)")
        elif k in ("merge", "mergecommon"):
            sp.merge()
            if o != "ok": return bad("expected ok")
        elif k == "mergeview":
            if o != "ok": return bad("expected ok")
        elif k == "snap":
            why = check_bin_snap(sp, t[3], [int(x) for x in t[4:]], o, t[0] == "ceq")
            if why: return bad(why)
        else: return bad("unknown op")
    return None


class TerSpec:
    def __init__(self): self.k = {}
    def get(self, k): return self.k.setdefault(k, BinSpec())
    def merge(self):
        for sp in self.k.values(): sp.merge()
    def content(self, ver):
        return sorted((k, a, b) for k, sp in self.k.items() for a, b in (sp.D - sp.T if ver == "delta" else sp.T))


def ter_oracle(ops, outs, skip=()):
    sp = TerSpec()
    for j, (op, o) in enumerate(zip(ops, outs)):
        t = op.replace("(", " ( ").replace(")", " ) ").split()
        k = t[1]
        bad = lambda why: f"op {j} `{op}` -> {o[:200]!r}: {why}"
        if o.startswith("panic"): return f"op {j} `{op}` panics"
        if k == "mk":
            sp = TerSpec()
        elif k == "ins":
            exp = str(sp.get(int(t[3])).ins(int(t[4]), int(t[5]))).lower()
            if o != exp: return bad(f"insert_if_not_present must return {exp}")
        elif k in ("merge", "mergecommon"): sp.merge()
        elif k == "mergeview": pass
        elif k == "snap":
            ver = t[3]
            i1 = t.index(")")
            ks = [int(x) for x in t[5:i1]]; es = [int(x) for x in t[i1 + 2:-1]]
            f = fields(o)
            if f is None: return bad("unreadable snapshot")
            c = sp.content(ver); cs = set(c)
            bits = "".join("1" if (kk, x, y) in cs else "0" for kk in ks for x in es for y in es)
            if f["has"] != bits: return bad(f"contains_key: expected {bits}")
            if f["get012"] != bits: return bad(f"index_get of the full index: expected {bits}")
            for name in ("all012", "getn", "alln", "all0", "all01", "all1", "all12"):
                if name not in skip and plist(f[name]) != c: return bad(f"{name}: expected {c}, got {f[name]}")
            for kk, g in zip(ks, f["get0"].split(";")):
                exp = sorted((a, b) for k2, a, b in c if k2 == kk)
                if (plist(g) if g != "-" else []) != exp: return bad(f"index_get({kk}) of view [0]: expected {exp}, got {g!r}")
            for (kk, x), g in zip([(kk, x) for kk in ks for x in es], f["get01"].split(";")):
                exp = sorted(b for k2, a, b in c if k2 == kk and a == x)
                if (ilist(g) or []) != exp: return bad(f"index_get({kk},{x}) of view [0,1]: expected {exp}, got {g!r}")
            for x, g in zip(es, f["get1"].split(";")):
                exp = sorted((k2, b) for k2, a, b in c if a == x)
                if (plist(g) if g != "-" else []) != exp: return bad(f"index_get({x}) of view [1]: expected {exp}, got {g!r}")
            for (x, y), g in zip([(x, y) for x in es for y in es], f["get12"].split(";")):
                exp = sorted(k2 for k2, a, b in c if a == x and b == y)
                if (ilist(g) or []) != exp: return bad(f"index_get({x},{y}) of view [1,2]: expected {exp}, got {g!r}")
        else: return bad("unknown op")
    return None


F22_TEXT = ("iter_all of the ternary eqrel view [1,2] (EqRel2Ind1_2) yields (x, y) -> k for every two elements that occur under key k, without "
            "checking that x and y are in the same class of k: tuples that are not in the relation (a rule `h <-- pq(x, y), r(k, x, y)` joined "
            "from the eqrel side derives them)")


def ter_known(ops, outs):
    """class predicates of F22 / F21 / F6 at provider level, over the op sequence"""
    if ter_oracle(ops, outs, skip=("all12",)) is None:
        # only iter_all of view [1,2] is wrong, and only by extra tuples: some key has two elements in different classes
        sp = TerSpec()
        for op in ops:
            t = op.split()
            if t[1] == "ins": sp.get(int(t[3])).ins(int(t[4]), int(t[5]))
        for k, b in sp.k.items():
            cl = closure(b.N)
            if any((x, y) not in cl for x, _ in cl for y, _ in cl): return ("F22", F22_TEXT)
        return None
    kinds = [op.split()[1] for op in ops]
    panics = [op for op, o in zip(ops, outs) if o.startswith("panic")]
    if "merge" in kinds or "mergeview" in kinds:
        # the merges of the index views are not no-ops
        if not panics: return ("F21", F21_TEXT)
        return None
    # only `mergecommon`: some key receives inserts in two different rounds
    rounds, cur = {}, 0
    for op in ops:
        t = op.split()
        if t[1] == "mergecommon": cur += 1
        if t[1] == "ins": rounds.setdefault(int(t[3]), set()).add(cur)
    if any(len(r) >= 2 for r in rounds.values()) and all(" snap " in op and " delta " in op for op in panics):
        return ("F6", F6_TEXT)
    return None


def bin_exhaustive(maxlen, dom, prefix="eq"):
    """every sequence of <= maxlen ops (insert of any pair over dom | merge); delta / total / td read after every merge and at the end"""
    d = " ".join(map(str, dom + [dom[-1] + 1]))
    snaps = [f"{prefix} snap x delta {d}", f"{prefix} snap x total {d}"] + ([f"{prefix} snap x td {d}"] if prefix == "eq" else [])
    steps = [[f"{prefix} ins x {a} {b}"] for a in dom for b in dom] + [[f"{prefix} merge x"] + snaps]
    for n in range(maxlen + 1):
        for seq in itertools.product(steps, repeat=n):
            yield (f"{prefix}-exh", [f"{prefix} mk x"] + [l for st in seq for l in st] + snaps)


def bin_random(rng, n, maxlen, prefix="eq"):
    for i in range(n):
        k = rng.range(2, 8)
        dom = list(range(1, k + 1))
        d = " ".join(map(str, dom + [k + 1]))
        snaps = [f"{prefix} snap r delta {d}", f"{prefix} snap r total {d}"] + ([f"{prefix} snap r td {d}"] if prefix == "eq" else [])
        ops = [f"{prefix} mk r"]
        shape = rng.below(3)
        pm = rng.choice([2, 4, 8])
        for s in range(rng.range(1, maxlen)):
            if rng.chance(1, pm):
                ops.append(f"{prefix} " + rng.choice(["merge", "merge", "mergecommon", "mergeview"]) + " r")
                if rng.chance(2, 3): ops += snaps
            else:
                if shape == 1 and rng.chance(2, 3):
                    x = rng.choice(dom); y = dom[(dom.index(x) + 1) % len(dom)]
                elif shape == 2 and rng.chance(1, 3): x = y = rng.choice(dom)
                else: x, y = rng.choice(dom), rng.choice(dom)
                ops.append(f"{prefix} ins r {x} {y}")
                if rng.chance(1, 8): ops += snaps      # reading before the merge: inserts into `new` are not visible
        ops += [f"{prefix} merge r"] + snaps + [f"{prefix} merge r"] + snaps
        yield (f"{prefix}-rand", ops)


def ter_scenarios(rng, n):
    """ternary provider (no Lean model: judged by the contract oracle only).
    eqt-single: each key receives inserts in ONE round only, only the common triple is merged (the contract's one merge per round);
    eqt-gen: merges as generated code issues them (common triple + every index view) — class F21;
    eqt-multi: a key receives inserts in several rounds — class F6"""
    ks, es = [0, 1, 2], [1, 2, 3, 4, 5]
    snap = lambda ver: f"eqt snap t {ver} ({' '.join(map(str, ks + [7]))}) ({' '.join(map(str, es + [9]))})"
    for i in range(n):
        kind = ["eqt-single", "eqt-single", "eqt-gen", "eqt-multi"][i % 4]
        ops = ["eqt mk t"]
        nrounds = rng.range(1, 3)
        keys = rng.shuffle(ks)
        for r in range(nrounds):
            mine = [keys[r]] if kind == "eqt-single" else [rng.choice(ks) for _ in range(rng.range(1, 2))]
            for _ in range(rng.range(1, 5)):
                ops.append(f"eqt ins t {rng.choice(mine)} {rng.choice(es)} {rng.choice(es)}")
            ops.append("eqt merge t" if kind == "eqt-gen" else "eqt mergecommon t")
            ops += [snap("delta"), snap("total")]
        ops += ["eqt merge t" if kind == "eqt-gen" else "eqt mergecommon t", snap("delta"), snap("total")]
        yield (kind, ops)
    # generated-code protocol, everything inserted in one round and merged twice (a non-looping stratum): must agree
    for i in range(n // 2):
        ops = ["eqt mk t"] + [f"eqt ins t {rng.choice(ks)} {rng.choice(es)} {rng.choice(es)}" for _ in range(rng.range(1, 8))]
        ops += ["eqt merge t", "eqt merge t", snap("total")]
        yield ("eqt-one-stratum", ops)


def corpus_ops():
    out = []
    for fn, cfile in core.corpus("C10"):
        for it in cfile.get("scenarios", []):
            if "ops" in it: out.append((it["ops"][0].split()[0] + "-corpus", it["ops"]))
    return out


def replay_group(text):
    """a one-case group from the `input` text of a tie-B replay file"""
    lines = text.split("\n")
    ops = [l for l in lines if l and not l.startswith("#")]
    ast = next(l for l in lines if l.startswith("# tagged-ast: "))[len("# tagged-ast: "):]
    meta = json.loads(next(l for l in lines if l.startswith("# meta: "))[len("# meta: "):])
    q = eng.from_json(json.loads(ast))
    p = {"rels": [dict(dd) for dd in q["rels"]],
         "rules": [{"heads": [(h[0], list(h[1])) for h in ru["heads"]], "body": list(ru["body"])} for ru in q["rules"]]}
    pid = ops[0].split()[2]
    g = Group("c10r")
    g.add(pid, p, bool(meta.get("par")))
    cm = {"inp": {int(k): [tuple(t) for t in v] for k, v in meta["inp"].items()}, "kind": "replay"}
    if meta.get("inp2"): cm["inp2"] = {int(k): [tuple(t) for t in v] for k, v in meta["inp2"].items()}
    g.cases.append(engcheck.Case(pid, ops[1].split()[2], ops[1:], cm))
    return g


def tie_c(r, d, rng, tier, model_ok, only=None):
    binary, blog = tiec.build_ds(r)
    if binary is None:
        r.violation({"kind": "obligation-broken", "no_longer_checks": ["harness/ds does not build against the repository"], "log": blog[-2000:]}, no_input=True)
        return
    big = tier != "quick"
    if only is not None: scen = only
    else:
        scen = corpus_ops()
        scen += list(bin_exhaustive(4 if big else 3, [1, 2, 3]))
        scen += list(bin_exhaustive(3 if big else 2, [1, 2, 3], "ceq"))
        scen += list(bin_random(rng.fork("eq"), 3000 if big else 300, 40))
        scen += list(bin_random(rng.fork("ceq"), 1500 if big else 150, 40, "ceq"))
        scen += list(ter_scenarios(rng.fork("eqt"), 2000 if big else 200))
    with_model = [(k, ops) for k, ops in scen if not k.startswith("eqt")]
    without = [(k, ops) for k, ops in scen if k.startswith("eqt")]
    lines = [l for _, ops in with_model for l in ops]
    lines2 = [l for _, ops in without for l in ops]
    import subprocess
    try:
        rc, impl, err = core.run_impl(binary, lines, timeout=RUN_TIMEOUT[r.tier]) if lines else (0, [], "")
        rc2, impl2, err2 = core.run_impl(binary, lines2, timeout=RUN_TIMEOUT[r.tier]) if lines2 else (0, [], "")
    except subprocess.TimeoutExpired:
        r.violation({"kind": "obligation-broken", "no_longer_checks": ["the op-sequence harness did not terminate on the provider scenarios (an operation of the real code loops)"]}, no_input=True)
        return
    model = (core.run_model(lines) if lines else []) if model_ok else None
    if len(impl) != len(lines) or len(impl2) != len(lines2) or (model is not None and len(model) != len(lines)):
        r.violation({"kind": "obligation-broken", "no_longer_checks": [f"harness/model output length impl={len(impl)}+{len(impl2)} model={None if model is None else len(model)} ops={len(lines)}+{len(lines2)}"], "stderr": (err + err2)[-800:]}, no_input=True)
        return
    hist = r.cov.setdefault("tie_c_scenarios", {})
    kc = r.cov.setdefault("known_finding_cases", {})
    pos = 0
    for kind, ops in with_model:
        n = len(ops)
        io, mo = impl[pos:pos + n], (model[pos:pos + n] if model is not None else None)
        pos += n
        hist[kind] = hist.get(kind, 0) + 1
        d.case("\n".join(ops), "\n".join(io), None if mo is None else "\n".join(mo),
               lambda _l, outs, ops=ops: bin_oracle(ops, outs.split("\n")),
               nontrivial=sum(1 for o in ops if " ins " in o) >= 2 and any(" merge" in o for o in ops))
        if hist[kind] == 1: r.sample({"kind": kind, "ops": ops, "impl": io})
    pos = 0
    for kind, ops in without:
        n = len(ops)
        io = impl2[pos:pos + n]
        pos += n
        hist[kind] = hist.get(kind, 0) + 1
        def kn(_l, i, m, ops=ops, kind=kind):
            res = ter_known(ops, i.split("\n"))
            if res:
                key = f"{res[0]}:{kind}"; kc[key] = kc.get(key, 0) + 1
            return res
        d.case("\n".join(ops), "\n".join(io), None, lambda _l, outs, ops=ops: ter_oracle(ops, outs.split("\n")), nontrivial=True, known=kn)
        if hist[kind] == 1: r.sample({"kind": kind, "ops": ops, "impl": io})
    r.cov["tie_c_op_lines"] = len(lines) + len(lines2)



def check(tier, replay=None):
    r = core.Report("C10", tier)
    rng = core.SplitMix(core.seed()).fork("C10")
    mods = ["AscentVerif.Props.C10"]
    if os.environ.get("VERIF_DEV_SKIP_PROOF"):
        proof = core.ProofResult(); core.run(["lake", "build", "driver"], cwd=core.LEAN)
    else:
        proof = core.lean_prove(mods, leanchecker=(tier == "thorough"))
        core.require_theorems(proof, THEOREMS)
    r.proof(proof, "lake build " + " ".join(mods) + " && #audit_module (axioms of every theorem)" + (" && lake env leanchecker" if tier == "thorough" else ""))
    model_ok = proof.ok or os.path.exists(core.lean_driver())
    d = tiec.Decision(r)
    import time
    t0 = time.time()
    if replay:
        text = json.load(open(replay))["input"]
        if text.startswith("eng prog"): run_group(r, d, replay_group(text), model_ok, {})
        else:
            ops = [l for l in text.split("\n") if l]
            tie_c(r, d, rng, tier, model_ok, only=[(ops[0].split()[0] + "-replay", ops)])
        d.conclude(proof, "replayed input")
        return r.finish(TRUSTED)
    tie_b(r, d, rng, tier if proof.ok else "thorough", model_ok)
    t1 = time.time()
    tie_c(r, d, rng, tier if proof.ok else "thorough", model_ok)
    r.cov["phase_wall_s"] = {"proof": round(proof.wall, 1), "tie_b": round(t1 - t0, 1), "tie_c": round(time.time() - t1, 1)}
    d.conclude(proof, "compiled programs with an eqrel-tagged relation vs their explicit-closure twins")
    return r.finish(TRUSTED)
