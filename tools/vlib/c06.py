"""C06 — results are invariant under reordering and consistent renaming."""
import copy
from . import core, eng, gen, engcheck

THEOREMS = ["derivable_perm_rules", "derivable_perm_heads", "derivable_input_ext", "inputDB_perm", "run_perm_invariant", "derivable_rename_rels", "derivable_rename_consts", "derivable_rename_vars", "sat_swap_indep", "derivable_swap_indep", "runPhys_perm_invariant", "runPhysPar_perm_invariant", "runPhys_perm_heads_invariant", "runPhysPar_perm_heads_invariant", "runPhys_rename_rels", "runPhysPar_rename_rels", "derivable_rulesEquiv"]
TRUSTED = ["Props/C06Phys.lean: the invariance statements over the PHYSICAL engines (generated code of ascent! and of ascent_par!, any schedules / pools): two runs whose programs differ by a permutation of the rules, by permuted "
           "heads inside rules, or by an injective renaming of the relations, from start values holding permuted row vectors, under any two valid SCC orders, compute the same facts (runPhys_perm_invariant, "
           "runPhysPar_perm_invariant, .._perm_heads_invariant, .._rename_rels)",
           "Lean 4.33.0 kernel", "axioms: propext, Classical.choice, Quot.sound only (audited per theorem)",
           "statement: Props/C06.lean (least model invariant under permutation of rules / heads / input rows / independent body items, "
           "transferred to the engine by run_eq_leastModel)",
           "metamorphic tie: each base program is compiled in several variants (shuffled rules, declarations, heads, independent body items, "
           "input vectors; renamed variables and relations incl. names ending in `_`; column type i64 -> i32 -> String through an injective "
           "constant map for function-free programs); all must equal the base's naive least model (mapped)",
           "identifiers reserved by the generated code (two leading underscores, `_self`, struct members) are exempt; `x_`-style capture is finding F10"]


def item_vars(it):
    """(bound-or-used variable set, set of variables that may be newly bound)"""
    k = it[0]
    if k == "cl":
        vs, new = set(), set()
        for a in it[2]:
            if a[0] == "v": vs.add(a[1]); new.add(a[1])
            else: vs |= gen.vars_of(a[1])
        for c in it[3]:
            v2, n2 = item_vars(c); vs |= v2; new |= n2
        return vs, new
    if k == "if": return bx_vars(it[1]), set()
    if k in ("let", "iflet"): return gen.vars_of(it[2]) | {it[1]}, {it[1]}
    if k == "for":
        g = it[2]
        vs = (gen.vars_of(g[1]) | gen.vars_of(g[2])) if g[0] == "range" else set().union(*[gen.vars_of(x) for x in g[1]])
        return vs | {it[1]}, {it[1]}
    return set(), set()


def bx_vars(b):
    if b == "tt": return set()
    if b[0] in ("and", "or"): return bx_vars(b[1]) | bx_vars(b[2])
    if b[0] == "not": return bx_vars(b[1])
    return gen.vars_of(b[1]) | gen.vars_of(b[2])


def swap_independent(rng, body):
    body = list(body)
    bound = set()
    for i in range(len(body) - 1):
        a, b = body[i], body[i + 1]
        va, na = item_vars(a); vb, nb = item_vars(b)
        na, nb = na - bound, nb - bound
        if not (na & vb) and not (nb & va) and rng.chance(1, 2):
            body[i], body[i + 1] = b, a
            bound |= nb
        else:
            bound |= na
    return body


def has_repeat_join(p):
    """some rule's second clause repeats a variable (order-sensitive plans: simple join vs not)"""
    for ru in p["rules"]:
        cls = [it for it in ru["body"] if it[0] == "cl"]
        if len(cls) >= 2 and ru["body"][:2] == cls[:2]:
            vs = [a[1] for a in cls[1][2] if a[0] == "v"]
            if len(vs) != len(set(vs)): return True
    return False


def function_free(p):
    def ok_ex(e): return isinstance(e, int) or (isinstance(e, tuple) and e[0] == "var")
    for ru in p["rules"]:
        for h, hargs in ru["heads"]:
            if not all(ok_ex(e) for e in hargs): return False
        for it in ru["body"]:
            if it[0] == "cl":
                if any(a[0] == "e" and not ok_ex(a[1]) for a in it[2]) or it[3]: return False
            elif it[0] == "if":
                if it[1][0] not in ("eq", "ne") or not ok_ex(it[1][1]) or not ok_ex(it[1][2]): return False
            else: return False
    return True


def gen_ff_program(rng):
    """function-free: variables and constants only, (in)equality tests"""
    p = gen.gen_program(rng, {"conds": False, "pre_items": False, "mid_items": False})
    for ru in p["rules"]:
        ru["body"] = [it for it in ru["body"] if it[0] == "cl"]
        bound = set()
        for it in ru["body"]:
            for a in it[2]:
                if a[0] == "v": bound.add(a[1])
        ru["body"] = [("cl", it[1], [a if a[0] == "v" or isinstance(a[1], int) else ("e", 1) for a in it[2]], []) for it in ru["body"]]
        bl = sorted(bound)
        ru["heads"] = [(h, [e if (isinstance(e, int) or (e[0] == "var" and e[1] in bound)) else (("var", bl[0]) if bl else 0) for e in hargs]) for h, hargs in ru["heads"]]
        if bl and rng.chance(1, 2): ru["body"].append(("if", (rng.choice(["eq", "ne"]), ("var", rng.choice(bl)), rng.range(0, 3))))
    return p


NAMESETS = [
    eng.Names(var=lambda n: f"x{n}_", rel=lambda r: f"rel{r}_"),
    eng.Names(var=lambda n: ["a", "b", "c", "d", "e", "f", "g", "h", "k", "m", "n", "p", "q", "s", "t", "u", "w", "y", "z", "aa", "bb", "cc", "dd"][n % 23] + ("" if n < 23 else str(n)), rel=lambda r: ["edge", "path", "node", "foo", "bar", "baz", "qux", "out", "tmp", "res"][r % 10] + ("" if r < 10 else str(r))),
    eng.Names(var=lambda n: f"_v{n}", rel=lambda r: f"R{r}"),
]


def variant_modules(rng, pid, p, tier):
    """[(vid, module text, kind, value map)]"""
    out = [(pid, eng.rs_module(pid, p), "base", None)]
    n = len(p["rules"])
    for k in range(2 if tier == "quick" else 5):
        r2 = rng.fork(f"{pid}perm{k}")
        q = copy.deepcopy(p)
        for ru in q["rules"]:
            ru["body"] = swap_independent(r2, ru["body"])
            ru["heads"] = r2.shuffle(ru["heads"])
        vid = f"{pid}_perm{k}"
        out.append((vid, eng.rs_module(vid, q, rule_order=r2.shuffle(list(range(n))), decl_order=r2.shuffle(list(range(len(p["rels"]))))), "perm", None))
    for k, nm in enumerate(NAMESETS[: 2 if tier == "quick" else 3]):
        vid = f"{pid}_ren{k}"
        out.append((vid, eng.rs_module(vid, p, nm=nm), "rename", None))
    if function_free(p):
        vid = f"{pid}_i32"
        m32 = lambda n: n * 7 + 100000
        out.append((vid, eng.rs_module(vid, p, nm=eng.Names(ity="i32", const=lambda n: str(m32(n)))), "retype-i32", m32))
        vid = f"{pid}_str"
        ms = lambda n: f"s{n}"
        out.append((vid, eng.rs_module(vid, p, nm=eng.Names(ity="String", const=lambda n: f'"{ms(n)}".to_string()')), "retype-String", ms))
        # the same renamings under ascent_par! (hash-sharded concurrent indices: which shard a constant lands in must not matter)
        for k, mk in enumerate([lambda n: n * 7 + 100000, lambda n: n * 1000 + 3, lambda n: 5 - n][: 2 if tier == "quick" else 3]):
            vid = f"{pid}_pari{k}"
            out.append((vid, eng.rs_module(vid, p, nm=eng.Names(const=lambda n, mk=mk: str(mk(n))), macro="ascent_par"), "par-rename-consts", mk))
    vid = f"{pid}_par"
    out.append((vid, eng.rs_module(vid, p, macro="ascent_par"), "par", None))
    return out


def build(rng, tier):
    nb = 5 if tier == "quick" else 25
    bases = engcheck.make_programs(rng.fork("c06"), nb) + engcheck.make_programs(rng.fork("c06ff"), nb, genf=gen_ff_program, filt=function_free) \
        + engcheck.make_programs(rng.fork("c06rj"), 3 if tier == "quick" else 12, filt=has_repeat_join)
    progs, mods, cases = {}, [], []
    for i, p in enumerate(bases):
        pid = f"m{i}"
        vs = variant_modules(rng, pid, p, tier)
        for vid, text, kind, vmap in vs:
            progs[vid] = p      # the model always runs the base AST; variants differ only in the Rust text
            mods.append((vid, text))
        for j in range((12 if has_repeat_join(p) else 4) if tier == "quick" else 16):
            r2 = rng.fork(f"{pid}i{j}")
            inp = gen.gen_input(r2, p, max_rows=8)
            spec = engcheck.spec_sets(p, inp)
            for vid, text, kind, vmap in vs:
                inp_v = {r: r2.shuffle(rows) for r, rows in inp.items()} if kind == "perm" else inp
                mp = (lambda t: tuple(vmap(x) for x in t)) if vmap else (lambda t: t)
                inst = f"{vid}_{j}"
                ops = [f"eng new {inst} {vid}" + (f" par {r2.choice([2, 4, 8])}" if kind.startswith("par") else "")] + [f"eng load {inst} r{r}" + "".join(" " + eng.sx_tuple(mp(t)) for t in rows) for r, rows in sorted(inp_v.items())] + [f"eng run {inst}", f"eng dump {inst}"]
                exp = {r: {eng.sx_tuple(mp(t)) for t in eng.naive_model(p, inp).get(r, ())} for r in range(len(p["rels"]))}
                cases.append(engcheck.Case(vid, inst, ops, {"inp": inp, "kind": kind, "expected": exp, "mapped": vmap is not None}))
    # a lattice program (whole sets flowing along the edges of a cyclic graph) under permutations of the rules and of the input vectors: which
    # derivation reaches a key first - hence whether a stored set is later raised by a strict superset - depends on the order of the rows
    lp = {"rels": [{"arity": 2}, {"arity": 2, "lat": "set"}, {"arity": 2, "lat": "set"}],
          "rules": [{"heads": [(1, [("var", 1), ("single", ("var", 0))])], "body": [("cl", 0, [("v", 0), ("v", 1)], [])]},
                    {"heads": [(1, [("var", 2), ("var", 3)])], "body": [("cl", 1, [("v", 1), ("v", 3)], []), ("cl", 0, [("v", 1), ("v", 2)], [])]},
                    {"heads": [(2, [("var", 0), ("var", 1)])], "body": [("cl", 1, [("v", 0), ("v", 1)], [])]}]}
    lvs = [("ml", eng.rs_module("ml", lp), "base")]
    for k in range(2 if tier == "quick" else 4):
        r2 = rng.fork(f"mlperm{k}")
        lvs.append((f"ml_perm{k}", eng.rs_module(f"ml_perm{k}", lp, rule_order=r2.shuffle([0, 1, 2]), decl_order=r2.shuffle([0, 1, 2])), "perm"))
    for vid, text, kind in lvs:
        progs[vid] = lp; mods.append((vid, text))
    graphs = [[(1, 2), (2, 3), (3, 2), (3, 4), (4, 5), (6, 2)]]
    for j in range(2 if tier == "quick" else 8):
        r2 = rng.fork(f"mlg{j}")
        n = r2.range(4, 6)
        graphs.append(list(dict.fromkeys((r2.below(n), r2.below(n)) for _ in range(r2.range(5, 8)))))
    for gi, g in enumerate(graphs):
        inp = {0: g, 1: [], 2: []}
        exp = {r: {eng.sx_tuple(t) for t in eng.naive_model(lp, inp).get(r, ())} for r in range(3)}
        for k in range(10 if tier == "quick" else 40):
            r2 = rng.fork(f"mlg{gi}s{k}")
            vid, text, kind = lvs[k % len(lvs)]
            rows = r2.shuffle(g) if k else g
            inst = f"{vid}_{gi}_{k}"
            ops = [f"eng new {inst} {vid}", f"eng load {inst} r0" + "".join(" " + eng.sx_tuple(t) for t in rows), f"eng run {inst}", f"eng dump {inst}"]
            cases.append(engcheck.Case(vid, inst, ops, {"inp": {0: rows, 1: [], 2: []}, "kind": "lattice-" + kind + "-shuffled-input", "expected": exp, "mapped": False}))
    # mutually independent body items of the SURFACE language: a macro invocation inside a disjunction and a second invocation of a macro with a private variable of the
    # same spelling, in both textual orders -  out(x, y) <-- (m!(x) | g(x)), m!(y)   vs   out(x, y) <-- m!(y), (m!(x) | g(x))  - on inputs in which the two invocations
    # need different witnesses for the private variable.  Model side: the documented expansion (tools/vlib/surface.py expand_spec), which does not depend on the order
    from . import surface as S
    for k in range(3 if tier == "quick" else 9):
        mac = lambda: {"params": ["ident"], "body": [("cl", 0, [("v", ("p", 0)), ("v", 7)], []), ("cl", 1, [("v", 7)], [])]}
        macros = [mac()] + ([mac()] if k % 3 == 1 else [])
        m2 = len(macros) - 1
        inv_x = ("or", [[("mac", 0, [("id", 0)])], [("cl", 2, [("v", 0)], [])]])
        inv_y = ("mac", m2, [("id", 1)]) if k % 3 != 2 else ("or", [[("cl", 2, [("v", 1)], [("if", ("lt", ("var", 1), 0))])], [("mac", m2, [("id", 1)])]])
        rels = [{"arity": 2}, {"arity": 1}, {"arity": 1}, {"arity": 2}]
        base = None
        for vi, body in enumerate(([inv_x, inv_y], [inv_y, inv_x])):
            sp = {"rels": rels, "macros": macros, "rules": [{"heads": [(3, [("var", 0), ("var", 1)])], "body": body}]}
            q = S.expand_spec(sp)
            if base is None: base = q
            vid = f"md{k}_{vi}"
            progs[vid] = q; mods.append((vid, S.rs_module(vid, sp)))
        for j in range(4 if tier == "quick" else 12):
            r2 = rng.fork(f"md{k}i{j}")
            e = list(dict.fromkeys([(1, 10), (2, 20)] + [(r2.below(4), 10 + r2.below(4)) for _ in range(r2.below(4))])) if j % 2 == 0 else \
                list(dict.fromkeys((r2.below(4), 10 + r2.below(4)) for _ in range(r2.range(2, 5))))
            inp = {0: r2.shuffle(e), 1: [(w,) for w in sorted({w for _, w in e}) if r2.chance(3, 4)], 2: [(r2.below(5),) for _ in range(r2.below(2))], 3: []}
            exp = {r: {eng.sx_tuple(t) for t in eng.naive_model(base, inp).get(r, ())} for r in range(4)}
            for vi in range(2):
                vid = f"md{k}_{vi}"; inst = f"{vid}_{j}"
                cases.append(engcheck.Case(vid, inst, engcheck.std_history(inst, vid, inp), {"inp": inp, "kind": "macro-disjunction-" + ("base" if vi == 0 else "body-items-swapped"), "expected": exp, "mapped": False}))
    return progs, mods, cases


def oracle(c, p, out):
    return engcheck.check_sets(p, out[-1], c.meta["expected"])


def canon(c, out):
    # retyped variants carry mapped constants; the model ran the base program on mapped inputs only when no constants are
    # involved, so for mapped variants the model comparison is restricted to op status lines
    if c.meta["mapped"]: return ["<retyped variant: judged by the oracle only>" for l in out]
    return out


def check(tier, replay=None):
    return engcheck.run_property("C06", tier, modules=["AscentVerif.Props.C06", "AscentVerif.Props.C06Phys"], theorems=THEOREMS, trusted=TRUSTED, group="c06",
                                 build=build, oracle=oracle, canon=canon, what="metamorphic variants of compiled programs",
                                 rule="base programs (general and function-free) x variants {rule / declaration / head-clause / independent-body-item permutations with "
                                      "shuffled input vectors; variable and relation renamings incl. trailing-underscore names; i64 -> i32 and i64 -> String through an "
                                      "injective constant map; the same programs and constant renamings under ascent_par! in pools of 2-8 threads} x inputs; a Set-valued data-flow lattice program on cyclic graphs under rule permutations and many shuffles of the input vector; every variant's relations must equal the base's naive least model (mapped through the constant map)")
