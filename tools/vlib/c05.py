"""C05 — relations are sets: a tuple is inserted exactly once, inputs are never lost."""
from . import core, eng, gen, engcheck

TRUSTED = ["Lean 4.33.0 kernel", "axioms: propext, Classical.choice, Quot.sound only (audited per theorem)",
           "statement: Props/C05.lean (run_rows_set from the engine invariants; exactly-one-winner from C19's race theorem)",
           "model Model/Engine.lean tied by compiled generated programs (row multiplicities are part of every dump), serial and ascent_par",
           "partial for the parallel half: one shard-locked insert_if_not_present is one atomic step (assumption of the protocol theorem); "
           "real interleavings are exercised by multi-threaded runs with many workers deriving the same tuples, not proved"]
THEOREMS = ["rows_set", "inputs_kept", "par_exactly_one_push", "at_most_one_row", "no_stuck", "step_decreases", "final_row_dominates", "final_row_least"]


def build(rng, tier):
    n = 16 if tier == "quick" else 80
    plist = engcheck.make_programs(rng.fork("c05"), n)
    progs, mods, cases = {}, [], []
    for i, p in enumerate(plist):
        for par in (False, True):
            pid = f"{'q' if par else 's'}{i}"
            progs[pid] = p
            mods.append((pid, eng.rs_module(pid, p, macro="ascent_par" if par else "ascent")))
            for j in range(6 if tier == "quick" else 30):
                r2 = rng.fork(f"{pid}i{j}")
                inp = gen.gen_input(r2, p)
                if j % 3 == 1:      # inputs that already contain derivable tuples
                    db = eng.naive_model(p, inp)
                    for rel in range(len(p["rels"])):
                        extra = sorted(db[rel])[: r2.range(0, 3)]
                        inp[rel] = list(inp.get(rel, [])) + [tuple(t) for t in extra]
                inst = f"{pid}_{j}"
                cases.append(engcheck.Case(pid, inst, engcheck.std_history(inst, pid, inp) if not par else
                                           [f"eng new {inst} {pid} par"] + engcheck.std_history(inst, pid, inp)[1:], {"inp": inp, "kind": "par" if par else "serial"}))
    # many workers deriving the same not-yet-present tuples at the same time (the insert-if-absent race)
    stress = {"rels": [{"arity": 1}, {"arity": 1}, {"arity": 2}],
              "rules": [{"heads": [(1, [("var", 1)])], "body": [("cl", 0, [("v", 0)], []), ("for", 1, ("range", 0, 400))]},
                        {"heads": [(2, [("var", 0), ("var", 1)])], "body": [("cl", 0, [("v", 0)], []), ("cl", 0, [("v", 1)], []), ("if", ("lt", ("var", 0), 3))]}]}
    progs["stress"] = stress
    mods.append(("stress", eng.rs_module("stress", stress, macro="ascent_par")))
    for j in range(6 if tier == "quick" else 60):
        inst = f"stress_{j}"
        inp = {0: [(k,) for k in range(16)]}
        cases.append(engcheck.Case("stress", inst, [f"eng new {inst} stress par"] + engcheck.std_history(inst, "stress", inp)[1:], {"inp": inp, "kind": "par-stress"}))
    return progs, mods, cases


def oracle(c, p, out):
    dump = out[-1]
    if not dump.startswith("r0:"): return f"run/dump failed: {dump}"
    _, mult = engcheck.dump_sets(dump)
    for rel in range(len(p["rels"])):
        inp_m = {}
        for t in c.meta["inp"].get(rel, []):
            k = eng.sx_tuple(t); inp_m[k] = inp_m.get(k, 0) + 1
        got = mult.get(rel, {})
        for t, m in inp_m.items():
            if got.get(t, 0) != m: return f"input tuple {t} of r{rel} occurs {got.get(t, 0)} times after run() (caller put it in {m} times)"
        for t, m in got.items():
            if t not in inp_m and m != 1: return f"derived tuple {t} of r{rel} was inserted {m} times"
    return None


def check(tier, replay=None):
    return engcheck.run_property("C05", tier, modules=["AscentVerif.Props.C05", "AscentVerif.Props.C05Par"], theorems=THEOREMS, trusted=TRUSTED, group="c05",
                                 build=build, oracle=oracle, what="row multiplicities of compiled programs",
                                 rule="generated programs (serial ascent! and ascent_par! twins) x inputs incl. duplicate rows and rows that are themselves "
                                      "derivable; after run() every input tuple must occur exactly as often as the caller inserted it and every other tuple once; "
                                      "non-trivial = all cases (diamond / symmetric rules derive tuples repeatedly)")
