"""C05 — relations are sets: a tuple is inserted exactly once, inputs are never lost."""
from . import core, eng, gen, engcheck

TRUSTED = ["Lean 4.33.0 kernel", "axioms: propext, Classical.choice, Quot.sound only (audited per theorem)",
           "statement: Props/C05.lean (run_rows_set from the engine invariants; exactly-one-winner from C19's race theorem)",
           "model Model/Engine.lean tied by compiled generated programs (row multiplicities are part of every dump), serial and ascent_par",
           "partial for the parallel half: one shard-locked insert_if_not_present is one atomic step (assumption of the protocol theorem); "
           "real interleavings are exercised by multi-threaded runs with many workers deriving the same tuples, not proved"]
THEOREMS = ["rows_set", "inputs_kept", "par_exactly_one_push", "at_most_one_row", "no_stuck", "step_decreases", "final_row_dominates", "final_row_least"]


def build(rng, tier):
    n = 16 if tier == "quick" else 80
    plist = engcheck.make_programs(rng.fork("c05"), n)
    progs, mods, cases = {}, [], []
    for i, p in enumerate(plist):
        for par in (False, True):
            pid = f"{'q' if par else 's'}{i}"
            progs[pid] = p
            mods.append((pid, eng.rs_module(pid, p, macro="ascent_par" if par else "ascent")))
            for j in range(6 if tier == "quick" else 30):
                r2 = rng.fork(f"{pid}i{j}")
                inp = gen.gen_input(r2, p)
                if j % 3 == 1:      # inputs that already contain derivable tuples
                    db = eng.naive_model(p, inp)
                    for rel in range(len(p["rels"])):
                        extra = sorted(db[rel])[: r2.range(0, 3)]
                        inp[rel] = list(inp.get(rel, [])) + [tuple(t) for t in extra]
                inst = f"{pid}_{j}"
                cases.append(engcheck.Case(pid, inst, engcheck.std_history(inst, pid, inp) if not par else
                                           [f"eng new {inst} {pid} par"] + engcheck.std_history(inst, pid, inp)[1:], {"inp": inp, "kind": "par" if par else "serial"}))
    # wide (arity 6-8) and nullary relations and facts (gen.forced_programs), serial and parallel, on inputs that already contain derivable rows: a nullary relation holds at most
    # ONE row (the unit tuple) however many bindings derive it, a fact that is also an input row is not appended again
    for pid0, q in gen.forced_programs().items():
        for par in (False, True):
            pid = pid0 + ("q" if par else "s")
            progs[pid] = q
            mods.append((pid, eng.rs_module(pid, q, macro="ascent_par" if par else "ascent")))
            for j in range(4 if tier == "quick" else 12):
                r2 = rng.fork(f"{pid}i{j}")
                inp = gen.forced_input(pid0, r2, j)
                if j % 2 == 1:
                    db = eng.naive_model(q, inp)
                    for rel in range(len(q["rels"])):
                        have = set(inp.get(rel, []))
                        inp[rel] = list(inp.get(rel, [])) + [tuple(t) for t in sorted(db[rel]) if tuple(t) not in have][: r2.range(0, 2)]
                inst = f"{pid}_{j}"
                cases.append(engcheck.Case(pid, inst, ([f"eng new {inst} {pid} par"] if par else [f"eng new {inst} {pid}"]) + engcheck.std_history(inst, pid, inp)[1:], {"inp": inp, "kind": ("par" if par else "serial") + "-forced-" + pid0}))
    # forced shape "write-only head": a recursive multi-head rule one of whose head relations nothing in its stratum reads, re-derived by a LATER stratum:
    #   reach(y), seen(y) <-- reach(x), edge(x, y);   probe(x) <-- reach(x);   seen(x) <-- probe(x)
    # with inputs in which the last productive iteration of the recursive stratum adds rows of `seen` only (reach(y) is already an input fact): every row must have
    # reached the indices when the stratum ends, or the later derivation appends it again
    wo = {"rels": [{"arity": 2}, {"arity": 1}, {"arity": 1}, {"arity": 1}],
          "rules": [{"heads": [(1, [("var", 1)]), (2, [("var", 1)])], "body": [("cl", 1, [("v", 0)], []), ("cl", 0, [("v", 0), ("v", 1)], [])]},
                    {"heads": [(3, [("var", 0)])], "body": [("cl", 1, [("v", 0)], [])]},
                    {"heads": [(2, [("var", 0)])], "body": [("cl", 3, [("v", 0)], [])]}]}
    for par in (False, True):
        pid = "wop" if par else "wos"
        progs[pid] = wo
        mods.append((pid, eng.rs_module(pid, wo, macro="ascent_par" if par else "ascent")))
        for j in range(6 if tier == "quick" else 30):
            r2 = rng.fork(f"{pid}{j}")
            n = r2.range(3, 6)
            edges = [(i, i + 1) for i in range(n)] + [(r2.below(n), r2.below(n + 1)) for _ in range(r2.below(3))]
            reach = [(0,)] + [(x,) for x in range(1, n + 1) if r2.chance(1, 2)] + [(n,)]
            inp = {0: list(dict.fromkeys(r2.shuffle(edges))), 1: list(dict.fromkeys(reach))}
            inst = f"{pid}_{j}"
            cases.append(engcheck.Case(pid, inst, ([f"eng new {inst} {pid} par"] if par else [f"eng new {inst} {pid}"]) + engcheck.std_history(inst, pid, inp)[1:], {"inp": inp, "kind": "write-only-head" + ("-par" if par else "")}))
    # relations with initialisers (`relation r(..) = vec![..]`) into which the caller PUSHES further rows before the first run(), some of them derivable by the
    # rules: every row - initial or pushed - must be in the indices when the rules run, so that no derivation appends it again
    from . import c09
    for i, p in enumerate(plist[: (4 if tier == "quick" else 16)]):
        r5 = rng.fork(f"init{i}")
        base = gen.nodup_input(r5, p, max_rows=5)
        pid = f"ini{i}"
        progs[pid] = p
        mods.append((pid, c09.module_init(pid, p, base)))
        db = eng.naive_model(p, base)
        for j in range(3 if tier == "quick" else 8):
            r6 = r5.fork(f"j{j}")
            pushed = gen.nodup_input(r6, p, max_rows=3)
            for rel in range(len(p["rels"])):
                der = [tuple(t) for t in sorted(db.get(rel, ())) if tuple(t) not in base.get(rel, [])][: r6.range(0, 3)]
                pushed[rel] = [t for t in dict.fromkeys(list(pushed.get(rel, [])) + der) if t not in base.get(rel, [])]
            union = {rel: list(base.get(rel, [])) + list(pushed.get(rel, [])) for rel in range(len(p["rels"]))}
            inst = f"{pid}_{j}"
            ops = [f"eng new {inst} {pid}"]
            for rel, rows in pushed.items():
                if rows: ops.append(f"eng push {inst} r{rel}" + "".join(" " + eng.sx_tuple(t) for t in rows))
            ops += [f"eng run {inst}", f"eng dump {inst}"]
            cases.append(engcheck.Case(pid, inst, ops, {"inp": union, "kind": "initialised+pushed", "no_model": True}))
    # many workers deriving the same not-yet-present tuples at the same time (the insert-if-absent race)
    stress = {"rels": [{"arity": 1}, {"arity": 1}, {"arity": 2}],
              "rules": [{"heads": [(1, [("var", 1)])], "body": [("cl", 0, [("v", 0)], []), ("for", 1, ("range", 0, 400))]},
                        {"heads": [(2, [("var", 0), ("var", 1)])], "body": [("cl", 0, [("v", 0)], []), ("cl", 0, [("v", 1)], []), ("if", ("lt", ("var", 0), 3))]}]}
    progs["stress"] = stress
    mods.append(("stress", eng.rs_module("stress", stress, macro="ascent_par")))
    for j in range(6 if tier == "quick" else 60):
        inst = f"stress_{j}"
        inp = {0: [(k,) for k in range(16)]}
        cases.append(engcheck.Case("stress", inst, [f"eng new {inst} stress par"] + engcheck.std_history(inst, "stress", inp)[1:], {"inp": inp, "kind": "par-stress"}))
    # many workers deriving the same not-yet-present LATTICE key at the same time (the row of a key is created under the per-key mutex after
    # an unlocked look-up: a worker that waited for the mutex must find the row the winner created), under seeded perturbation of the
    # concurrent index inserts; first iteration (fresh keys from inputs) and later iterations (fresh keys derived from the lattice itself)
    for kind in ("max", "min"):
        sl = {"rels": [{"arity": 2}, {"arity": 2, "lat": kind}, {"arity": 2, "lat": kind}],
              "rules": [{"heads": [(1, [("var", 0), ("var", 1)])], "body": [("cl", 0, [("v", 0), ("v", 1)], [])]},
                        {"heads": [(2, [("add", ("var", 0), 100), ("var", 1)])], "body": [("cl", 1, [("v", 0), ("v", 1)], []), ("cl", 0, [("v", 0), ("v", 2)], [])]}]}
        pid = f"stresslat_{kind}"
        progs[pid] = sl
        mods.append((pid, eng.rs_module(pid, sl, macro="ascent_par")))
        for j in range(8 if tier == "quick" else 80):
            inst = f"{pid}_{j}"
            r2 = rng.fork(inst)
            inp = {0: [(k, y) for y in range(60) for k in range(4)]}
            t = r2.choice([4, 8, 16])
            ops = [f"eng perturb {1 + r2.below(10 ** 9)}", f"eng new {inst} {pid} par {t}"] + engcheck.load_ops(inst, inp) + [f"eng run {inst}", f"eng dump {inst}", "eng perturb 0"]
            cases.append(engcheck.Case(pid, inst, ops, {"inp": inp, "kind": "par-lattice-stress", "dump_at": -2}))
    # the same with MANY fresh keys (slot-major input: the workers derive the same keys at about the same time while other workers insert
    # different keys into the same DashMap shard - a re-check that gives up on a locked shard instead of waiting would create a second row)
    sl = {"rels": [{"arity": 2}, {"arity": 2, "lat": "min"}],
          "rules": [{"heads": [(1, [("var", 0), ("var", 1)])], "body": [("cl", 0, [("v", 0), ("v", 1)], [])]}]}
    progs["stresslat_many"] = sl
    mods.append(("stresslat_many", eng.rs_module("stresslat_many", sl, macro="ascent_par")))
    for j in range(6 if tier == "quick" else 40):
        inst = f"stresslat_many_{j}"
        r2 = rng.fork(inst)
        nk = 4000
        inp = {0: [(k, y) for y in range(12) for k in range(nk)]}
        ops = [f"eng new {inst} stresslat_many par {r2.choice([8, 16])}"] + engcheck.load_ops(inst, inp) + [f"eng run {inst}", f"eng dump {inst}"]
        cases.append(engcheck.Case("stresslat_many", inst, ops, {"inp": inp, "kind": "par-lattice-stress-many-keys", "no_model": True}))
    return progs, mods, cases


def canon(c, out):
    if c.meta.get("no_model"): return ["<too large for the executable model: judged by the oracle>" for _ in out]
    return out


def oracle(c, p, out):
    dump = out[c.meta.get("dump_at", -1)]
    if not dump.startswith("r0:"): return f"run/dump failed: {dump}"
    _, mult = engcheck.dump_sets(dump)
    for rel in range(len(p["rels"])):
        if p["rels"][rel].get("lat"):
            # one row per key (beyond duplicate keys the caller put in)
            per_key, inp_keys = {}, {}
            for t, m in mult.get(rel, {}).items():
                k = eng.split_key(t); per_key[k] = per_key.get(k, 0) + m
            for t in c.meta["inp"].get(rel, []):
                k = eng.split_key(eng.sx_tuple(t)); inp_keys[k] = inp_keys.get(k, 0) + 1
            for k, m in per_key.items():
                if m != max(1, inp_keys.get(k, 0)): return f"lattice r{rel} holds {m} rows for key ({k})"
            continue
        inp_m = {}
        for t in c.meta["inp"].get(rel, []):
            k = eng.sx_tuple(t); inp_m[k] = inp_m.get(k, 0) + 1
        got = mult.get(rel, {})
        for t, m in inp_m.items():
            if got.get(t, 0) != m: return f"input tuple {t} of r{rel} occurs {got.get(t, 0)} times after run() (caller put it in {m} times)"
        for t, m in got.items():
            if t not in inp_m and m != 1: return f"derived tuple {t} of r{rel} was inserted {m} times"
    return None


def check(tier, replay=None):
    return engcheck.run_property("C05", tier, modules=["AscentVerif.Props.C05", "AscentVerif.Props.C05Par"], theorems=THEOREMS, trusted=TRUSTED, group="c05",
                                 build=build, oracle=oracle, canon=canon, what="row multiplicities of compiled programs",
                                 rule="generated programs (serial ascent! and ascent_par! twins) x inputs incl. duplicate rows and rows that are themselves "
                                      "derivable; after run() every input tuple must occur exactly as often as the caller inserted it and every other tuple once; "
                                      "non-trivial = all cases (diamond / symmetric rules derive tuples repeatedly); plus parallel stress programs: 16 seeds x 400 values deriving the same tuples, "
                                      "and 60 workers per fresh lattice key under seeded perturbation (exactly one row per lattice key)")
