"""Tie B core: the program AST shared by generator, Ascent printer, Lean s-expression printer and the
independent naive least-model oracle (the property-level spec for C01-C06, C09, C13, C14).

AST (plain Python):
  prog  = {"rels": [{"arity": n, "lat": None|"max"|"min"|"set"|"opt"}], "rules": [rule]}
  rule  = {"heads": [(rel, [ex])], "body": [item]}
  item  = ("cl", rel, [arg], [cond]) | ("if", bx) | ("let", v, ex) | ("iflet", v, ex) | ("for", v, gx)
        | ("agg", [outvar], fn, [boundvar], rel, [aarg])          fn in count|sum|min|max|not
  arg   = ("v", var) | ("e", ex)          aarg = "_" | ("b", var) | ("k", ex)
  ex    = int | "none" | ("var", n) | (op, a, b) op in add sub mul min max | ("somex", a) | ("single", a)
  bx    = "tt" | (op, a, b) op in lt le eq ne | ("and", p, q) | ("or", p, q) | ("not", p)
  gx    = ("range", a, b) | ("list", [ex])
Values: int | ("set", (sorted ints)) | "none" | ("some", v) | "unit"
"""
import itertools

# ------------------------------------------------------------------ s-expression printer (Lean driver input)

def sx_val(v):
    if isinstance(v, int): return str(v)
    if v in ("none", "unit"): return v
    if isinstance(v, str): return v
    if v[0] == "set": return "(set" + "".join(f" {x}" for x in v[1]) + ")"
    if v[0] == "some": return f"(some {sx_val(v[1])})"
    raise ValueError(v)

def sx_tuple(t): return "(" + " ".join(sx_val(v) for v in t) + ")"

def sx_ex(e):
    if isinstance(e, int): return str(e)
    if e == "none": return "none"
    if e[0] == "var": return f"(var {e[1]})"
    if e[0] in ("somex", "single"): return f"({e[0]} {sx_ex(e[1])})"
    return f"({e[0]} {sx_ex(e[1])} {sx_ex(e[2])})"

def sx_bx(b):
    if b == "tt": return "tt"
    if b[0] in ("and", "or"): return f"({b[0]} {sx_bx(b[1])} {sx_bx(b[2])})"
    if b[0] == "not": return f"(not {sx_bx(b[1])})"
    return f"({b[0]} {sx_ex(b[1])} {sx_ex(b[2])})"

def sx_gx(g):
    if g[0] == "range": return f"(range {sx_ex(g[1])} {sx_ex(g[2])})"
    return "(list" + "".join(" " + sx_ex(x) for x in g[1]) + ")"

def sx_cond(c):
    if c[0] == "if": return f"(if {sx_bx(c[1])})"
    if c[0] == "let": return f"(let {c[1]} {sx_ex(c[2])})"
    if c[0] == "iflet": return f"(iflet some {c[1]} {sx_ex(c[2])})"
    raise ValueError(c)

def sx_item(it):
    k = it[0]
    if k == "cl":
        args = " ".join(f"(v {a[1]})" if a[0] == "v" else f"(e {sx_ex(a[1])})" for a in it[2])
        return f"(cl {it[1]} ({args})" + "".join(" " + sx_cond(c) for c in it[3]) + ")"
    if k == "for": return f"(for {it[1]} {sx_gx(it[2])})"
    if k == "agg":
        aargs = " ".join("_" if a == "_" else (f"(b {a[1]})" if a[0] == "b" else f"(k {sx_ex(a[1])})") for a in it[5])
        return f"(agg ({' '.join(map(str, it[1]))}) {it[2]} ({' '.join(map(str, it[3]))}) {it[4]} ({aargs}))"
    return sx_cond(it)

def sx_prog(p):
    rels = " ".join(f"(rel {r['arity']})" if not r.get("lat") else f"(lat {r['arity']} {r['lat']})" for r in p["rels"])
    rules = " ".join("(rule (heads " + " ".join("(" + " ".join([str(h[0])] + [sx_ex(e) for e in h[1]]) + ")" for h in r["heads"])
                     + ") (body" + "".join(" " + sx_item(i) for i in r["body"]) + "))" for r in p["rules"])
    return f"(prog (rels {rels}) (rules {rules}))"

# ------------------------------------------------------------------ Ascent / Rust printer

LAT_TY = {"max": "i64", "min": "Dual<i64>", "set": "Set<i64>", "opt": "Option<i64>", "bset": "BoundedSet<3, i64>"}

class Names:
    """identifier and type choices (C06 renames them; results must not change)"""
    def __init__(self, var=lambda n: f"v{n}", rel=lambda r: f"r{r}", ity="i64", const=lambda n: str(n)):
        self.var, self.rel, self.ity, self.const = var, rel, ity, const
        self.nested_mul = False       # print `a * b` as `crate::common::nested_mul(a, b)`: the product computed by a NESTED program instance run with run() inside the rule
        self.at_patterns = False      # print `if let Some(v) = e` as `if let at_v @ Some(v) = e` (an `ident @ subpattern` binding whose identifier nobody reads)

def col_types(p, r, nm):
    d = p["rels"][r]
    tys = [nm.ity] * d["arity"]
    if d.get("lat"): tys[-1] = LAT_TY[d["lat"]]
    return tys

class Scope:
    def __init__(self): self.kind = {}   # var -> ("ref"|"val", type)   type in int|usize|max|min|set|opt
    def bind(self, v, kind, ty): self.kind.setdefault(v, (kind, ty))

def rs_ex(e, sc, nm, want="int"):
    """print an expression producing an integer (`want='int'`) or a lattice value of kind `want`"""
    if isinstance(e, int): return wrap_lat(nm.const(e), want)
    if e == "none": return "None"
    if e[0] == "var":
        kind, ty = sc.kind.get(e[1], ("val", "int"))
        name = nm.var(e[1])
        if ty == "usize": return wrap_lat(f"({name} as {nm.ity})", want)
        if ty in LAT_TY and ty not in ("max",):
            if want == ty: return f"{name}.clone()"
            if ty == "min": return wrap_lat(f"({name}.0)", want)       # int_of_lat for Dual
            return f"{name}.clone()"
        base = f"(*{name})" if kind == "ref" else name
        return wrap_lat(base if nm.ity != "String" else f"{name}.clone()", want)
    if e[0] == "somex": return f"Some({rs_ex(e[1], sc, nm)})"
    if e[0] == "single": return f"{'BoundedSet' if want == 'bset' else 'Set'}::singleton({rs_ex(e[1], sc, nm)})"
    a, b = rs_ex(e[1], sc, nm), rs_ex(e[2], sc, nm)
    op = {"add": "+", "sub": "-", "mul": "*"}.get(e[0])
    r = f"({a} {op} {b})" if op else f"std::cmp::{e[0]}({a}, {b})"
    if e[0] == "mul" and getattr(nm, "nested_mul", False) and nm.ity == "i64": r = f"crate::common::nested_mul({a}, {b})"
    return wrap_lat(r, want)

def wrap_lat(s, want):
    if want == "min": return f"Dual({s})"
    if want == "set": return f"Set::singleton({s})"
    if want == "bset": return f"BoundedSet::singleton({s})"
    if want == "opt": return f"Some({s})"
    return s

def rs_bx(b, sc, nm):
    if b == "tt": return "true"
    if b[0] in ("and", "or"): return f"({rs_bx(b[1], sc, nm)} {'&&' if b[0] == 'and' else '||'} {rs_bx(b[2], sc, nm)})"
    if b[0] == "not": return f"!({rs_bx(b[1], sc, nm)})"
    op = {"lt": "<", "le": "<=", "eq": "==", "ne": "!="}[b[0]]
    return f"({rs_ex(b[1], sc, nm)} {op} {rs_ex(b[2], sc, nm)})"

def rs_cond(c, sc, nm):
    if c[0] == "if": return f"if {rs_bx(c[1], sc, nm)}"
    if c[0] == "let":
        s = f"let {nm.var(c[1])} = {rs_ex(c[2], sc, nm)}"; sc.bind(c[1], "val", "int"); return s
    if c[0] == "iflet":
        at = f"at_{nm.var(c[1])} @ " if getattr(nm, "at_patterns", False) else ""
        s = f"if let {at}Some({nm.var(c[1])}) = {rs_ex(c[2], sc, nm) if c[2] != 'none' else 'None::<i64>'}"; sc.bind(c[1], "val", "int"); return s
    raise ValueError(c)

def rs_rule(p, r, nm):
    sc = Scope()
    parts = []
    for it in r["body"]:
        k = it[0]
        if k == "cl":
            tys = col_types(p, it[1], nm)
            lat = p["rels"][it[1]].get("lat")
            args = []
            for j, a in enumerate(it[2]):
                cty = lat if (lat and j == len(tys) - 1) else "int"
                if a[0] == "v":
                    args.append(nm.var(a[1])); sc.bind(a[1], "ref", cty)
                else:
                    args.append(rs_ex(a[1], sc, nm, cty if cty != "int" else "int"))
            s = f"{nm.rel(it[1])}({', '.join(args)})"
            for c in it[3]: s += " " + rs_cond(c, sc, nm)
            parts.append(s)
        elif k == "for":
            g = it[2]
            gs = f"{rs_ex(g[1], sc, nm)}..{rs_ex(g[2], sc, nm)}" if g[0] == "range" else "[" + ", ".join(rs_ex(x, sc, nm) for x in g[1]) + "]"
            parts.append(f"for {nm.var(it[1])} in {gs}"); sc.bind(it[1], "val", "int")
        elif k == "agg":
            outs, fn, bound, rel, aargs = it[1:]
            lat = p["rels"][rel].get("lat")
            n = len(aargs)
            al = []
            for j, a in enumerate(aargs):
                cty = lat if (lat and j == n - 1) else "int"
                if a == "_": al.append("_")
                elif a[0] == "b": al.append(nm.var(a[1]))
                else: al.append(rs_ex(a[1], sc, nm, cty))
            pat = "()" if not outs else nm.var(outs[0])
            if fn == "not" and not outs and not bound and (rel + len(parts)) % 2 == 0:
                # the surface spelling of the same item (documented: `!rel(args)` is `agg () = not() in rel(args)`), on every second occurrence
                parts.append(f"!{nm.rel(rel)}({', '.join(al)})")
            else:
                parts.append(f"agg {pat} = {fn}({', '.join(nm.var(b) for b in bound)}) in {nm.rel(rel)}({', '.join(al)})")
            for o in outs: sc.bind(o, "val", "usize" if fn == "count" else "int")
        else:
            parts.append(rs_cond(it, sc, nm))
    heads = []
    for (hr, hargs) in r["heads"]:
        tys = col_types(p, hr, nm)
        lat = p["rels"][hr].get("lat")
        hs = []
        for j, e in enumerate(hargs):
            cty = lat if (lat and j == len(tys) - 1) else "int"
            if isinstance(e, tuple) and e[0] == "var" and sc.kind.get(e[1], ("val", "int"))[1] == cty:
                hs.append(nm.var(e[1]))      # plain variable: goes through Convert::convert
            else:
                hs.append(rs_ex(e, sc, nm, cty))
        heads.append(f"{nm.rel(hr)}({', '.join(hs)})")
    return ", ".join(heads) + (" <-- " + ", ".join(parts) if parts else "") + ";"

def rs_decls(p, nm, order=None, inits=None):
    out = []
    for r in (order if order is not None else range(len(p["rels"]))):
        d = p["rels"][r]
        kw = "lattice" if d.get("lat") else "relation"
        init = f" = {inits[r]}" if inits and r in inits else ""
        ds = f"#[ds(ascent_byods_rels::{d['ds']})] " if d.get("ds") else ""
        out.append(f"{ds}{kw} {nm.rel(r)}({', '.join(col_types(p, r, nm))}){init};")
    return out

def rs_program(p, nm=None, macro="ascent", attrs=(), struct="Prog", rule_order=None, decl_order=None, extra=""):
    nm = nm or Names()
    lines = [f"{macro}! {{"] + [f"   #![{a}]" for a in attrs] + [f"   pub struct {struct};"]
    lines += ["   " + d for d in rs_decls(p, nm, decl_order)]
    for i in (rule_order if rule_order is not None else range(len(p["rules"]))):
        lines.append("   " + rs_rule(p, p["rules"][i], nm))
    if extra: lines.append(extra)
    lines.append("}")
    return "\n".join(lines)

def rs_module(name, p, nm=None, macro="ascent", attrs=(), **kw):
    """a module with the program and its Driver impl"""
    nm = nm or Names()
    par = macro == "ascent_par"
    timeout = "generate_run_timeout" in attrs
    body = rs_program(p, nm, macro, attrs, **kw)
    loads, dumps = [], []
    for r, d in enumerate(p["rels"]):
        ty = "(" + "".join(t + "," for t in col_types(p, r, nm)) + ")"
        f = nm.rel(r)
        if not par:
            loads.append(f"         {r} => {{ let v: Vec<{ty}> = parse_rows(rows)?; if append {{ self.p.{f}.extend(v) }} else {{ self.p.{f} = v }} }},")
            dumps.append(f"dump_rel({r}, self.p.{f}.iter().map(Row::render).collect())")
        elif d.get("lat"):
            loads.append(f"         {r} => {{ let v: Vec<{ty}> = parse_rows(rows)?; if !append {{ self.p.{f} = Default::default(); }} for x in v {{ self.p.{f}.push(std::sync::RwLock::new(x)); }} }},")
            dumps.append(f"dump_rel({r}, self.p.{f}.iter().map(|x| x.read().unwrap().render()).collect())")
        else:
            loads.append(f"         {r} => {{ let v: Vec<{ty}> = parse_rows(rows)?; if !append {{ self.p.{f} = Default::default(); }} for x in v {{ self.p.{f}.push(x); }} }},")
            dumps.append(f"dump_rel({r}, self.p.{f}.iter().map(|x| x.render()).collect())")
    rt = ("ascent::internal::verif::arm_deadline(k); let p = &mut self.p; "
          "let r = match &self.pool { Some(pl) => pl.install(|| p.run_timeout(std::time::Duration::from_secs(1))), None => p.run_timeout(std::time::Duration::from_secs(1)) }; "
          "ascent::internal::verif::disarm(); Some(r)") if timeout else "let _ = k; None"
    return f"""#[allow(unused, non_snake_case, clippy::all)]
pub mod {name} {{
   use ascent::*;
   use ascent::aggregators::*;
   use ascent::lattice::{{Dual, set::Set, bounded_set::BoundedSet}};
   use crate::common::*;
   {body.replace(chr(10), chr(10) + '   ')}
   pub struct Inst {{ p: {kw.get('struct', 'Prog')}, pool: Option<std::sync::Arc<ascent::rayon::ThreadPool>> }}
   pub fn make(pool: Option<usize>) -> Box<dyn Driver> {{
      let pool = pool.map(crate::common::pool_of);
      let p = match &pool {{ Some(pl) => pl.install(|| Default::default()), None => Default::default() }};
      Box::new(Inst {{ p, pool }})
   }}
   impl Driver for Inst {{
      fn load(&mut self, rel: usize, rows: &[Sexp], append: bool) -> Option<()> {{
         match rel {{
{chr(10).join(loads)}
            _ => return None,
         }}
         Some(())
      }}
      fn run(&mut self) {{ match &self.pool {{ Some(pl) => {{ let p = &mut self.p; pl.install(|| p.run()) }}, None => self.p.run() }} }}
      fn run_here(&mut self) {{ self.p.run() }}
      fn run_timeout(&mut self, k: usize) -> Option<bool> {{ {rt} }}
      fn dump(&self) -> String {{ vec![{', '.join(dumps)}].join(" | ") }}
      fn iters(&self) -> String {{ format!("iters {{}}", self.p.scc_iters.iter().map(|x| x.to_string()).collect::<Vec<_>>().join(" ")) }}
   }}
}}
"""

# ------------------------------------------------------------------ the independent oracle: naive least model

def join(kind, a, b):
    if kind == "max": return max(a, b)
    if kind == "min": return min(a, b)
    if kind == "set": return ("set", tuple(sorted(set(a[1]) | set(b[1]))))
    if kind == "bset":        # BoundedSet<3, i64>: "none" is TOP
        if a == "none" or b == "none": return "none"
        u = tuple(sorted(set(a[1]) | set(b[1])))
        return ("set", u) if len(u) <= 3 else "none"
    if kind == "opt":
        if a == "none": return b
        if b == "none": return a
        return ("some", max(a[1], b[1]))
    raise ValueError(kind)

def ev(e, env):
    if isinstance(e, int): return e
    if e == "none": return "none"
    if e[0] == "var": return env[e[1]]
    if e[0] == "somex": return ("some", ev(e[1], env))
    if e[0] == "single": return ("set", (ev(e[1], env),))
    a, b = ev(e[1], env), ev(e[2], env)
    return {"add": a + b, "sub": a - b, "mul": a * b, "min": min(a, b), "max": max(a, b)}[e[0]]

def evb(b, env):
    if b == "tt": return True
    if b[0] == "and": return evb(b[1], env) and evb(b[2], env)
    if b[0] == "or": return evb(b[1], env) or evb(b[2], env)
    if b[0] == "not": return not evb(b[1], env)
    x, y = ev(b[1], env), ev(b[2], env)
    return {"lt": lambda: x < y, "le": lambda: x <= y, "eq": lambda: x == y, "ne": lambda: x != y}[b[0]]()

def sat_cond(c, env):
    if c[0] == "if": return env if evb(c[1], env) else None
    if c[0] == "let": e2 = dict(env); e2[c[1]] = ev(c[2], env); return e2
    if c[0] == "iflet":
        v = ev(c[2], env)
        if isinstance(v, tuple) and v[0] == "some": e2 = dict(env); e2[c[1]] = v[1]; return e2
        return None
    raise ValueError(c)

def body_envs(items, db, env, multiset_agg=None):
    """all environments satisfying the body over database db: rel -> set of tuples (lattices: their current rows)"""
    if not items: yield env; return
    it, rest = items[0], items[1:]
    k = it[0]
    if k == "cl":
        for t in list(db.get(it[1], ())):
            if len(t) != len(it[2]): continue
            e2, ok = dict(env), True
            for a, x in zip(it[2], t):
                if a[0] == "v":
                    if a[1] in e2:
                        if e2[a[1]] != x: ok = False; break
                    else: e2[a[1]] = x
                elif ev(a[1], env) != x: ok = False; break
            if not ok: continue
            for c in it[3]:
                e2 = sat_cond(c, e2)
                if e2 is None: break
            if e2 is not None: yield from body_envs(rest, db, e2, multiset_agg)
    elif k == "for":
        g = it[2]
        vals = range(ev(g[1], env), ev(g[2], env)) if g[0] == "range" else [ev(x, env) for x in g[1]]
        for x in vals:
            e2 = dict(env); e2[it[1]] = x
            yield from body_envs(rest, db, e2, multiset_agg)
    elif k == "agg":
        outs, fn, bound, rel, aargs = it[1:]
        src = (multiset_agg or {}).get(rel)
        tuples = src if src is not None else sorted(db.get(rel, ()), key=repr)
        bag = []
        for t in tuples:
            acc, ok = {}, True
            for a, x in zip(aargs, t):
                if a == "_": continue
                if a[0] == "b":
                    if a[1] in acc and acc[a[1]] != x: ok = False; break
                    acc[a[1]] = x
                elif ev(a[1], env) != x: ok = False; break
            if ok: bag.append([acc[b] for b in bound])
        if fn == "count": res = [[len(bag)]]
        elif fn == "sum": res = [[sum(b[0] for b in bag)]]
        elif fn == "min": res = [[min(b[0] for b in bag)]] if bag else []
        elif fn == "max": res = [[max(b[0] for b in bag)]] if bag else []
        elif fn == "not": res = [[]] if not bag else []
        elif fn == "minmax": res = [[min(b[0] for b in bag)], [max(b[0] for b in bag)]] if bag else []      # user-defined: TWO values, the rule fires once per value
        elif fn == "argmin": res = [[min(tuple(b) for b in bag)[1]]] if bag else []      # user-defined (harness common.rs): item of the least (cost, item)
        for o in res:
            e2 = dict(env)
            for v, x in zip(outs, o): e2[v] = x
            yield from body_envs(rest, db, e2, multiset_agg)
    else:
        e2 = sat_cond(it, env)
        if e2 is not None: yield from body_envs(rest, db, e2, multiset_agg)

def rel_sccs(p):
    """strata: SCCs of the relation dependency graph in topological order (each a set of relation ids)"""
    n = len(p["rels"])
    adj = {r: set() for r in range(n)}
    for rule in p["rules"]:
        for it in rule["body"]:
            if it[0] in ("cl", "agg"):
                b = it[1] if it[0] == "cl" else it[4]
                for h, _ in rule["heads"]: adj[b].add(h)
    reach = {r: {r} for r in range(n)}
    ch = True
    while ch:
        ch = False
        for r in range(n):
            new = set(reach[r])
            for x in list(reach[r]): new |= adj[x]
            if new != reach[r]: reach[r] = new; ch = True
    comps, seen = [], set()
    for r in range(n):
        if r in seen: continue
        c = {x for x in range(n) if x in reach[r] and r in reach[x]}
        comps.append(c); seen |= c
    out, done = [], set()
    while len(out) < len(comps):
        for c in comps:
            if c in out: continue
            preds = {x for x in range(n) for y in c if y in adj[x]} - c
            if preds <= done: out.append(c); done |= c; break
        else: raise RuntimeError("cycle")
    return out

def stratifiable(p):
    for rule in p["rules"]:
        for it in rule["body"]:
            if it[0] == "agg":
                for c in rel_sccs(p):
                    if it[4] in c and any(h in c for h, _ in rule["heads"]): return False
    return True

def naive_model(p, inputs, max_iters=10000, agg_multiset=False):
    """least (stratified) model. relations: set of tuples; lattices: dict key -> value, returned as set of rows.
    agg_multiset: aggregate over input rows with their multiplicity (the engine's documented-by-behaviour reading, F15)"""
    rels = p["rels"]
    db = {}
    lat = {}
    for r, d in enumerate(rels):
        rows = [tuple(t) for t in inputs.get(r, [])]
        if d.get("lat"):
            m = {}
            for t in rows:
                k = t[:-1]; m[k] = join(d["lat"], m[k], t[-1]) if k in m else t[-1]
            lat[r] = m; db[r] = {k + (v,) for k, v in m.items()}
        else: db[r] = set(rows)
    for comp in rel_sccs(p):
        rules = [ru for ru in p["rules"] if any(h in comp for h, _ in ru["heads"])]
        for _ in range(max_iters):
            changed = False
            for ru in rules:
                for env in list(body_envs(ru["body"], db, {})):
                    for h, hargs in ru["heads"]:
                        t = tuple(ev(e, env) for e in hargs)
                        d = rels[h]
                        if d.get("lat"):
                            k, v = t[:-1], t[-1]
                            m = lat[h]
                            nv = join(d["lat"], m[k], v) if k in m else v
                            if k not in m or nv != m[k]:
                                m[k] = nv; changed = True
                                db[h] = {kk + (vv,) for kk, vv in m.items()}
                        elif t not in db[h]:
                            db[h].add(t); changed = True
            if not changed: break
        else: raise RuntimeError("oracle did not converge")
    return db

def render_db(db, nrels):
    return " | ".join(f"r{r}:" + "".join(f" {t}" for t in sorted(sx_tuple(t) for t in db.get(r, ()))) for r in range(nrels))

def parse_dump(s):
    """`r0: (1 2)*1 … | r1: …` -> {rel: {tuple_text: mult}}"""
    out = {}
    for part in s.split(" | "):
        head, _, rest = part.partition(":")
        m = {}
        depth, cur = 0, ""
        for ch in rest.strip() + " ":
            if ch == "(": depth += 1
            if ch == ")": depth -= 1
            if ch == " " and depth == 0:
                if cur:
                    t, _, c = cur.rpartition("*"); m[t] = int(c); cur = ""
            else: cur += ch
        out[int(head.strip()[1:])] = m
    return out


def from_json(x):
    """JSON (lists) -> AST (tuples); dict keys of inputs back to ints"""
    if isinstance(x, list): return tuple(from_json(y) for y in x)
    if isinstance(x, dict): return {(int(k) if isinstance(k, str) and k.isdigit() else k): from_json(v) for k, v in x.items()}
    return x


def split_key(tuple_text):
    """key part (all columns but the last) of a rendered tuple `(a b (set 1 2))`"""
    inner = tuple_text[1:-1]
    depth, cut = 0, None
    for i in range(len(inner) - 1, -1, -1):
        ch = inner[i]
        if ch == ")": depth += 1
        elif ch == "(": depth -= 1
        elif ch == " " and depth == 0: cut = i; break
    return inner[:cut] if cut is not None else ""


# ------------------------------------------------------------------ BYODS: the explicit-closure twin of a tagged relation

def closure_rules(r, arity, kind):
    """the rules an untagged relation needs to behave like `#[ds(kind)]`: eqrel = reflexive on mentioned elements,
    symmetric, transitive; trrel = transitive; trrel_uf = reflexive on mentioned elements and transitive (per key K for arity 3)"""
    k = [("v", 9)] if arity == 3 else []
    kh = [("var", 9)] if arity == 3 else []
    cl = lambda a, b: ("cl", r, k + [("v", a), ("v", b)], [])
    hd = lambda a, b: (r, kh + [("var", a), ("var", b)])
    rules = []
    if kind in ("eqrel", "trrel_uf"):
        rules.append({"heads": [hd(0, 0), hd(1, 1)], "body": [cl(0, 1)]})
    if kind == "eqrel":
        rules.append({"heads": [hd(1, 0)], "body": [cl(0, 1)]})
    rules.append({"heads": [hd(0, 2)], "body": [cl(0, 1), cl(1, 2)]})
    return rules


def twin(p):
    """same program with every `ds`-tagged relation untagged and closed by explicit rules"""
    q = {"rels": [{k: v for k, v in d.items() if k != "ds"} for d in p["rels"]], "rules": list(p["rules"])}
    for r, d in enumerate(p["rels"]):
        if d.get("ds"): q["rules"] += closure_rules(r, d["arity"], d["ds"])
    return q
