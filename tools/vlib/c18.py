"""C18 — public union-find structures agree with a reference closure after any history."""
import itertools, json, os
from . import core, tiec

THEOREMS = ["uf_wf_init", "uf_add_ok", "uf_find_ok", "uf_findItem_ok", "uf_findItem_unknown", "uf_union_ok", "uf_run_ok", "uf_next_one_cycle", "uf_union_next", "uf_len",
            "uf_same_class_iff",
            "tr_inv_init", "tr_addNodeNew_inv_partial", "tr_add_inv_partial", "tr_collapse_records_subsumption",
            "tr_subsumptions_persist", "tr_contains_refl_partial", "tr_contains_added_partial", "tr_contains_sound_partial",
            "tr_add_exact_partial", "tr_addSetConnection_exact", "tr_contains_iff_partial", "tr_acyclic_run_ok",
            "tr_acyclic_contains_iff",
            "tr_contains_iff", "tr_inv_empty", "tr_addNodeNew_inv", "tr_add_inv", "tr_run_inv", "tr_collapse_run", "tr_contains_of_inv",
            "tr_set_of", "tr_rev_set_of", "tr_iter_all", "tr_count_exact", "tr_count_exact_eq_iter_all"]
TRUSTED = ["Lean 4.33.0 kernel", "axioms: propext, Classical.choice, Quot.sound only (audited per theorem)",
           "statement of Props/C18.lean",
           "models Model/UnionFind.lean (uf.rs) and Model/TrRelUF.lean (trrel_union_find.rs) hand-written statement by statement; tied by "
           "op-sequence correspondence (harness/ds `uf`/`tr` ops vs Lean driver): every history is run through the real code and the model "
           "and every printed line must agree",
           "oracle in tools/vlib/c18.py (Floyd-Warshall reflexive-transitive closure on mentioned elements; naive relabelling partition) is "
           "independent of the Lean model",
           "modelled not verified: hashbrown/std HashMap, HashSet and Vec (association lists / duplicate-free lists; observations compared "
           "after sorting), Cell interior mutability (state threading), the unsafe unchecked indexing (guarded by debug assertions in the "
           "harness build), non-termination (fuel exhaustion = panic outcome), usize overflow (mathematical naturals)"]
DOM4 = [1, 2, 3, 4]
DOM8 = [1, 2, 3, 4, 5, 6, 7, 8]


# ---------------------------------------------------------------- property-level oracle (independent of the Lean model)

class Closure:
    """reflexive transitive closure of the added pairs, reflexive on mentioned elements"""

    def __init__(self):
        self.m, self.e, self._c = set(), set(), None

    def add(self, x, y):
        self.m |= {x, y}; self.e.add((x, y)); self._c = None

    def rel(self):
        if self._c is None:
            ms = sorted(self.m)
            r = {(a, b): (a == b or (a, b) in self.e) for a in ms for b in ms}
            for k in ms:
                for i in ms:
                    if r[(i, k)]:
                        for j in ms:
                            if r[(k, j)]: r[(i, j)] = True
            self._c = sorted(p for p, v in r.items() if v)
        return self._c

    def has(self, x, y): return (x, y) in set(self.rel())
    def set_of(self, x): return None if x not in self.m else sorted(b for a, b in self.rel() if a == x)
    def rev_set_of(self, x): return None if x not in self.m else sorted(a for a, b in self.rel() if b == x)


def _sp(v, head, sep):
    if v is None: return "none"
    body = sep.join(map(str, v))
    return body if not head else (head + (sep + body if body else ""))


def tr_oracle(ops, outs):
    """expected output of every `tr` op under the closure semantics; returns a complaint or None"""
    c = Closure()
    for j, (op, o) in enumerate(zip(ops, outs)):
        t = op.split()
        k, a = t[1], t[3:]
        bad = lambda exp: f"op {j} `{op}`: expected {exp!r} by the reflexive-transitive-closure semantics, got {o!r}"
        if o == "panic": return f"op {j} `{op}` panics"
        if k == "mk":
            c = Closure()
            if o != "ok": return bad("ok")
        elif k == "add":
            x, y = int(a[0]), int(a[1])
            if o not in ("true", "false"): return bad("true|false")
            if o == "false" and not (x in c.m and y in c.m and c.has(x, y)):
                return f"op {j} `{op}`: add reported `no change` for a pair that was not yet in the closure"
            c.add(x, y)
        elif k == "contains":
            x, y = int(a[0]), int(a[1])
            exp = str(x in c.m and y in c.m and c.has(x, y)).lower()
            if o != exp: return bad(exp)
        elif k == "iterall":
            exp = "all" + "".join(f" {x}:{y}" for x, y in c.rel())
            if o != exp: return bad(exp)
        elif k in ("setof", "revsetof"):
            exp = _sp((c.set_of if k == "setof" else c.rev_set_of)(int(a[0])), "some", " ")
            if o != exp: return bad(exp)
        elif k == "count":
            if o != str(len(c.rel())): return bad(str(len(c.rel())))
        elif k == "ok":
            if o != "true": return bad("true")
        elif k == "snap":
            es = [int(x) for x in a]
            rel = set(c.rel())
            bits = "".join("1" if (x, y) in rel else "0" for x in es for y in es)
            exp = (f"contains={bits} all={','.join(f'{x}:{y}' for x, y in c.rel())} "
                   f"setof={';'.join(_sp(c.set_of(x), '', ',') for x in es)} "
                   f"revsetof={';'.join(_sp(c.rev_set_of(x), '', ',') for x in es)} count={len(rel)} ok=true")
            if o != exp: return bad(exp)
        else:
            return f"op {j} `{op}`: unknown op"
    return None


class Partition:
    """naive partition: class labels, relabelled on every union"""

    def __init__(self):
        self.label = {}        # item -> label
        self.idcls = []        # protocol id number -> an item known to be in the id's class
        self.root = {}         # label -> the id that find must currently return for the class

    def add(self, x):
        if x not in self.label: self.label[x] = ("c", x)

    def union_items(self, x, y):
        lx, ly = self.label[x], self.label[y]
        if lx != ly:
            for k, v in self.label.items():
                if v == ly: self.label[k] = lx
            self.root.pop(ly, None); self.root.pop(lx, None)

    def same(self, x, y): return self.label[x] == self.label[y]

    def see(self, idnum, item, fresh_ok=True):
        """the structure returned `idnum` as the representative of item's class"""
        if idnum == len(self.idcls):
            self.idcls.append(item)
        elif idnum > len(self.idcls):
            return f"id {idnum} skips numbers (only {len(self.idcls)} ids handed out)"
        elif not self.same(self.idcls[idnum], item):
            return f"id {idnum} belongs to the class of item {self.idcls[idnum]}, not to the class of item {item}"
        lab = self.label[item]
        if lab in self.root and self.root[lab] != idnum:
            return f"class of item {item} had representative {self.root[lab]}, now {idnum} without a union in between"
        self.root[lab] = idnum
        return None


def uf_oracle(ops, outs):
    p = Partition()
    for j, (op, o) in enumerate(zip(ops, outs)):
        t = op.split()
        k, a = t[1], t[3:]
        bad = lambda why: f"op {j} `{op}` -> {o!r}: {why}"
        if o == "panic": return f"op {j} `{op}` panics"
        try:
            if k == "mk":
                p = Partition()
                if o != "ok": return bad("expected ok")
            elif k == "add":
                x = int(a[0]); w, i = o.split(); i = int(i)
                if (w == "new") != (x not in p.label): return bad("new/old does not match whether the item was present")
                if w == "new" and i != len(p.idcls): return bad("a new item must get a fresh id")
                p.add(x)
                why = p.see(i, x)
                if why: return bad(why)
            elif k == "finditem":
                x = int(a[0])
                if x not in p.label:
                    if o != "none": return bad("item is unknown")
                else:
                    w, i = o.split()
                    if w != "some": return bad("item is present")
                    why = p.see(int(i), x)
                    if why: return bad(why)
            elif k == "find":
                i = int(a[0])
                if i >= len(p.idcls):
                    if o != "noid": return bad("id was never handed out")
                else:
                    why = p.see(int(o), p.idcls[i])
                    if why: return bad(why)
            elif k == "union":
                i, i2 = int(a[0]), int(a[1])
                if i >= len(p.idcls) or i2 >= len(p.idcls):
                    if o != "noid": return bad("id was never handed out")
                else:
                    p.union_items(p.idcls[i], p.idcls[i2])
                    why = p.see(int(o), p.idcls[i])
                    if why: return bad(why)
            elif k == "unionadd":
                x, y = int(a[0]), int(a[1])
                p.add(x); p.add(y); p.union_items(x, y)
                why = p.see(int(o), x)
                if why: return bad(why)
            elif k == "same":
                x, y = int(a[0]), int(a[1])
                exp = "none" if (x not in p.label or y not in p.label) else str(p.same(x, y)).lower()
                if o != exp: return bad(f"expected {exp} by the partition generated by the unions")
            elif k == "len":
                if o != str(len(p.label)): return bad(f"expected {len(p.label)} items")
            elif k == "ok":
                if o != "true": return bad("internal consistency check fails")
            elif k == "snap":
                es = [int(x) for x in a]
                f = dict(kv.split("=", 1) for kv in o.split())
                if f["len"] != str(len(p.label)): return bad(f"expected len={len(p.label)}")
                if f["ok"] != "true": return bad("internal consistency check fails")
                reps = f["reps"].split(",") if es else []
                for e, r in zip(es, reps):
                    if (r == "-") != (e not in p.label): return bad(f"item {e}: presence wrong")
                    if r != "-":
                        why = p.see(int(r), e)
                        if why: return bad(why)
                exp = "".join("-" if (x not in p.label or y not in p.label) else ("1" if p.same(x, y) else "0")
                              for n, x in enumerate(es) for y in es[n + 1:])
                if f.get("same", "") != exp: return bad(f"expected same={exp} by the partition generated by the unions")
            else:
                return bad("unknown op")
        except (ValueError, KeyError, IndexError) as ex:
            return bad(f"malformed output ({ex})")
    return None


def oracle_for(kind):
    return tr_oracle if kind.startswith("tr") else uf_oracle


# ---------------------------------------------------------------- generators

def tr_exhaustive(maxlen, dom=DOM4):
    """every sequence of `add`s of length <= maxlen over dom; all queries after the last op (prefixes are scenarios of their own)"""
    pairs = [(x, y) for x in dom for y in dom]
    snap = "tr snap t " + " ".join(map(str, dom + [dom[-1] + 1]))
    for n in range(maxlen + 1):
        for seq in itertools.product(pairs, repeat=n):
            yield ("tr-exh", ["tr mk t"] + [f"tr add t {x} {y}" for x, y in seq] + [snap])


def tr_canonical(length, dom=DOM4):
    """add sequences of exactly `length` up to renaming of the elements (elements appear in increasing order of first use)"""
    snap = "tr snap t " + " ".join(map(str, dom + [dom[-1] + 1]))

    def rec(prefix, used):
        if len(prefix) == 2 * length:
            yield prefix
            return
        for v in range(1, min(used + 1, len(dom)) + 1):
            yield from rec(prefix + [v], max(used, v))
    for flat in rec([], 0):
        yield ("tr-canon", ["tr mk t"] + [f"tr add t {dom[flat[2 * i] - 1]} {dom[flat[2 * i + 1] - 1]}" for i in range(length)] + [snap])


def uf_exhaustive(maxlen, dom=DOM4):
    """every history of add / finditem / find(id) / union(id,id) / unionadd of length <= maxlen over dom; ids range over
    every number that can possibly have been handed out (an id not handed out answers `noid` on both sides)"""
    snap = "uf snap u " + " ".join(map(str, dom + [dom[-1] + 1]))

    def rec(ops, maxids, n):
        yield ("uf-exh", ["uf mk u"] + ops + [snap])
        if n == 0: return
        for x in dom:
            yield from rec(ops + [f"uf add u {x}"], min(len(dom), maxids + 1), n - 1)
            yield from rec(ops + [f"uf finditem u {x}"], maxids, n - 1)
            for y in dom:
                yield from rec(ops + [f"uf unionadd u {x} {y}"], min(len(dom), maxids + 2), n - 1)
        for i in range(maxids):
            yield from rec(ops + [f"uf find u {i}"], maxids, n - 1)
            for i2 in range(maxids):
                yield from rec(ops + [f"uf union u {i} {i2}"], maxids, n - 1)
    yield from rec([], 0, maxlen)


def tr_random(rng, n, maxlen, dom=DOM8):
    d = " ".join(map(str, dom + [dom[-1] + 1]))
    for i in range(n):
        k = rng.range(2, len(dom))
        sub = dom[:k]
        ops = ["tr mk r"]
        # a mix of shapes: dense (many cycles), chain-like (long paths closed late), sparse
        shape = rng.below(3)
        for s in range(rng.range(1, maxlen)):
            if shape == 1 and rng.chance(2, 3):
                x = rng.choice(sub); y = sub[(sub.index(x) + 1) % len(sub)]
                if rng.chance(1, 6): x, y = y, x
            else:
                x, y = rng.choice(sub), rng.choice(sub)
            ops.append(f"tr add r {x} {y}")
            r = rng.below(10)
            if r < 6: ops.append(f"tr snap r {d}")
            elif r == 6: ops += [f"tr contains r {rng.choice(dom)} {rng.choice(dom + [99])}", "tr ok r"]
            elif r == 7: ops += ["tr iterall r", "tr count r"]
            elif r == 8: ops += [f"tr setof r {rng.choice(dom + [99])}", f"tr revsetof r {rng.choice(dom + [99])}"]
        ops.append(f"tr snap r {d}")
        yield ("tr-rand", ops)


def uf_random(rng, n, maxlen, dom=DOM8):
    d = " ".join(map(str, dom + [dom[-1] + 1]))
    for i in range(n):
        k = rng.range(2, len(dom))
        sub = dom[:k]
        ops = ["uf mk r"]
        nids = 0
        byid = rng.chance(2, 3)          # histories that use the Id-based API vs union_add only
        for s in range(rng.range(1, maxlen)):
            r = rng.below(100)
            if r < 25 or nids == 0:
                ops.append(f"uf add r {rng.choice(sub)}"); nids = min(k, nids + 1)
            elif r < 55 and byid:
                ops.append(f"uf union r {rng.below(nids)} {rng.below(nids)}")
            elif r < 65:
                ops.append(f"uf unionadd r {rng.choice(sub)} {rng.choice(sub)}"); nids = min(k, nids + 1)
            elif r < 80:
                ops.append(f"uf find r {rng.below(nids + 1)}")
            elif r < 90:
                ops.append(f"uf finditem r {rng.choice(sub + [99])}")
            elif r < 94:
                ops += [f"uf same r {rng.choice(sub)} {rng.choice(sub + [99])}", "uf len r", "uf ok r"]
            else:
                ops.append(f"uf snap r {d}")
            if rng.chance(1, 3): ops.append(f"uf snap r {d}")
        ops.append(f"uf snap r {d}")
        yield ("uf-rand", ops)


def uf_unions(rng, n, dom=DOM8):
    """all items added first, then unions through the raw ids handed out by `add` (members that have meanwhile lost a union - non-roots - and classes of
    different ranks meet here far more often than in the mixed histories), every class checked at the end"""
    for i in range(n):
        m = rng.range(4, min(7, len(dom)))
        sub = dom[:m]
        d = " ".join(map(str, sub + [sub[-1] + 1]))
        ops = ["uf mk r"] + [f"uf add r {x}" for x in rng.shuffle(sub)]
        for _ in range(rng.range(3, 8)):
            ops.append(f"uf union r {rng.below(m)} {rng.below(m)}")
            if rng.chance(1, 4): ops.append(f"uf snap r {d}")
            if rng.chance(1, 8): ops.append(f"uf find r {rng.below(m)}")
        ops += [f"uf snap r {d}", "uf ok r"]
        yield ("uf-unions", ops)


def scenarios(tier, rng, proof_ok=True):
    big = tier != "quick" or not proof_ok
    yield from tr_exhaustive(4)
    yield from uf_exhaustive(4 if big else 3)
    yield from tr_canonical(5)
    if big:
        yield from tr_canonical(6)
    yield from tr_random(rng.fork("tr"), 2000 if big else 250, 60)
    yield from uf_random(rng.fork("uf"), 2000 if big else 250, 60)
    yield from uf_unions(rng.fork("ufu"), 10000 if big else 1200)


def corpus_scenarios():
    out = []
    for fn, c in core.corpus("C18"):
        items = c["scenarios"] if "scenarios" in c else [c]
        for it in items:
            ops = it["ops"]
            kind = "tr-corpus" if ops and ops[0].startswith("tr") else "uf-corpus"
            out.append((kind, ops))
    return out


# ---------------------------------------------------------------- check

def check(tier, replay=None):
    r = core.Report("C18", tier)
    rng = core.SplitMix(core.seed()).fork("C18")
    if os.environ.get("VERIF_DEV_SKIP_PROOF"):
        proof = core.ProofResult(); core.run(["lake", "build", "driver"], cwd=core.LEAN)
    else:
        proof = core.lean_prove("AscentVerif.Props.C18", leanchecker=(tier == "thorough"))
        core.require_theorems(proof, THEOREMS)
    r.proof(proof, "lake build AscentVerif.Props.C18 && #audit_module (axioms of every theorem)" + (" && lake env leanchecker" if tier == "thorough" else ""))
    binary, blog = tiec.build_ds(r)
    if binary is None:
        r.violation({"kind": "obligation-broken", "no_longer_checks": ["harness/ds does not build against the repository"], "log": blog[-2000:]}, no_input=True)
        return r.finish(TRUSTED)
    if replay:
        ops = json.load(open(replay))["input"].split("\n")
        scen = [("tr-replay" if ops and ops[0].startswith("tr") else "uf-replay", ops)]
    else:
        scen = corpus_scenarios() + list(scenarios(tier, rng, proof.ok))
    lines = [l for _, ops in scen for l in ops]
    model_ok = proof.ok or os.path.exists(core.lean_driver())
    rc, impl, model, err = tiec.run_both(binary, lines, model_ok)
    if len(impl) != len(lines) or (model is not None and len(model) != len(lines)):
        r.violation({"kind": "obligation-broken", "no_longer_checks": [f"harness/model output length impl={len(impl)} model={None if model is None else len(model)} ops={len(lines)} rc={rc}"], "stderr": err[-800:]}, no_input=True)
        return r.finish(TRUSTED)
    d = tiec.Decision(r)
    pos, hist, ops_hist, panics = 0, {}, {}, 0
    for kind, ops in scen:
        n = len(ops)
        io, mo = impl[pos:pos + n], (model[pos:pos + n] if model is not None else None)
        pos += n
        hist[kind] = hist.get(kind, 0) + 1
        for o in ops:
            key = " ".join(o.split()[:2])
            ops_hist[key] = ops_hist.get(key, 0) + 1
        panics += sum(1 for o in io if o == "panic")
        orc = oracle_for(kind)
        nontrivial = sum(1 for o in ops if o.split()[1] in ("add", "union", "unionadd")) >= 2

        def oracle(_line, outs, ops=ops, orc=orc):
            return orc(ops, outs.split("\n"))
        d.case("\n".join(ops), "\n".join(io), None if mo is None else "\n".join(mo), oracle, nontrivial=nontrivial)
        if hist[kind] in (1, 5000):
            r.sample({"kind": kind, "ops": ops, "impl": io})
    r.cov["scenarios_per_kind"] = hist
    r.cov["op_histogram"] = ops_hist
    r.cov["op_lines"] = len(lines)
    r.cov["impl_panics"] = panics
    r.cov["rule"] = ("scenario = one history on a fresh structure. tr-exh: every sequence of <= 4 `add`s over 4 elements (incl. self pairs, repeated "
                     "pairs, back edges over merged classes), all queries after the last op (every prefix is a scenario of its own): contains for "
                     "all pairs over the domain plus one unknown element, iter_all with multiplicity, set_of / rev_set_of of every element, "
                     "count_exact, both assert_* checks; tr-canon: sequences of 5 (thorough: and 6) adds up to renaming of elements; tr-rand: PRNG "
                     "histories up to 60 adds over <= 8 elements (dense / ring-like / sparse), queries interleaved. uf-exh: every history of <= 3 "
                     "(thorough: 4) ops from add / find_item / find(Id) / union(Id,Id) / union_add over 4 items and every id that can have been handed out; "
                     "uf-rand: PRNG histories up to 60 ops over <= 8 items; after ops: len, ok(), find_item of every item, same-class for all "
                     "pairs. Oracles: Floyd-Warshall closure on mentioned elements; relabelling partition + `find` returns one canonical member "
                     "id per class, stable between unions. non-trivial = history with at least two add/union ops")
    d.conclude(proof, "union-find operation histories")
    return r.finish(TRUSTED)
