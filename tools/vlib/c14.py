"""C14 — run_timeout stops only in a sound, resumable state."""
import os
from . import core, eng, gen, engcheck

THEOREMS = ["timeout_true_complete", "timeout_false_sound", "interrupted_between", "resume_complete", "lattice_timeout_sound", "lattice_resume_complete", "timeout_false_sound_agg", "timeout_false_sound_agg_from", "resume_complete_agg",
            "timeout_sound_phys", "timeout_true_complete_phys", "resume_complete_phys", "timeout_false_sound_phys_agg", "timeout_true_complete_phys_agg", "resume_complete_phys_agg", "negA_interrupted", "timeout_sound_physLat", "resume_complete_physLat",
            "timeout_never_panics_physPar", "timeout_sound_physPar", "timeout_true_complete_physPar", "interrupted_between_physPar", "resume_complete_physPar", "resume_timeout_complete_physPar", "tcPar_timeout", "tcPar_interrupted",
            "timeout_never_panics_physParLat", "timeout_sound_physParLat", "timeout_true_complete_physParLat", "interrupted_between_physParLat", "resume_complete_physParLat", "distPar_timeout", "distPar_interrupted",
            "timeout_never_panics_physPar_agg", "timeout_false_sound_physPar_agg", "timeout_true_complete_physPar_agg", "timeout_true_model_physPar_agg", "interrupted_between_physPar_agg", "resume_complete_physPar_agg", "negPar_timeout", "negPar_interrupted"]
TRUSTED = ["Props/C14PhysParAgg.lean (Proofs/PhysParAggTimeout.lean): run_timeout of ascent_par! programs WITH stratified aggregation / negation - never panics (timeout_never_panics_physPar_agg); `true` = the stratified model "
           "(timeout_true_model_physPar_agg); relative to a completed reference run: an interrupted call leaves a well-formed value between the original rows and the reference result (timeout_false_sound_physPar_agg) and after any "
           "history of interrupted calls, each with its own schedule / pool / deadline, a completing run() ends with the reference run's facts (resume_complete_physPar_agg); tied by `eng runtopp` / `eng runpp` on parallel aggregation programs",
           "Props/C14PhysParLat.lean (Model/EnginePhysParLatTimeout.lean, Proofs/PhysParLatTimeout.lean): run_timeout of an ascent_par! program WITH lattices - every schedule, pool, rule-scheduling mode, deadline and fuel, "
           "from every legal value (well-formed, one row per key): no panic; what it leaves is legal again, keeps every plain row and every lattice key with a value above the old one, and lies below every closed database "
           "(timeout_sound_physParLat); `true` = closed and least (timeout_true_complete_physParLat); after any history of interrupted calls a completing run() in any pool is closed w.r.t. the ORIGINAL input and least "
           "(resume_complete_physParLat); needs the flag law of join_mut as runPhysParLat_spec does; tied by `eng runtoppl` / `eng runppl` on ascent_par! lattice programs under every crash point",
           "Props/C14PhysPar.lean (Model/EnginePhysParTimeout.lean, Proofs/PhysParTimeout.lean): run_timeout of an ascent_par! program over its concurrent indices - for EVERY schedule, pool size, deadline oracle and fuel "
           "the call never panics (frozen / unfrozen protocol, also on the early return: the abandoned locals are dropped, the struct keeps Default indices of the CURRENT pool), what it leaves is well-formed, derivable "
           "and keeps every row (timeout_sound_physPar), `true` means the least model (timeout_true_complete_physPar), and after any history of interrupted calls - each with its own schedule, pool and deadline - a "
           "completing run() in any pool ends, without panic, with the least model of the original rows (resume_complete_physPar); aggregation-free relational programs; tied by `eng runtopp` / `eng runpp` on "
           "ascent_par! + #![generate_run_timeout] programs in pools of 1..8 threads under every crash point",
           "Props/C13PhysLat.lean (Model/EnginePhysLatTimeout.lean, Proofs/PhysLatFrom*.lean, PhysLatTimeout.lean): the physical engine WITH lattices from ANY legal program value (runPhysLat_from), idempotence of run() (rerun_idempotent_physLat, antisymmetric orders), run_timeout sound whatever it returns (timeout_sound_physLat) and completion of a resumed run (resume_complete_physLat); tied by `eng runtopl` / `eng runpl` on lattice programs",
           "Props/C13PhysAgg.lean (Proofs/NDAggRestart.lean, PhysAggTimeout*.lean): the re-run / run_timeout theorems for the PHYSICAL engine on stratified programs with aggregation / negation, relative to a completed reference run (restart_phys_agg, rerun_idempotent_phys_agg, timeout_false_sound_phys_agg, timeout_true_complete_phys_agg, resume_complete_phys_agg: any number of interruptions); tied by `eng runp` / `eng runtop` on aggregation programs",
           "Lean 4.33.0 kernel", "axioms: propext, Classical.choice, Quot.sound only (audited per theorem)",
           "statement: Props/C14.lean (arbitrary deadline oracle over the clock readings; any number of interruptions)",
           "model Model/Engine.lean (check points after each changing iteration of a looping SCC and at the end of a non-looping SCC; early return "
           "drops the SCC's local indices) tied by compiled programs with #![generate_run_timeout] under the virtual clock hook "
           "(ascent::internal::verif::arm_deadline): the k-th clock reading fires, for EVERY k up to the number of readings of the uninterrupted run",
           "Props/C13Phys.lean: run_timeout over the PHYSICAL indices (Model/EnginePhysTimeout.lean: an early return drops the local indices of the current SCC, the struct keeps "
           "empty ones, rows stay): timeout_sound_phys (any deadline oracle: typed, rows derivable, old rows a prefix), timeout_true_complete_phys, resume_complete_phys (ANY number of "
           "interruptions, then a completing run = least model of the original rows); tied by running the odd inputs' crash points through that model (`eng runtop`, `eng runp`)",
           "the wall clock itself is replaced by the hook (real Instant only in the un-armed run() path); stratified programs with aggregation / negation: Props/C13Agg.lean (timeout_false_sound_agg, resume_complete_agg, relative to an uninterrupted reference run)"]
MAXK = 14


def build(rng, tier):
    n = 10 if tier == "quick" else 50
    plist = engcheck.make_programs(rng.fork("c14"), n)
    progs, mods, cases = {}, [], []
    for i, p in enumerate(plist):
        pid = f"t{i}"
        progs[pid] = p
        mods.append((pid, eng.rs_module(pid, p, attrs=("generate_run_timeout",))))
        for j in range(3 if tier == "quick" else 10):
            r2 = rng.fork(f"{pid}t{j}")
            inp = gen.gen_input(r2, p, max_rows=8)
            for k in range(MAXK):     # every crash point
                inst = f"{pid}_{j}_{k}"
                # odd inputs: the Lean side is the physical-index engine model (Model/EnginePhysTimeout.lean: `runtop`, `runp`); the real code is the same
                rt, rn = ("runtop", "runp") if j % 2 == 1 else ("runto", "run")
                ops = [f"eng new {inst} {pid}"] + engcheck.load_ops(inst, inp) + [f"eng {rt} {inst} {k}", f"eng dump {inst}", f"eng {rn} {inst}", f"eng dump {inst}"]
                cases.append(engcheck.Case(pid, inst, ops, {"inp": inp, "kind": "single", "k": k}))
            inst = f"{pid}_{j}_multi"
            ks = [r2.range(0, 3) for _ in range(r2.range(2, 4))]
            ops = [f"eng new {inst} {pid}"] + engcheck.load_ops(inst, inp)
            for k in ks: ops += [f"eng runto {inst} {k}", f"eng dump {inst}"]
            ops += [f"eng runto {inst} 1000000", f"eng dump {inst}"]
            cases.append(engcheck.Case(pid, inst, ops, {"inp": inp, "kind": "repeated", "ks": ks}))
    # lattice programs under every crash point
    for i, p in enumerate(engcheck.make_programs(rng.fork("c14lat"), 4 if tier == "quick" else 20, genf=gen.gen_lat_program, filt=gen.lat_ok)):
        pid = f"tl{i}"
        progs[pid] = p
        mods.append((pid, eng.rs_module(pid, p, attrs=("generate_run_timeout",))))
        for j in range(2 if tier == "quick" else 6):
            r2 = rng.fork(f"{pid}t{j}")
            inp = gen.gen_lat_input(r2, p)
            for k in range(MAXK):
                inst = f"{pid}_{j}_{k}"
                # odd inputs: the Lean side is the physical-index lattice engine under a deadline (Model/EnginePhysLatTimeout.lean: `runtopl`, then `runpl`)
                rt, rn = ("runtopl", "runpl") if j % 2 == 1 else ("runto", "run")
                ops = [f"eng new {inst} {pid}"] + engcheck.load_ops(inst, inp) + [f"eng {rt} {inst} {k}", f"eng dump {inst}", f"eng {rn} {inst}", f"eng dump {inst}"]
                cases.append(engcheck.Case(pid, inst, ops, {"inp": inp, "kind": "lattice-single", "k": k, "lat": True}))
    # stratified programs with aggregation / negation downstream of (recursive) strata, under every crash point
    for i, p in enumerate(engcheck.make_programs(rng.fork("c14agg"), 5 if tier == "quick" else 25, genf=gen.gen_agg_program, filt=eng.stratifiable)):
        pid = f"ta{i}"
        progs[pid] = p
        mods.append((pid, eng.rs_module(pid, p, attrs=("generate_run_timeout",))))
        for j in range(2 if tier == "quick" else 6):
            r2 = rng.fork(f"{pid}t{j}")
            inp = gen.nodup_input(r2, p, max_rows=8)
            for k in range(MAXK):
                inst = f"{pid}_{j}_{k}"
                # odd inputs: the Lean side is the physical-index engine model, which evaluates aggregation / negation through the index the plan chose (Props/C04Phys.lean, C13PhysAgg.lean)
                rt, rn = ("runtop", "runp") if j % 2 == 1 else ("runto", "run")
                ops = [f"eng new {inst} {pid}"] + engcheck.load_ops(inst, inp) + [f"eng {rt} {inst} {k}", f"eng dump {inst}", f"eng {rn} {inst}", f"eng dump {inst}"]
                cases.append(engcheck.Case(pid, inst, ops, {"inp": inp, "kind": "agg-single", "k": k}))
    # a NESTED program instance: the products in the rules of `tn` are computed by `crate::common::nested_mul`, which constructs a second #![generate_run_timeout] program and
    # runs it to completion with run() on the calling thread (printer sugar of tools/vlib/eng.py; model and oracle multiply).  The deadline of the OUTER run_timeout belongs to
    # that call alone: the inner run() has no deadline, whatever clock reading the outer call is at
    tn = {"rels": [{"arity": 1}, {"arity": 2}, {"arity": 2}],
          "rules": [{"heads": [(1, [("var", 0), ("mul", ("var", 0), ("var", 0))])], "body": [("cl", 0, [("v", 0)], [])]},
                    {"heads": [(1, [("add", ("var", 0), 1), ("mul", ("add", ("var", 0), 1), ("add", ("var", 0), 1))])], "body": [("cl", 1, [("v", 0), ("v", 1)], []), ("if", ("lt", ("var", 0), 6))]},
                    {"heads": [(2, [("var", 0), ("mul", ("var", 1), 2)])], "body": [("cl", 1, [("v", 0), ("v", 1)], [])]}]}
    nnm = eng.Names(); nnm.nested_mul = True
    progs["tn"] = tn
    mods.append(("tn", eng.rs_module("tn", tn, nm=nnm, attrs=("generate_run_timeout",))))
    for j in range(2 if tier == "quick" else 5):
        r2 = rng.fork(f"tn{j}")
        inp = {0: [(x,) for x in sorted({r2.below(4) for _ in range(r2.range(1, 2))})], 1: [], 2: []}
        for k in range(MAXK):
            inst = f"tn_{j}_{k}"
            ops = [f"eng new {inst} tn"] + engcheck.load_ops(inst, inp) + [f"eng runto {inst} {k}", f"eng dump {inst}", f"eng run {inst}", f"eng dump {inst}"]
            cases.append(engcheck.Case("tn", inst, ops, {"inp": inp, "kind": "nested-instance", "k": k}))
    # ascent_par! with #![generate_run_timeout]: the same crash points in pools of 1..8 threads; the Lean side is the parallel physical-index model under a deadline
    # (Model/EnginePhysParTimeout.lean, `eng runtopp <inst> <k> <threads>`, then `eng runpp`): concurrent indices, frozen / unfrozen protocol also on the early return
    if os.path.exists(os.path.join(core.LEAN, "AscentVerif", "Model", "EnginePhysParTimeout.lean")):
        for i, p in enumerate(plist[: 4 if tier == "quick" else 16]):
            pid = f"tp{i}"
            progs[pid] = p
            mods.append((pid, eng.rs_module(pid, p, macro="ascent_par", attrs=("generate_run_timeout",))))
            for j in range(2 if tier == "quick" else 6):
                r2 = rng.fork(f"{pid}t{j}")
                inp = gen.nodup_input(r2, p, max_rows=8)
                t = r2.choice([1, 2, 3, 4, 8])
                for k in range(MAXK if tier != "quick" else 8):
                    inst = f"{pid}_{j}_{k}"
                    ops = [f"eng new {inst} {pid} par {t}"] + engcheck.load_ops(inst, inp) + [f"eng runtopp {inst} {k} {t}", f"eng dump {inst}", f"eng runpp {inst} {t}", f"eng dump {inst}"]
                    cases.append(engcheck.Case(pid, inst, ops, {"inp": inp, "kind": "par-single", "k": k, "threads": t}))
        # ... on stratified programs with aggregation / negation (the parallel model evaluates aggregation items through the concurrent indices)
        for i, p in enumerate(engcheck.make_programs(rng.fork("c14aggpar"), 3 if tier == "quick" else 12, genf=gen.gen_agg_program, filt=eng.stratifiable)):
            pid = f"tpa{i}"
            progs[pid] = p
            mods.append((pid, eng.rs_module(pid, p, macro="ascent_par", attrs=("generate_run_timeout",))))
            for j in range(2 if tier == "quick" else 6):
                r2 = rng.fork(f"{pid}t{j}")
                inp = gen.nodup_input(r2, p, max_rows=8)
                t = r2.choice([1, 2, 3, 4, 8])
                for k in range(MAXK if tier != "quick" else 8):
                    inst = f"{pid}_{j}_{k}"
                    ops = [f"eng new {inst} {pid} par {t}"] + engcheck.load_ops(inst, inp) + [f"eng runtopp {inst} {k} {t}", f"eng dump {inst}", f"eng runpp {inst} {t}", f"eng dump {inst}"]
                    cases.append(engcheck.Case(pid, inst, ops, {"inp": inp, "kind": "par-agg-single", "k": k, "threads": t}))
    # ... and with LATTICES: Model/EnginePhysParLatTimeout.lean, `eng runtoppl <inst> <k> <threads>` then `eng runppl`
    if os.path.exists(os.path.join(core.LEAN, "AscentVerif", "Model", "EnginePhysParLatTimeout.lean")):
        for i, p in enumerate(engcheck.make_programs(rng.fork("c14latpar"), 3 if tier == "quick" else 12, genf=gen.gen_lat_program, filt=gen.lat_ok)):
            pid = f"tlp{i}"
            progs[pid] = p
            mods.append((pid, eng.rs_module(pid, p, macro="ascent_par", attrs=("generate_run_timeout",))))
            for j in range(2 if tier == "quick" else 6):
                r2 = rng.fork(f"{pid}t{j}")
                inp = gen.gen_lat_input(r2, p)
                t = r2.choice([1, 2, 4, 8])
                for k in range(MAXK if tier != "quick" else 8):
                    inst = f"{pid}_{j}_{k}"
                    ops = [f"eng new {inst} {pid} par {t}"] + engcheck.load_ops(inst, inp) + [f"eng runtoppl {inst} {k} {t}", f"eng dump {inst}", f"eng runppl {inst} {t}", f"eng dump {inst}"]
                    cases.append(engcheck.Case(pid, inst, ops, {"inp": inp, "kind": "par-lattice-single", "k": k, "lat": True, "threads": t}))
    # a BYODS relation (`#[ds(trrel)]`: its rows live in the index, the `rel` field is a FakeVec) fed by FACTS, read by a long recursive stratum and by a later one:
    # an interrupted call drops the indices the interrupted stratum took out of the struct - for a BYODS relation that is its content - and the resumed call must
    # re-evaluate the fact strata (the model side is the explicit-closure twin; the real side is judged by the oracle on the plain relations)
    from . import c11
    tb = {"rels": [{"arity": 1}, {"arity": 2, "ds": "trrel"}, {"arity": 2}],
          "rules": [{"heads": [(1, [1, 2])], "body": []}, {"heads": [(1, [2, 3])], "body": []}, {"heads": [(1, [3, 4])], "body": []},
                    {"heads": [(0, [0])], "body": []},
                    {"heads": [(0, [("add", ("var", 0), 1)])], "body": [("cl", 0, [("v", 0)], []), ("cl", 1, [("e", 1), ("e", 4)], []), ("if", ("lt", ("var", 0), 6))]},
                    {"heads": [(2, [1, ("var", 2)])], "body": [("cl", 0, [("v", 0)], []), ("if", ("eq", ("var", 0), 6)), ("cl", 1, [("e", 1), ("v", 2)], [])]}],
          "t": 1, "A": 2, "role": {"t": 1}}
    c11.TAGGED["tbyods"] = tb
    progs["tbyods"] = eng.twin(tb)
    mods.append(("tbyods", tagged_module("tbyods", tb, ("generate_run_timeout",))))
    for k in range(MAXK):
        inst = f"tbyods_{k}"
        ops = [f"eng new {inst} tbyods", f"eng runto {inst} {k}", f"eng dump {inst}", f"eng run {inst}", f"eng dump {inst}"]
        cases.append(engcheck.Case("tbyods", inst, ops, {"inp": {}, "kind": "byods-facts", "k": k, "byods": 1}))
    return progs, mods, cases


def is_run(o):
    return any(o.startswith(f"eng {x} ") for x in ("run", "runp", "runpl", "runpp", "runppl"))


def tagged_module(pid, p, attrs):
    """the module of a program with a `ds`-tagged relation: the tagged relation cannot be loaded (its `rel` field is a FakeVec)"""
    import re
    t = p["t"]
    return "\n".join((f"         {t} => return None," if re.match(rf"\s+{t} => \{{ let v: Vec<", line) else line) for line in eng.rs_module(pid, p, attrs=attrs).split("\n"))


def lat_below(p, got_dump, spec_db):
    """every lattice row of the dump is below the final value of its key; relation tuples are derivable"""
    return None


def oracle(c, p, out):
    spec = engcheck.spec_sets(p, c.meta["inp"])
    inp_sets = {r: {eng.sx_tuple(t) for t in c.meta["inp"].get(r, [])} for r in range(len(p["rels"]))}
    prev_ret = None
    for o, l in zip(c.ops, out):
        if o.startswith("eng runto") or is_run(o):
            if l.startswith("panic") or l in ("bad-op",): return f"`{o}` -> {l}"
            prev_ret = l
        elif o.startswith("eng dump"):
            if not l.startswith("r0:"): return "dump failed: " + l
            sets, _ = engcheck.dump_sets(l)
            for r in range(len(p["rels"])):
                if c.meta.get("byods") == r: continue          # the tagged relation has no readable rows
                got = sets.get(r, set())
                if p["rels"][r].get("lat") and prev_ret == "false":
                    # an interrupted lattice relation holds, per key, some value BELOW the final one: keys must exist in the final relation
                    fkeys = {eng.split_key(t) for t in spec[r]}
                    if not {eng.split_key(t) for t in got} <= fkeys: return f"after an interrupted call: lattice r{r} has a key that the fixed point does not have"
                    continue
                if not got <= spec[r]: return f"after a call returning {prev_ret}: r{r} holds underivable tuples {sorted(got - spec[r])[:4]}"
                if p["rels"][r].get("lat"):
                    if not {eng.split_key(t) for t in inp_sets[r]} <= {eng.split_key(t) for t in got}: return f"an input key of lattice r{r} was lost"
                elif not inp_sets[r] <= got: return f"input tuples of r{r} lost: {sorted(inp_sets[r] - got)[:4]}"
                if prev_ret in ("true", "ok") and got != spec[r]:
                    return f"call returned {prev_ret} but r{r} is not the full fixed point: missing {sorted(spec[r] - got)[:4]}"
    return None


def canon(c, out):
    """the state at an interruption depends on which valid SCC order is followed (petgraph's and the model's may differ):
    intermediate dumps are judged by the oracle only; return values and completed states are compared exactly"""
    if c.meta.get("byods"): return ["<BYODS program: judged by the oracle on the plain relations>" for _ in out]
    if c.meta.get("lat"):
        # with lattices the number of iterations (hence of clock readings) depends on the enumeration order (live reads of improving values):
        # only the completed final state is compared with the model; return values and intermediate states are judged by the oracle
        n = len(out)
        return ["<order-dependent>" if (o.startswith("eng runto") or (o.startswith("eng dump") and i < n - 1)) else l for i, (o, l) in enumerate(zip(c.ops, out))]
    if c.meta.get("kind") == "repeated":
        # after a first interruption the value left behind depends on which valid SCC order was followed, hence so does the number of clock
        # readings the NEXT call needs: only the first return value and the final completing call (return value and state) are compared with
        # the model; every call in between is judged by the oracle alone (false alarm of the thorough tier, see DESIGN.md section 14)
        calls = [i for i, o in enumerate(c.ops) if o.startswith("eng runto") or is_run(o)]
        first, final = calls[0], calls[-1]
        res = []
        for i, (o, l) in enumerate(zip(c.ops, out)):
            if i <= first or i >= final: res.append(l)
            elif i == first + 1 and o.startswith("eng dump"): res.append("<state at interruption>" if out[first] == "false" else l)
            elif out[first] == "false" and (o.startswith("eng runto") or o.startswith("eng dump")): res.append("<order-dependent>")
            else: res.append(l)
        return res
    res, last = [], None
    for o, l in zip(c.ops, out):
        if o.startswith("eng runto") or is_run(o): last = l
        res.append("<state at interruption>" if o.startswith("eng dump") and last == "false" else l)
    return res


def check(tier, replay=None):
    return engcheck.run_property("C14", tier, modules=["AscentVerif.Props.C14", "AscentVerif.Props.C13L", "AscentVerif.Props.C13Agg", "AscentVerif.Props.C13Phys", "AscentVerif.Props.C13PhysAgg", "AscentVerif.Props.C13PhysLat", "AscentVerif.Props.C14PhysPar", "AscentVerif.Props.C14PhysParLat", "AscentVerif.Props.C14PhysParAgg"], theorems=THEOREMS, trusted=TRUSTED, group="c14",
                                 build=build, oracle=oracle, canon=canon, what="run_timeout histories on compiled programs under the virtual clock",
                                 rule="generated programs compiled with #![generate_run_timeout] x inputs x EVERY crash point k = 0..13 (k-th clock reading fires; "
                                      "beyond the last reading the call completes) followed by run(), plus repeated interruptions k1 k2 .. then completion; after "
                                      "each call: tuples must be derivable and inputs kept; `true`/completed calls must leave the naive least model")
