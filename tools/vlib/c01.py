"""C01 — run() computes exactly the least model of the rules over the input facts."""
import os
from . import core, eng, gen, tiec, engcheck, tiea

MODULES = ["AscentVerif.Props.C01", "AscentVerif.Props.TieD", "AscentVerif.Props.C01Plan", "AscentVerif.Props.C01Phys", "AscentVerif.Props.C01PhysPlan"]
THEOREMS = ["versionsBase_eq", "versionsBase_covers", "versionsBase_skips_old", "run_sound", "run_complete", "run_eq_leastModel",
            "run_exit_closed", "run_rows_set", "idxGet_spec", "iterAll_spec", "clause_step", "join_step", "join_step_swapped", "index_selection_eq",
            "index_selection_sound_complete", "reordering_sound", "reordering_sound_evalBody", "head_rows_perm", "head_rows_perm_swapped", "guard_needed", "desugared_needed",
            "runPhys_eq_leastModel", "ixSetsOf_covers", "tc_hyps", "planOk_ixSetsOf", "runPhys_compiled_eq_leastModel"]
TRUSTED = ["Lean 4.33.0 kernel", "axioms: propext, Classical.choice, Quot.sound only (audited per theorem)",
           "statements: Spec/Datalog.lean (Derivable = least model) and Props/C01.lean",
           "tie D: versions_base is re-translated from ascent_mir.rs on every run (tools/rs2lean.py) and proved equal to Engine.versionsBase for all n (Props/TieD.lean versionsBase_eq)",
           "Model/Plan.lean: the plan-level evaluation the generated code really performs (index_get on the index columns chosen by Hir.compileRule, the nested "
           "iter_all / index_get loops of a simple join, the swapped copy of a reorderable rule) is proved to enumerate the same environments as the filter-level "
           "evalBody up to permutation (Props/C01Plan.lean: index_selection_sound_complete, reordering_sound, with the decide-d witnesses guard_needed / desugared_needed); "
           "Hir.compileRule itself is tied to the real compiler's mir_summary by tie A",
           "Model/EnginePhys.lean: the generated code over its PHYSICAL indices (full index + one value-keyed hash index per column set and version, update_indices, "
           "head update through insert_if_not_present, merges with the size-based swaps of C19's index models, plan-directed index_get / iter_all, the empty-relation guard, "
           "the len_estimate choice between the two copies of a reorderable simple join); Props/C01Phys.lean runPhys_eq_leastModel: it computes exactly the least model "
           "(forward simulation onto the nondeterministic engine of Proofs/NDEngine.lean) for desugared, well-scoped rules with a usable plan (planOk: decidable, evaluated by "
           "the driver on every generated program; the count is in the evidence; Props/C01PhysPlan.lean planOk_ixSetsOf PROVES it for the plan and the index sets the compiler "
           "model computes, for every program whose clauses have one argument per column: runPhys_compiled_eq_leastModel); tied by running every tie-B case through it as well (`eng runp`: rows with multiplicities and scc_iters)",
           "model Model/Engine.lean hand-written at MIR level after ascent_mir.rs / ascent_codegen.rs; index lookups are filters "
           "(hash indices themselves: C19); tied by compiling generated programs with the real macros and diffing relation contents "
           "(with multiplicities) and scc_iters against the Lean driver, plus an independent naive least-model oracle (tools/vlib/eng.py)",
           "modelled not verified: rustc, syn/quote parsing, evaluation of the embedded Rust expressions (theorems hold for every "
           "interpretation; the tie uses a small concrete expression language), petgraph's condensation (validated by validOrder)"]


def history(inst, pid, inp):
    """run() on one instance, then the same on a second instance whose Lean side is the physical-index engine model
    (`eng runp`: Model/EnginePhys.lean; for the real code both are run())"""
    ops = []
    for i, op in ((inst, "run"), (inst + "p", "runp")):
        ops += [f"eng new {i} {pid}"] + engcheck.load_ops(i, inp) + [f"eng {op} {i}", f"eng dump {i}", f"eng iters {i}"]
    return ops


def check(tier, replay=None):
    r = core.Report("C01", tier)
    rng = core.SplitMix(core.seed()).fork("ENG")
    if os.environ.get("VERIF_DEV_SKIP_PROOF"):
        proof = core.ProofResult(); core.run(["lake", "build", "driver"], cwd=core.LEAN)
    else:
        proof = core.lean_prove(MODULES, leanchecker=(tier == "thorough"))
        core.require_theorems(proof, THEOREMS)
    r.proof(proof, "lake build AscentVerif.Props.C01 && #audit_module (axioms of every theorem)" + (" && lake env leanchecker" if tier == "thorough" else ""))
    nprog = 24 if tier == "quick" else 120
    ninp = 12 if tier == "quick" else 60
    plist = engcheck.make_programs(rng, nprog - nprog // 4)
    # quota: a quarter of the programs have a recursive multi-head rule with a head relation that only a later stratum reads
    plist += engcheck.make_programs(rng.fork("sidehead"), nprog // 4, genf=lambda g: gen.gen_program(g, {"shape": "sidehead"}), filt=lambda p: len(p["rels"]) >= 4)
    progs = {f"p{i}": p for i, p in enumerate(plist)}
    cases = []
    # forced shape "late-late": a rule with three (four) body clauses over relations of its own recursive stratum whose head tuple has ONE derivation, in which the
    # row of the first clause is already in total while the rows of two LATER clauses become new in the same iteration (semi-naive variant [total, delta, total+delta]):
    #   m(x) <-- a(x);  b(x) <-- m(x);  c(x) <-- m(x);  hit(x) <-- a(x), b(x), c(x);  a(y) <-- hit(x), next(x, y)
    for k in range(3 if tier == "quick" else 8):
        r3 = rng.fork(f"latelate{k}")
        four = k % 3 == 2
        rels = [{"arity": 1}, {"arity": 2}, {"arity": 1}, {"arity": 1}, {"arity": 1}, {"arity": 1}] + ([{"arity": 1}] if four else [])
        X = [("v", 0)]
        body = [("cl", 0, X, []), ("cl", 3, X, []), ("cl", 4, X, [])] + ([("cl", 6, X, [])] if four else [])
        body = [body[0]] + r3.shuffle(body[1:]) if k % 2 == 0 else r3.shuffle(body)
        rules = [{"heads": [(2, [("var", 0)])], "body": [("cl", 0, X, [])]},
                 {"heads": [(3, [("var", 0)])], "body": [("cl", 2, X, [])]},
                 {"heads": [(4, [("var", 0)])], "body": [("cl", 2, X, [])]}] + \
                ([{"heads": [(6, [("var", 0)])], "body": [("cl", 3, X, [])]}] if four else []) + \
                [{"heads": [(5, [("var", 0)])], "body": body},
                 {"heads": [(0, [("var", 1)])], "body": [("cl", 5, X, []), ("cl", 1, [("v", 0), ("v", 1)], [])]}]
        pid = f"ll{k}"
        progs[pid] = {"rels": rels, "rules": rules}
        for j in range(4 if tier == "quick" else 12):
            r4 = r3.fork(f"i{j}")
            n = r4.range(3, 7)
            nxt = [(i, i + 1) for i in range(n)] + [(r4.below(n), r4.below(n + 1)) for _ in range(r4.below(3))]
            inp = {0: [(0,)] + ([(r4.below(n),)] if r4.chance(1, 3) else []), 1: list(dict.fromkeys(nxt))}
            inp[0] = list(dict.fromkeys(inp[0]))
            inst = f"{pid}_{j}"
            cases.append(engcheck.Case(pid, inst, history(inst, pid, inp), {"inp": inp}))
    for ci, (fn, c) in enumerate(core.corpus("C01")):
        pid = f"c{ci}"
        progs[pid] = eng.from_json(c["prog"])
        for j, inp in enumerate(c["inputs"]):
            inp = eng.from_json(inp); inst = f"{pid}_{j}"
            cases.append(engcheck.Case(pid, inst, history(inst, pid, inp), {"inp": inp}))
    # forced shape "delta x delta only": walks of doubling length  walk(x,z,n+m) <-- walk(x,y,n), walk(y,z,m), if n == m  over acyclic graphs: a walk of length 2n has ONE
    # derivation, both halves new in the same iteration while their join keys already have older rows in total (a combined total+delta read must probe both indices)
    dw = {"rels": [{"arity": 2}, {"arity": 3}],
          "rules": [{"heads": [(1, [("var", 0), ("var", 1), 1])], "body": [("cl", 0, [("v", 0), ("v", 1)], [])]},
                    {"heads": [(1, [("var", 0), ("var", 2), ("add", ("var", 3), ("var", 4))])],
                     "body": [("cl", 1, [("v", 0), ("v", 1), ("v", 3)], []), ("cl", 1, [("v", 1), ("v", 2), ("v", 4)], []), ("if", ("eq", ("var", 3), ("var", 4)))]}]}
    progs["lldw"] = dw
    for j in range(4 if tier == "quick" else 12):
        r4 = rng.fork(f"lldw{j}")
        nn = r4.range(5, 9)
        edges = [(i, i + 1) for i in range(nn)]
        for _ in range(r4.below(4)):
            a = r4.below(nn - 1); e = (a, r4.range(a + 2, nn))
            if e not in edges: edges.append(e)
        inp = {0: r4.shuffle(edges)}
        inst = f"lldw_{j}"
        cases.append(engcheck.Case("lldw", inst, history(inst, "lldw", inp), {"inp": inp}))
    for pid, p in progs.items():
        if pid.startswith("c") or pid.startswith("ll"): continue
        for j in range(ninp):
            inp = gen.gen_input(rng.fork(f"{pid}i{j}"), p)
            inst = f"{pid}_{j}"
            cases.append(engcheck.Case(pid, inst, history(inst, pid, inp), {"inp": inp}))
    # forced shapes the random generator does not produce (it draws arities 1..3 and no facts): WIDE relations (arity 6 / 7 / 8, joined on four columns, indices on 4 and 5
    # columns), NULLARY relations (`done()` in heads and bodies: the full index has the unit key), and FACTS (rules without body) feeding a recursive stratum
    for pid, q in gen.forced_programs().items():
        progs[pid] = q
        for j in range(4 if tier == "quick" else 12):
            inp = gen.forced_input(pid, rng.fork(f"{pid}i{j}"), j)
            inst = f"{pid}_{j}"
            cases.append(engcheck.Case(pid, inst, history(inst, pid, inp), {"inp": inp}))
    # re-use of a program value: run(); rows REMOVED from one or two relation vectors (a cleared derived relation, retracted input facts); run() again - the second
    # run() is a run over the facts then present, every index being rebuilt from the vectors.  The Lean side replays the same history (on odd cases over the
    # physical-index model); the oracle is the least model of the rows present before the second run
    for pi, (pid, p) in enumerate(list(progs.items())):
        if pid.startswith("c"): continue
        for j in range(2 if tier == "quick" else 6):
            g = rng.fork(f"reuse{pid}_{j}")
            inp = gen.gen_input(g.fork("i"), p) if not pid.startswith("ll") else next(c.meta["inp"] for c in cases if c.pid == pid)
            heads = sorted({h[0] for rl in p["rules"] for h in rl["heads"]})
            ops, inp2 = engcheck.reuse_history(g, p, f"{pid}_u{j}", pid, inp, run2="runp" if (pi + j) % 2 else "run",  # (scc_iters accumulates over the runs of a value: not compared here)
                                               force_clear=g.choice(heads) if heads and j % 2 == 0 else None)
            cases.append(engcheck.Case(pid, f"{pid}_u{j}", ops, {"inp": inp, "phases": [inp, inp2], "kind": "reuse"}))
    # printer-level sugar on every second program: `if let Some(v) = e` is written `if let at_v @ Some(v) = e` - an `ident @ subpattern` binding; the variables bound INSIDE
    # the sub-pattern are bound by the pattern like any other (a later clause that mentions one is a join on it, not a fresh column)
    at_nm = eng.Names(); at_nm.at_patterns = True
    mods01 = [(pid, eng.rs_module(pid, p, nm=at_nm if k % 2 == 1 else None)) for k, (pid, p) in enumerate(progs.items())]
    r.cov["programs_with_at_patterns"] = sum(1 for k, (pid, p) in enumerate(progs.items()) if k % 2 == 1 and any(c[0] == "iflet" for ru in p["rules"] for it in ru["body"] for c in ([it] + (list(it[3]) if it[0] == "cl" else []))))
    res = engcheck.run_cases(r, "c01", progs, cases, modules=mods01, model=proof.ok or os.path.exists(core.lean_driver()))
    if res is None: return r.finish(TRUSTED)
    outs, (pimpl, pmod) = res
    d = tiec.Decision(r)
    nontrivial = 0
    shapes = {"sccs": {}, "model_size": {}, "iters_max": {}}
    for c, (io, mo) in zip(cases, outs):
        p = progs[c.pid]
        spec = engcheck.spec_sets(p, c.meta["inp"])
        specs = [engcheck.spec_sets(p, i) for i in c.meta.get("phases", [])]
        def oracle(_l, out, spec0=spec, specs=specs, p=p, c=c):
            lines = out.split("\n")
            nd = 0
            for k, o in enumerate(c.ops):
                if not o.startswith("eng dump"): continue
                spec = specs[nd] if specs else spec0
                nd += 1
                dump = lines[k] if k < len(lines) else "no-output"
                if dump.startswith("panic") or not dump.startswith("r0:"): return f"run/dump failed: {dump}"
                sets, mult = engcheck.dump_sets(dump)
                for rel in range(len(p["rels"])):
                    got, exp = sets.get(rel, set()), spec[rel]
                    if got != exp:
                        return f"relation r{rel}: missing {sorted(exp - got)[:5]} unexpected {sorted(got - exp)[:5]} (least model has {len(exp)} tuples)"
            return None
        text = f"eng prog {c.pid} {eng.sx_prog(p)}\n" + "\n".join(c.ops)
        nt = any(len(spec[rel]) > len({eng.sx_tuple(t) for t in c.meta['inp'].get(rel, [])}) for rel in spec)
        d.case(text, "\n".join(io), None if mo is None else "\n".join(mo), oracle, nontrivial=nt)
        its = [int(x) for x in io[-1].split()[1:]] if io[-1].startswith("iters") else []
        k = str(max(its) if its else 0); shapes["iters_max"][k] = shapes["iters_max"].get(k, 0) + 1
        k = str(len(its)); shapes["sccs"][k] = shapes["sccs"].get(k, 0) + 1
    # tie A: the compilation plan (index columns, simple-join detection, reorderability, version vectors, SCC partition, looping flags)
    # of the real macro pipeline vs the model of it (Model/Hir.lean + Engine.variants), for many more programs than rustc can compile
    na = 800 if tier == "quick" else 8000
    alist = engcheck.make_programs(rng.fork("tieA"), na)
    res, log = tiea.run_macro_driver([(f"a{i}", "ascent", tiea.inner_text(eng.rs_program(p))) for i, p in enumerate(alist)])
    if res is None:
        r.violation({"kind": "obligation-broken", "no_longer_checks": ["tie A: the in-process macro driver (ascent_macro --features verif-hooks) does not build/run"], "log": log[-2000:]}, no_input=True)
    elif proof.ok or os.path.exists(core.lean_driver()):
        mout = core.run_model([f"eng prog a{i} {eng.sx_prog(p)}" for i, p in enumerate(alist)] + [f"eng mir a{i}" for i in range(len(alist))])
        # the hypotheses of runPhys_eq_leastModel (usable plan, desugared and well-scoped rules) evaluated on the same programs
        hyp = core.run_model([f"eng prog a{i} {eng.sx_prog(p)}" for i, p in enumerate(alist)] + [f"eng planok a{i}" for i in range(len(alist))])[len(alist):]
        r.cov["phys_theorem_hypotheses_hold_on"] = f"{sum(1 for h in hyp if h == 'planok=true desugared=true wellscoped=true')} of {len(hyp)} generated programs"
        r.cov["phys_theorem_planok_false"] = sum(1 for h in hyp if "planok=false" in h)
        plan_bad, rejected = [], []
        for i, p in enumerate(alist):
            rr = res.get(f"a{i}", {})
            if rr.get("outcome") != "ok": rejected.append({"program": eng.rs_program(p), "outcome": rr.get("outcome")}); continue
            m, real = mout[len(alist) + i][4:], tiea.canon_mir(rr.get("mir") or "")
            if m != real: plan_bad.append({"program": eng.rs_program(p), "model_plan": m, "real_plan": real})
        r.cov["tieA_programs"] = len(alist); r.cov["tieA_plan_mismatches"] = len(plan_bad); r.cov["tieA_rejected"] = len(rejected)
        for x in rejected[:2]:
            r.violation({"kind": "failing-input", "what": "a well-formed generated program is rejected (or panics) in the macro pipeline", **x})
        if plan_bad and not d.failing:
            # a different plan is not by itself a wrong result: compile the offending programs and look for a failing input
            r.violation({"kind": "obligation-broken", "no_longer_checks": [f"tie A: compilation plan of the real pipeline differs from Model/Hir.lean on {len(plan_bad)} programs"],
                         "first_disagreements": plan_bad[:3], "searched": "tie B cases of this run against the naive oracle: none failed"}, no_input=True)
    r.sample({"program": eng.rs_program(plist[0]), "history": cases[0].ops, "impl": outs[0][0]})
    r.cov["programs"] = len(progs)
    r.cov["distribution"] = shapes
    r.cov["rule"] = ("PRNG-generated core programs (3-6 relations, forced linear/non-linear/mutual/chain/diamond recursion, conditions on clauses, "
                     "let / for / if-let items, constants, bound and free columns, head arithmetic) compiled with the real ascent! macro; "
                     "per program several input databases (empty relations, 40-vs-2 size skew); compared: every relation with multiplicities "
                     "and scc_iters (impl vs Lean model) and relation sets vs the naive least-model oracle; non-trivial = the least model "
                     "contains a derived tuple beyond the input")
    d.conclude(proof, "compiled programs vs engine model")
    return r.finish(TRUSTED)
