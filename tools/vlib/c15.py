"""C15 — ill-formed programs are rejected at compile time, never miscompiled; the macros never panic; well-formed programs compile.

Tie A (every tier): generated surface programs and one-violation mutants go through the REAL macro pipeline in process
(ascent_macro/src/verif_driver.rs) and, as check-relevant summaries, through the Lean model `Check.check`.
  * the PROPERTY oracle (independent of the model): a mutant must be answered `err`, a well-formed program `ok`,
    nothing may panic or hang;
  * the CORRESPONDENCE obligation: real outcome class == model outcome (kind by kind, panic site by panic site).
Tie B (thorough tier): a sample is compiled by real rustc (a throw-away crate under harness/c15tb, one binary per program):
well-formed programs must build and run, ill-formed ones must fail with a diagnostic pointing into the program text.
Genuine defects of the real code are listed in KNOWN_FINDINGS.json (FM1..FM12); the class predicate of the one that is still open
(FM10) is `known_class` below.  FM2 (4509942), FM3 (9212d0a), FM4 (361e42e), FM5 (5862f99), FM6 (dfbe0be), FM8 (deae510), FM11 (3a6dc9a) are
repaired: their mutants (`agg-bound-arg`, `malformed-condition`, `use+empty-disjunction`, `agg-bound-arg-missing`, `signature-mismatch`,
`direct-branching-*`, the clause-condition rebinds inside macros) are ordinary ill-formed programs now — rejected with a proper error, kind by
kind equal to the model.  The `direct-branching-*` programs (a macro invoking itself twice per level) are still run in a process of their own
under a generous time limit (`alone`), as a safety net: `hang` is a failure like a panic.
Re-declared relations (`relation r(..); .. relation r(..);`: legal, `dedup_all_keep_last_by` keeps the last copy, model: `Summary.effDecls`): a fixed
quota of the well-formed programs declares one or two relations twice; the declaration-level mutators plant their violation on the LAST copy; forced
mutants put `#[ds(..)]` on a lattice declared behind a duplicated declaration (must be rejected, under every macro), accepted variants put the offending
attribute on a REPLACED copy (must be accepted: such a declaration takes no part in the program).  Counters: cov["redeclared_relations"]."""
import collections, json, os, re, shutil, subprocess, time
from . import core, tiec, c15gen as G, c15tie as T

THEOREMS = ["illFormed_undeclared_rejected", "illFormed_arity_rejected", "illFormed_rebind_rejected", "illFormed_stratification_rejected",
            "illFormed_include_rejected", "illFormed_dsLattice_rejected", "illFormed_twoDs_rejected", "illFormed_unknownAttr_rejected",
            "illFormed_parOnlyAttr_rejected", "self_referential_macro_rejected", "direct_recursive_macro_rejected", "mutual_recursive_macro_rejected",
            "expandItem_succeeds_within_budget", "wellFormedCore_accepted", "accepted_is_wellFormed", "desugar_error_rejected", "self_referential_head_macro_rejected", "check_never_panics", "leftover_panics_unreachable", "dependency_cycle_is_one_class", "stratError_is_illFormedStrat",
            "illFormed_aggBound_rejected", "illFormed_signature_rejected", "illFormed_emptyDisj_rejected", "illFormed_macroEmptyDisj_rejected",
            "hidden_rebind_accepted", "aggBound_shadow_rejected", "aggBound_shadow_order", "aggBound_local_accepted",
            "branchingHeadMacro_rejected", "branchingDisjMacro_rejected", "branchingMacro_later_rejected", "emptyDisj_rejected", "emptyDisj_deep_rejected", "emptyDisj_in_macro_rejected", "aggBoundMissing_rejected",
            "aggBoundMissing_first_rejected", "sigMismatch_rejected",
            "emptyMacro_accepted", "latticeTrailingComma_accepted", "emptyLattice_rejected",
            # re-declared relations (`dedup_all_keep_last_by`): the declaration-level classes speak about `Summary.effDecls`
            "mem_effDecls_iff", "effDecls_sub_decls", "effDecls_eq_decls", "findDecl_effDecls", "illFormed_dsLattice_lastDecl_rejected",
            "wDsLatticeAfterDup_rejected", "wDsLatticeReplaced_accepted", "wDsLatticeReplaced_not_illFormed", "twoDs_dup"]
TRUSTED = ["Lean 4.33.0 kernel", "axioms: propext, Classical.choice, Quot.sound only (audited per theorem)",
           "statement: Props/C15.lean over the model Model/Check.lean (pipeline order of ascent_syntax.rs / ascent_hir.rs / ascent_mir.rs; "
           "no panic of ascent_codegen.rs is reachable); the model is tied to the real pipeline outcome by outcome on every generated program",
           "the text -> summary mapping (tools/vlib/c15gen.py prints both from one tree; `seen`/`hidden` binder variables follow pattern_get_vars)",
           "tie A runs the macro in process where all proc_macro2 spans compare equal: programs whose outcome depends on spans (a binder that crosses the "
           "boundary of a macro with private names) are excluded from tie A and compiled by real rustc in the thorough tier",
           "syn's parser and rustc's handling of `compile_error!` / proc-macro panics are trusted; type errors of the generated code are outside C15",
           "petgraph's condensation is not modelled: the stratification error is decided over the strongly connected classes computed by Engine.reachFrom"]

KNOWN_LINES = {
    "FM1": "a variable rebound through a parenthesised pattern (`let (x) = ..`, `for (x) in ..`, `?Some((x))`, `agg (x) = ..`) is silently accepted: pattern_get_vars has no arm for Pat::Paren",
    "FM7": "the macro panics (`Punctuated::push_punct` in flatten_punctuated) when a macro with an empty body is invoked before a comma inside another macro, a disjunct or a rule head",
    "FM9": "a `lattice` declaration with a trailing comma is rejected with `empty lattice is not allowed` (`empty_or_trailing()` where `is_empty()` was meant); `relation a(i32,);` is accepted",
    "FM10": "the recursion budget also counts disjunction nesting and non-recursive macro chains: 100 nested parentheses or a chain of 100 macros is reported as `recursively defined Ascent macro`",
}


def known_class(m, real, model):
    """the narrow class predicates of the recorded findings: (mutation class, variant) AND the bug-faithful outcome (the model, where a summary exists,
    must predict exactly that outcome)"""
    cls, var = m["class"], m["variant"]
    if model is not None and model != real: return None
    if var in ("disjunction-nesting-100", "macro-chain-100") and real == "err recMacro": return "FM10"
    return None


PANIC_SITE_FINDING = {}       # no panic site of the macro is a recorded open finding any more (FM5, FM6, FM7 are fixed): every panic is a violation
# classes whose single violation is answered by a proper error: used for double mutants (pipeline ORDER of the model)
CLEAN = {"undeclared", "arity", "stratification", "ds-on-lattice", "two-ds", "unknown-attribute", "parallel-only-attribute", "attribute-shape",
         "attribute-on-rule", "macro-use", "agg-bound-arg-missing", "signature-mismatch", "empty-disjunction"}


ALONE_LIMIT_S = 30           # per program run in a process of its own (real pipeline and model): they answer in milliseconds since fix deae510


def judge(expect, real):
    """the property oracle: None = acceptable"""
    if real.startswith("panic"): return "the macro panicked: " + real
    if real == "hang": return f"macro expansion did not terminate within the time limit ({ALONE_LIMIT_S} s for a program run alone)"
    if real == "none": return "no outcome recorded"
    if expect == "err" and not real.startswith("err"): return "an ill-formed program was accepted (macro outcome ok)"
    if expect == "ok" and real != "ok": return "a well-formed program was rejected: " + real
    return None


def build_streams(rng, tier):
    """-> [case dict]: id, kind, text, summary|None, class, variant, pos, expect, faithful, alone"""
    nb = 16 if tier == "quick" else 64
    cases = []
    def add(cid, p, m):
        txt = G.text(p)
        cases.append({"id": cid, "kind": p["kind"], "text": txt, "summary": None if m.get("nosummary") else G.summary(p), "class": m["class"],
                      "variant": m["variant"], "pos": m["pos"], "expect": m["expect"], "faithful": m["faithful"], "alone": m["alone"],
                      "rustc_only": m.get("rustc_only"), "redecl": len(G.replaced_decls(p))})
    bases = []
    for i in range(nb):
        kind = G.KINDS[i % 4]
        feats = {} if i % 8 else {"macros": True, "disj": True}
        # quota: every third program re-declares one or two of its relations (i % 3 and the macro kind i % 4 are independent: all four macros get some);
        # the others do so with chance 1/8
        if i % 3 == 1: feats["redecl"] = 1 + (i // 3) % 2
        p = G.gen_program(rng.fork(f"p{i}"), kind, feats)
        bases.append(p)
        add(f"w{i}", p, G.mutant(p, "wellformed", "base", "-", expect="ok"))
        src = dict(p, kind="ascent_source", attrs=[], sig=None)
        add(f"w{i}s", src, G.mutant(src, "wellformed", "ascent_source", "-", expect="ok"))
        firsts = []
        for j, m in enumerate(G.all_mutants(p, rng)):
            add(f"w{i}m{j}", m["prog"], m)
            if m["class"] in CLEAN and m["faithful"]: firsts.append(m)
        for j, m in enumerate(G.mut_include(p)):
            if tier == "quick" and j % 3: continue
            add(f"w{i}i{j}", m["prog"], m)
        # double mutants: two violations of different classes; the property asks for `err`, the tie for the SAME error kind (pipeline order)
        r2 = rng.fork(f"d{i}")
        for j in range(12 if tier == "quick" else 30):
            if not firsts: break
            m1 = r2.choice(firsts)
            mf = r2.choice([G.mut_undeclared, G.mut_arity, lambda q: G.mut_strat(q, r2), G.mut_ds, G.mut_attrs, G.mut_macro_misc, G.mut_known_shapes])
            seconds = [m2 for m2 in mf(m1["prog"]) if m2["class"] in CLEAN and m2["class"] != m1["class"] and m2["faithful"] and G.syntax_ok(m2["prog"])]
            if not seconds: continue
            m2 = r2.choice(seconds)
            add(f"w{i}d{j}", m2["prog"], G.mutant(m2["prog"], "two-violations", m1["class"] + "+" + m2["class"], m2["pos"]))
    for _, doc in core.corpus("C15"):
        for c in doc.get("cases", []): cases.append(dict(c, id="k_" + c["id"]))
    # malformed token streams (no summary: only "never panics, never hangs")
    rm = rng.fork("malformed")
    pool = list(cases)
    for j in range(1500 if tier == "quick" else 8000):
        c = rm.choice(pool)
        cases.append({"id": f"x{j}", "kind": c["kind"], "text": G.malformed(rm, c["text"]), "summary": None, "class": "malformed-tokens", "variant": "token-edit",
                      "pos": "-", "expect": "any", "faithful": True, "alone": False, "rustc_only": None})
    return bases, cases


def is_alone(c):
    return bool(c.get("alone") or c.get("hazard"))        # `hazard`: the name of the field in replay files written before fix deae510


def run_model(cases):
    """model outcome per case id (`alone`: one process each under the time limit — the model stops at the first error like the real code, so this is a safety net only)"""
    ids = [c["id"] for c in cases if c["summary"] and not is_alone(c)]
    by = {c["id"]: c for c in cases}
    out = dict(zip(ids, core.run_model(["chk " + by[i]["summary"] for i in ids])))
    import threading
    def one(c):
        try:
            p = subprocess.run([core.lean_driver()], input="chk " + c["summary"] + "\n", stdout=subprocess.PIPE, stderr=subprocess.DEVNULL, text=True, timeout=ALONE_LIMIT_S)
            out[c["id"]] = p.stdout.strip() or "none"
        except subprocess.TimeoutExpired:
            out[c["id"]] = "hang"
    ths = [threading.Thread(target=one, args=(c,)) for c in cases if c["summary"] and is_alone(c)]
    for t in ths: t.start()
    for t in ths: t.join()
    return out


def check(tier, replay=None):
    r = core.Report("C15", tier)
    rng = core.SplitMix(core.seed()).fork("C15")
    mods = ["AscentVerif.Props.C15"]
    if os.environ.get("VERIF_DEV_SKIP_PROOF"):
        proof = core.ProofResult(); core.run(["lake", "build", "driver"], cwd=core.LEAN)
    else:
        proof = core.lean_prove(mods, leanchecker=(tier == "thorough"))
        core.require_theorems(proof, THEOREMS)
    r.proof(proof, "lake build " + " ".join(mods) + " && #audit_module (axioms of every theorem)" + (" && lake env leanchecker" if tier == "thorough" else ""))
    exe, log, wall = T.build_driver()
    r.cov["harness_build_s"] = round(wall, 1)
    if exe is None:
        r.violation({"kind": "obligation-broken", "no_longer_checks": ["the in-process macro driver (ascent_macro --features verif-hooks) does not build"], "log": log}, no_input=True)
        return r.finish(TRUSTED)
    if replay:
        pl = json.load(open(replay))
        cases = [dict(pl["case"], id="replay")]
        bases = []
    else:
        bases, cases = build_streams(rng, tier)
    t0 = time.time()
    real = T.run_programs(exe, [(c["id"], c["kind"], c["text"]) for c in cases if not is_alone(c)], [(c["id"], c["kind"], c["text"]) for c in cases if is_alone(c)],
                          alone_timeout=ALONE_LIMIT_S)
    r.cov["programs_run_alone_under_time_limit"] = sum(1 for c in cases if is_alone(c))
    r.cov["tie_a_wall_s"] = round(time.time() - t0, 1)
    model_ok = proof.ok or os.path.exists(core.lean_driver())
    t0 = time.time()
    model = run_model(cases) if model_ok else {}
    r.cov["model_wall_s"] = round(time.time() - t0, 1)
    listed = {k["id"] for k in core.known_for("C15")}
    d = tiec.Decision(r)
    table, kinds, deferred = collections.Counter(), collections.Counter(), 0
    for c in cases:
        rc = T.classify(real.get(c["id"], "none"))
        mo = model.get(c["id"])
        kinds[rc] += 1
        table[f"{c['class']} | {c['variant']} | {c['pos']} | {c['kind']}"] += 1
        if not c["faithful"]:
            deferred += 1       # outcome depends on spans: judged by tie B only
            continue
        text = f"{c['kind']}! {{ {c['text']} }}"
        if c["class"] == "malformed-tokens":
            if rc != "ok" and not rc.startswith("err"):
                fid = PANIC_SITE_FINDING.get(rc)
                if fid in listed: r.known(fid, KNOWN_LINES[fid])
                else: d.failing.append({"input": text, "impl": rc, "model": None, "why": judge("ok", rc), "case": c, "real_message": real.get(c["id"])})
            d.evals += 1
            continue
        def orc(_l, out, c=c): return judge(c["expect"], out)
        def kn(_l, i, m, c=c):
            fid = known_class(c, i, m)
            return (fid, KNOWN_LINES[fid]) if fid in listed else None
        before = len(d.failing)
        d.case(text, rc, mo, orc, known=kn)
        for f in d.failing[before:]: f["case"] = c; f["real_message"] = real.get(c["id"])
        for f in d.corr_mismatch[-1:]:
            if f["input"] == text: f["case"] = c; f["real_message"] = real.get(c["id"])
    r.cov["programs"] = len(cases)
    r.cov["base_programs"] = len(bases)
    r.cov["outcome_kinds"] = dict(sorted(kinds.items()))
    r.cov["class_x_variant_x_position_x_macro"] = dict(sorted(table.items()))
    by_class = collections.Counter(c["class"] for c in cases)
    r.cov["per_class"] = dict(sorted(by_class.items()))
    r.cov["per_macro_kind"] = dict(sorted(collections.Counter(c["kind"] for c in cases).items()))
    r.cov["per_position_kind"] = dict(sorted(collections.Counter(c["pos"] for c in cases).items()))
    r.cov["deferred_to_rustc_span_dependent"] = deferred
    after = [c for c in cases if c["pos"] == "declaration/after-redeclaration"]
    repl = [c for c in cases if c["pos"] == "declaration/replaced"]
    r.cov["redeclared_relations"] = {
        "base_programs_with_a_redeclared_relation": sum(1 for c in cases if c["class"] == "wellformed" and c["variant"] == "base" and c.get("redecl")),
        "base_programs_with_a_redeclared_relation_per_macro": dict(sorted(collections.Counter(
            c["kind"] for c in cases if c["class"] == "wellformed" and c["variant"] == "base" and c.get("redecl")).items())),
        "replaced_declarations_in_base_programs": sum(c.get("redecl", 0) for c in cases if c["class"] == "wellformed" and c["variant"] == "base"),
        "programs_with_a_redeclared_relation": sum(1 for c in cases if c.get("redecl")),
        "forced_ds_on_lattice_after_redeclaration": len(after),
        "forced_ds_on_lattice_after_redeclaration_per_macro": dict(sorted(collections.Counter(c["kind"] for c in after).items())),
        "forced_ds_on_lattice_after_redeclaration_per_variant": dict(sorted(collections.Counter(c["variant"] for c in after).items())),
        "accepted_variants_attribute_on_replaced_declaration": len(repl),
        "accepted_variants_attribute_on_replaced_declaration_per_variant": dict(sorted(collections.Counter(c["variant"] for c in repl).items())),
    }
    r.cov["rule"] = ("well-formed surface programs (relations, lattices, joins, conditions, generators, aggregation, negation, disjunctions, ?patterns, wildcards, multi-head "
                     "rules, body and head macros, ds and program attributes, struct signatures, relations declared more than once) under the four macros and as ascent_source!; one violation planted at every "
                     "position (rule / disjunct / invoked macro body / head / aggregation / negation / declaration / attribute); two-violation programs for the pipeline order; "
                     "token-level corruptions")
    if cases:
        c0 = next((c for c in cases if c["class"] == "rebind"), cases[0])
        r.sample({"program": c0["text"], "summary": c0["summary"], "class": c0["class"], "variant": c0["variant"], "real": real.get(c0["id"]), "model": model.get(c0["id"])})
    notes = [c for c in cases if c["variant"] == "direct-never-invoked"]
    if notes:
        r.notes.append(f"{len(notes)} programs define a self-referential macro that no rule invokes: accepted by the real code and by the model (macros are expanded on use); "
                       "the property is read as 'every self-referential macro reached from an invocation is rejected'")
    if tier == "thorough" and not replay:
        tie_b(r, rng, cases, real, listed, d)
    elif not replay:
        # quick tier: only the six programs whose acceptance rustc alone decides (attributes on relation declarations)
        tie_b(r, rng, cases, real, listed, d, pick=rel_attr_cases())
    n_failing = len({f["input"] for f in d.failing})
    diversify(d)
    d.conclude(proof, "static checks of the macro front end")
    r.cov["impl_vs_spec_failures"] = n_failing
    return r.finish(TRUSTED)


def diversify(d):
    """`Decision.conclude` writes replay files for the `max_replays` SHORTEST failing inputs; when the failures are of several kinds (an ill-formed
    program accepted / a well-formed one rejected / a panic / a hang) the shortest input of every kind is among the ones written"""
    by = collections.OrderedDict()
    for f in sorted(d.failing, key=lambda f: len(f["input"])): by.setdefault((f.get("why") or "").split(":")[0], []).append(f)
    if len(by) < 2: return
    keep = [fs[0] for fs in by.values()][: d.max_replays]
    rest = [f for fs in by.values() for f in fs[1:]]
    rest.sort(key=lambda f: len(f["input"]))
    seen = {f["input"] for f in keep}
    for f in rest:
        if len(keep) >= d.max_replays: break
        if f["input"] not in seen: keep.append(f); seen.add(f["input"])
    d.failing = keep


# ------------------------------------------------------------------ tie B: real rustc

TB = os.path.join(core.VERIF, "harness", "c15tb")

def rs_file(c):
    body = c["text"]
    pre = "#![allow(warnings)]\nuse ascent::*;\nuse ascent::aggregators::*;\n"
    if c["kind"] in ("ascent_run", "ascent_run_par"):
        return pre + f"fn main() {{\n   let _prog = {c['kind']}! {{\n{body}\n   }};\n   println!(\"ran\");\n}}\n"
    name = "Prg" if " struct Prg" in " " + body else "AscentProgram"
    return pre + f"{c['kind']}! {{\n{body}\n}}\nfn main() {{\n   let mut p = {name}::default();\n   p.run();\n   println!(\"ran\");\n}}\n"


REL_ATTR_BASE = """   {a0}relation edge(i32, i32);
   {a1}relation path(i32, i32);
   {a2}lattice best(i32, ascent::Dual<i32>);
   edge(1, 2); edge(2, 3);
   path(x, y) <-- edge(x, y);
   path(x, z) <-- edge(x, y), path(y, z);
   best(x, ascent::Dual(*y)) <-- path(x, y);"""


def rel_attr_cases():
    """attributes on relation / lattice declarations: `ds` is consumed by the macro, everything else is FORWARDED to the generated struct field, where rustc
    rejects what it does not know - whatever the shape of the attribute's path.  Only rustc can decide these (the in-process pipeline answers ok either way)."""
    def mk(i, a0, a1, a2, want, variant):
        return {"id": f"relattr{i}", "kind": "ascent", "text": REL_ATTR_BASE.format(a0=a0, a1=a1, a2=a2), "want": want, "class": "unknown-relation-attribute",
                "variant": variant, "expect": "err" if want == "fail" else "ok", "faithful": True, "summary": "-", "pos": "relation"}
    return [mk(0, "", "", "", "build", "none"),
            mk(1, "#[doc = \"edges\"] ", "#[allow(dead_code)] ", "", "build", "known-attributes"),
            mk(2, "#[bogus_index_hint] ", "", "", "fail", "single-ident"),
            mk(3, "", "#[bogus::index_hint(hash)] ", "", "fail", "path-with-arguments"),
            mk(4, "", "", "#[no_such_tool::keep_sorted] ", "fail", "path-on-lattice"),
            mk(5, "#[rustfmt::skip] #[bogus::a::b] ", "", "", "fail", "three-segment-path")]


def tie_b(r, rng, cases, real, listed, d, pick=None):
    """compile a sample with rustc: one throw-away crate, one binary per program"""
    rb = rng.fork("tieb")
    if pick is not None: return tie_b_build(r, pick, real, listed, d, "tie_b_relation_attributes")
    pick = rel_attr_cases()
    good = [c for c in cases if c["class"] in ("wellformed",) and c["kind"] != "ascent_source"]
    pick += [dict(c, want="build") for c in good[:40]] + [dict(c, want="build") for c in cases if c["id"] == "k_f16"]
    pick += [dict(c, want="build") for c in cases if c["variant"] in ("private-macro-names", "private-name-in-clause-condition")][:8]
    pick += [dict(c, want="build") for c in cases if c["pos"] == "declaration/replaced" and c["kind"] != "ascent_source"][:8]
    bad = [c for c in cases if c["expect"] == "err" and c["summary"] and c["kind"] != "ascent_source" and c["class"] not in ("malformed-tokens",)
           and T.classify(real.get(c["id"], "none")) != "hang"]        # (a hang is already a failure of tie A: do not let rustc run into it as well)
    by = collections.defaultdict(list)
    for c in bad: by[(c["class"], c["variant"].split("-")[0])].append(c)
    for k in sorted(by):
        xs = by[k]
        unf = [c for c in xs if not c["faithful"]]
        for c in (unf[:3] + [rb.choice(xs) for _ in range(3)]): pick.append(dict(c, want="fail"))
    pick += [dict(c, want="fail") for c in cases if c["class"] == "malformed-condition"][:6]
    return tie_b_build(r, pick, real, listed, d, "tie_b")


def tie_b_build(r, pick, real, listed, d, covkey):
    if os.path.exists(TB): shutil.rmtree(TB)
    os.makedirs(os.path.join(TB, "src", "bin"))
    names = {}
    for k, c in enumerate(pick):
        nm = f"p{k}"; names[nm] = c
        open(os.path.join(TB, "src", "bin", nm + ".rs"), "w").write(rs_file(c))
    open(os.path.join(TB, "Cargo.toml"), "w").write(f"""[package]
name = "c15tb"
version = "0.0.0"
edition = "2021"

[workspace]

[dependencies]
ascent = {{ path = "{core.repo_dir()}/ascent" }}

[profile.dev]
opt-level = 0
debug = false
incremental = false
""")
    for cand in (os.path.join(core.repo_dir(), "Cargo.lock"), os.path.join(core.VERIF, "harness", "Cargo.lock.seed")):
        if os.path.exists(cand): shutil.copy(cand, os.path.join(TB, "Cargo.lock")); break
    e = core.env_offline(); e["CARGO_TARGET_DIR"] = core.target_dir() + "-c15"
    t0 = time.time()
    p = subprocess.run(["cargo", "build", "--offline", "--keep-going", "--bins", "--message-format=json", "-j", str(core.NCPU)], cwd=TB, env=e,
                       stdout=subprocess.PIPE, stderr=subprocess.PIPE, text=True, timeout=7200)
    r.cov[covkey + "_build_s"] = round(time.time() - t0, 1)
    built, diags = {}, collections.defaultdict(list)
    for line in p.stdout.splitlines():
        if not line.startswith("{"): continue
        try: m = json.loads(line)
        except ValueError: continue
        tn = m.get("target", {}).get("name")
        if m.get("reason") == "compiler-artifact" and m.get("executable") and tn in names: built[tn] = m["executable"]
        if m.get("reason") == "compiler-message" and tn in names and m["message"].get("level") == "error":
            sp = [s for s in m["message"].get("spans", []) if s.get("is_primary")]
            diags[tn].append((m["message"].get("message", ""), [(s["file_name"], s["line_start"]) for s in sp]))
    stats = collections.Counter()
    for nm, c in sorted(names.items()):
        text = f"{c['kind']}! {{ {c['text']} }}"
        nlines = rs_file(c).count("\n")
        if c["want"] == "build":
            if nm in built:
                try: rc, out = core.run([built[nm]], timeout=30)
                except subprocess.TimeoutExpired: rc, out = -1, "time limit (30 s)"
                if rc == 0 and "ran" in out: stats["well-formed: built and ran"] += 1
                else: d.failing.append({"input": text, "impl": f"rustc: built, run exit {rc}", "model": None, "why": "a well-formed program failed at run time", "case": c})
            else:
                msg = "; ".join(m for m, _ in diags[nm][:2])
                d.failing.append({"input": text, "impl": "rustc: " + msg, "model": None, "why": "a well-formed program does not compile", "case": c})
        else:
            if nm in built:
                fid = known_class(c, "ok", None)
                if fid in listed: r.known(fid, KNOWN_LINES[fid]); stats[f"ill-formed: compiled (known {fid})"] += 1
                else: d.failing.append({"input": text, "impl": "rustc: compiled", "model": None, "why": "an ill-formed program compiles under rustc", "case": c})
            else:
                inside = [1 for m, sps in diags[nm] for f, ln in sps if f.endswith(nm + ".rs") and 1 <= ln <= nlines]
                panicked = [m for m, _ in diags[nm] if "proc macro panicked" in m or "panicked" in m]
                if panicked:
                    fid = known_class(c, T.classify(real.get(c["id"], "none")), None)
                    if fid in listed: r.known(fid, KNOWN_LINES[fid]); stats[f"ill-formed: proc macro panicked (known {fid})"] += 1
                    else: d.failing.append({"input": text, "impl": "rustc: " + panicked[0], "model": None, "why": "the macro panicked under rustc", "case": c})
                elif inside: stats["ill-formed: rejected with a diagnostic inside the program"] += 1
                else: d.failing.append({"input": text, "impl": "rustc: " + "; ".join(m for m, _ in diags[nm][:2]), "model": None,
                                        "why": "rejected, but no diagnostic points into the program text", "case": c})
        d.evals += 1
    r.cov[covkey] = dict(sorted(stats.items()))
    r.cov[covkey + "_programs"] = len(pick)
    shutil.rmtree(TB, ignore_errors=True)
