"""Shared driver of the engine properties (tie B): programs x histories through the real generated code,
the Lean engine model and the independent naive oracle."""
import json, os
from . import core, eng, gen, tieb, tiec


def make_programs(rng, n, genf=None, filt=None):
    progs = []
    tries = 0
    while len(progs) < n and tries < n * 50:
        tries += 1
        p = (genf or gen.gen_program)(rng.fork(f"p{tries}"))
        if filt and not filt(p): continue
        progs.append(p)
    return progs


class Case:
    """one history on one instance of one program"""
    def __init__(self, pid, inst, ops, meta=None):
        self.pid, self.inst, self.ops, self.meta = pid, inst, ops, meta or {}


def load_ops(inst, inp):
    return [f"eng load {inst} r{r}" + "".join(" " + eng.sx_tuple(t) for t in rows) for r, rows in sorted(inp.items())]


def run_cases(report, group, progs, cases, modules=None, model=True, nbins=8):
    """progs: {pid: prog}; cases: [Case]. Returns per-case (impl_outputs, model_outputs) or None after reporting a broken build."""
    mods = modules or [(pid, eng.rs_module(pid, p)) for pid, p in progs.items()]
    bins, log, wall = tieb.build(group, mods, nbins=nbins)
    report.cov["harness_build_s"] = round(report.cov.get("harness_build_s", 0) + wall, 1)
    if bins is None:
        report.violation({"kind": "obligation-broken", "no_longer_checks": [f"generated programs of group {group} do not compile against the repository"],
                          "log": log[-3000:]}, no_input=True)
        return None
    lines, pids = [], []
    for pid, p in progs.items():
        lines.append(f"eng prog {pid} {eng.sx_prog(p)}"); pids.append(pid)
    spans = []
    for c in cases:
        a = len(lines)
        for o in c.ops:
            lines.append(o); pids.append(c.pid)
        spans.append((a, len(lines)))
    impl = [canon_iters(x) for x in tieb.run_impl(bins, lines, pids)]
    mod = [canon_iters(x) for x in core.run_model(lines)] if model else None
    return [(impl[a:b], mod[a:b] if mod is not None else None) for a, b in spans], (impl[:len(progs)], mod[:len(progs)] if mod else None)


def dump_sets(dump):
    """{rel: set(tuple text)} and {rel: {tuple: mult}}"""
    d = eng.parse_dump(dump)
    return {r: set(m) for r, m in d.items()}, d


def spec_sets(p, inp):
    db = eng.naive_model(p, inp)
    return {r: {eng.sx_tuple(t) for t in db.get(r, ())} for r in range(len(p["rels"]))}


def canon_iters(line):
    """scc_iters are per SCC in processing order; petgraph's and the model's (both valid) topological orders may differ,
    so the counts are compared as a multiset"""
    if line.startswith("iters"):
        return "iters " + " ".join(map(str, sorted(int(x) for x in line.split()[1:])))
    return line
