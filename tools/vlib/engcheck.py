"""Shared driver of the engine properties (tie B): programs x histories through the real generated code,
the Lean engine model and the independent naive oracle."""
import json, os
from . import core, eng, gen, tieb, tiec


def make_programs(rng, n, genf=None, filt=None):
    progs = []
    tries = 0
    while len(progs) < n and tries < n * 50:
        tries += 1
        p = (genf or gen.gen_program)(rng.fork(f"p{tries}"))
        if filt and not filt(p): continue
        progs.append(p)
    return progs


class Case:
    """one history on one instance of one program"""
    def __init__(self, pid, inst, ops, meta=None):
        self.pid, self.inst, self.ops, self.meta = pid, inst, ops, meta or {}


def load_ops(inst, inp):
    return [f"eng load {inst} r{r}" + "".join(" " + eng.sx_tuple(t) for t in rows) for r, rows in sorted(inp.items())]


def run_cases(report, group, progs, cases, modules=None, model=True, nbins=8):
    """progs: {pid: prog}; cases: [Case]. Returns per-case (impl_outputs, model_outputs) or None after reporting a broken build."""
    mods = modules or [(pid, eng.rs_module(pid, p)) for pid, p in progs.items()]
    bins, log, wall = tieb.build(group, mods, nbins=nbins)
    report._bins = bins
    report.cov["harness_build_s"] = round(report.cov.get("harness_build_s", 0) + wall, 1)
    if bins is None:
        tieb.report_build_failure(report, group, mods, log)
        return None
    lines, pids = [], []
    for pid, p in progs.items():
        lines.append(f"eng prog {pid} {eng.sx_prog(p)}"); pids.append(pid)
    spans = []
    for c in cases:
        a = len(lines)
        for o in c.ops:
            lines.append(o); pids.append(c.pid)
        spans.append((a, len(lines)))
    impl = [canon_iters(x) for x in tieb.run_impl(bins, lines, pids)]
    mod = None
    if model:
        # cases marked `no_model` (too large for the executable model) are not sent to the Lean driver
        skip = set()
        for c, (a, b) in zip(cases, spans):
            if c.meta.get("no_model"): skip.update(range(a, b))
        keep = [i for i in range(len(lines)) if i not in skip]
        mo = [canon_iters(x) for x in core.run_model([lines[i] for i in keep])]
        mod = ["<not modelled>"] * len(lines)
        for i, o in zip(keep, mo): mod[i] = o
    return [(impl[a:b], mod[a:b] if mod is not None else None) for a, b in spans], (impl[:len(progs)], mod[:len(progs)] if mod else None)


def dump_sets(dump):
    """{rel: set(tuple text)} and {rel: {tuple: mult}}"""
    d = eng.parse_dump(dump)
    return {r: set(m) for r, m in d.items()}, d


_SPEC_CACHE = {}


def spec_sets(p, inp):
    key = (id(p), repr(sorted((r, tuple(rows)) for r, rows in inp.items())))
    if key not in _SPEC_CACHE:
        db = eng.naive_model(p, inp)
        _SPEC_CACHE[key] = (p, {r: {eng.sx_tuple(t) for t in db.get(r, ())} for r in range(len(p["rels"]))})
    return _SPEC_CACHE[key][1]


def canon_iters(line):
    """scc_iters are per SCC in processing order; petgraph's and the model's (both valid) topological orders may differ,
    so the counts are compared as a multiset"""
    if line is None: return "no-output"
    if line.startswith("iters"):
        return "iters " + " ".join(map(str, sorted(int(x) for x in line.split()[1:])))
    return line


def run_property(pid_prop, tier, *, modules, theorems, trusted, group, build, oracle, rule, what, known=None, replay=None, nbins=8, canon=None, extra=None):
    """common skeleton of the tie-B checks.
    build(rng, tier) -> (progs {pid: prog}, rust modules [(pid, text)] or None, cases [Case])
    oracle(case, prog, out_lines) -> None | why   (the property, decided without the Lean model)"""
    r = core.Report(pid_prop, tier)
    rng = core.SplitMix(core.seed()).fork("ENG")
    if os.environ.get("VERIF_DEV_SKIP_PROOF"):
        proof = core.ProofResult(); core.run(["lake", "build", "driver"], cwd=core.LEAN)
    else:
        proof = core.lean_prove(modules, leanchecker=(tier == "thorough"))
        core.require_theorems(proof, theorems)
    r.proof(proof, "lake build " + " ".join(modules) + " && #audit_module (axioms of every theorem)" + (" && lake env leanchecker" if tier == "thorough" else ""))
    progs, mods, cases = build(rng, tier if proof.ok else "thorough")
    res = run_cases(r, group, progs, cases, modules=mods, model=proof.ok or os.path.exists(core.lean_driver()), nbins=nbins)
    if res is None: return r.finish(trusted)
    outs, _ = res
    d = tiec.Decision(r)
    hist = {}
    for c, (io, mo) in zip(cases, outs):
        p = progs[c.pid]
        text = f"eng prog {c.pid} {eng.sx_prog(p)}\n" + "\n".join(c.ops)
        def orc(_l, out, c=c, p=p):
            return oracle(c, p, out.split("\n"))
        if canon:
            io_c, mo_c = canon(c, io), (canon(c, mo) if mo is not None else None)
        else:
            io_c, mo_c = io, mo
        kn = (lambda _l, i, m, c=c, p=p: known(c, p, i.split("\n"), None if m is None else m.split("\n"))) if known else None
        full = "\n".join(io)
        def orc2(_l, out, orc=orc, full=full, io_c=io_c):
            # the oracle always judges the implementation's full output; the model's (canonicalised) output is judged as is
            return orc(_l, full) if out == "\n".join(io_c) else None
        d.case(text, "\n".join(io_c), None if mo_c is None else "\n".join(mo_c), orc2 if canon else orc, nontrivial=c.meta.get("nontrivial", True), known=kn)
        k = c.meta.get("kind", "case"); hist[k] = hist.get(k, 0) + 1
    if cases:
        r.sample({"program": eng.rs_program(progs[cases[0].pid]), "history": cases[0].ops, "impl": outs[0][0]})
    if extra: extra(r, d, progs, getattr(r, "_bins", None), tier)
    r.cov["programs"] = len(progs)
    r.cov["case_kinds"] = hist
    r.cov["rule"] = rule
    d.conclude(proof, what)
    return r.finish(trusted)


def std_history(inst, pid, inp, extra=()):
    return [f"eng new {inst} {pid}"] + load_ops(inst, inp) + [f"eng run {inst}", f"eng dump {inst}"] + list(extra)


def reuse_history(rng, p, inst, pid, inp, run2="run", tail=(), force_clear=None, force_sub=None):
    """run(); REPLACE the row vector of one or two relations by a sub-list of the rows the first run left there (a cleared derived relation, retracted
    input facts, ...); run() again on the same program value.  The second run is a run() over the facts then present, so its result is the least model of
    those rows (every index is rebuilt from the relation vectors at the start of run()).  Returns (ops, second input)."""
    db1 = eng.naive_model(p, inp)
    inp2 = {r: sorted(db1.get(r, ())) for r in range(len(p["rels"]))}
    cands = [r for r in inp2 if inp2[r]]
    chosen = rng.shuffle(cands)[: rng.range(1, 2)] if cands else []
    for f in (force_sub, force_clear):
        if f is not None and f in cands and f not in chosen: chosen = [f] + chosen[:1]
    edits = {}
    for r in chosen:
        keep = [] if (rng.chance(1, 3) or r == force_clear) else [t for t in rng.shuffle(inp2[r]) if rng.chance(1, 2)]
        inp2[r] = keep; edits[r] = keep
    ops = [f"eng new {inst} {pid}"] + load_ops(inst, inp) + [f"eng run {inst}", f"eng dump {inst}"] + load_ops(inst, edits) + [f"eng {run2} {inst}", f"eng dump {inst}"] + list(tail)
    return ops, inp2


def check_sets(p, dump, spec):
    if not dump.startswith("r0:"): return f"run/dump failed: {dump}"
    sets, mult = dump_sets(dump)
    for rel in range(len(p["rels"])):
        got, exp = sets.get(rel, set()), spec[rel]
        if got != exp:
            return f"relation r{rel}: missing {sorted(exp - got)[:5]} unexpected {sorted(got - exp)[:5]} (expected {len(exp)} tuples)"
    return None
