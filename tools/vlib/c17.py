"""C17 — library aggregators compute their mathematical definition and are total."""
import itertools, math
from fractions import Fraction
from . import core, tiec

THEOREMS = ["aggMin_eq_none_iff", "aggMin_spec", "aggMin_perm", "aggMax_eq_none_iff", "aggMax_spec", "aggMax_perm",
            "aggSum_eq_sum", "aggSum_perm", "aggCount_eq_len", "aggMean_eq_none_iff", "aggMean_spec", "aggMean_perm",
            "aggNot_length", "aggPercentile_eq_none_iff", "aggPercentile_spec", "aggPercentile_perm", "pIndex_lt",
            "pIndex_mono", "aggPercentile_zero", "aggPercentile_hundred", "prefix_percentile_hundred_panics",
            "prefix_agrees_below_hundred"]
# p values for which len * p / 100 is computed exactly in f64 (p dyadic, products small)
PS = [(0, 1), (1, 2), (1, 1), (25, 2), (25, 1), (33, 1), (50, 1), (66, 1), (75, 1), (99, 1), (199, 2), (100, 1)]
TRUSTED = ["Lean 4.33.0 kernel", "axioms: propext, Classical.choice, Quot.sound only (audited per theorem)",
           "statement of Props/C17.lean", "tie C: harness/ds (Rust) + Lean driver + tools/vlib/c17.py oracle",
           "modelled not verified: f64 arithmetic in mean/percentile (tie restricted to exactly representable cases), "
           "Iterator::min/max/sum/sort of std, integer overflow in sum (mathematical integers in the model)"]


def gen(tier, rng):
    lines = []
    maxlen = 4 if tier == "quick" else 6
    lists = [list(t) for n in range(maxlen + 1) for t in itertools.product(range(4), repeat=n)]
    nrand = 300 if tier == "quick" else 5000
    for _ in range(nrand):
        n = rng.choice([0, 1, 2, 3, 5, 8, 13, 40, 100, 200]) if rng.chance(1, 3) else rng.range(0, 30)
        span = rng.choice([1, 3, 10, 1000, 10 ** 6])
        lists.append([rng.range(-span, span) for _ in range(n)])
    # long columns (block sizes of any chunked / pairwise implementation: around 2^k, and far from it), increasing values so that
    # the average of a tail block differs from the rest
    longs = []
    for n in ([1023, 1025, 2049, 5000] if tier == "quick" else [255, 257, 511, 513, 1023, 1024, 1025, 2047, 2049, 3000, 4097, 8193, 10000, 20001]):
        longs.append(list(range(n)))
        longs.append(rng.shuffle([rng.range(-1000, 1000) + (i // 64) * 7 for i in range(n)]))
    lists += longs
    for l in lists:
        vs = " ".join(map(str, l))
        for op in ("min", "max", "sum", "mean"):
            lines.append(f"agg {op} {vs}".rstrip())
    plists = lists if tier == "thorough" else lists[:: 3] + lists[-nrand - len(longs):]
    for l in plists:
        vs = " ".join(map(str, l))
        for (pn, pd) in PS:
            lines.append(f"agg percentile {pn} {pd} {vs}".rstrip())
    # every integral p in [0,100] against input sizes for which len * p / 100 is an exact integer for many p
    # (f64: len * p is exact and the division is correctly rounded, so the real code's index is the exact floor)
    sizes = [10, 20, 50, 100] if tier == "quick" else [10, 20, 25, 40, 50, 90, 100, 150, 200]
    for n in sizes:
        vals = rng.shuffle(list(range(n)))
        vs = " ".join(map(str, vals))
        for pn in range(0, 101):
            lines.append(f"agg percentile {pn} 1 {vs}")
    # `mean` over columns of NARROW numeric types whose elements fit the type while their sum does not (u8 200+100+150, i32 3 x 2^30, ...): the mean is defined on the
    # values (each converted to f64), not on a sum in the column's type
    BOUNDS = {"u8": (0, 255), "i8": (-128, 127), "u16": (0, 65535), "i16": (-32768, 32767), "u32": (0, 2 ** 32 - 1), "i32": (-2 ** 31, 2 ** 31 - 1)}
    for ty, (lo, hi) in BOUNDS.items():
        for k in range(6 if tier == "quick" else 40):
            g = rng.fork(f"meant{ty}{k}")
            n = g.choice([2, 3, 4, 8, 17])
            vals = [g.choice([hi, hi - 1, hi - g.below(50), lo, lo + g.below(50), g.range(lo, hi), hi // 2 + g.below(40)]) for _ in range(n)]
            if k == 0: vals = [hi, hi, hi]
            if k == 1 and lo < 0: vals = [lo, lo, lo, lo]
            lines.append(f"agg mean_t {ty} " + " ".join(map(str, vals)))
    lines.append("agg mean " + " ".join(["1073741824"] * 3))
    lines.append("agg mean " + " ".join(["-1073741824"] * 5 + ["7"]))
    # ONE aggregator value applied to several groups in turn (the generated code builds `percentile(p)` per evaluation of the aggregation
    # clause's enclosing bindings and a user may hold one closure for many groups): the result for a group depends on that group alone
    for k in range(40 if tier == "quick" else 400):
        g = rng.fork(f"pseq{k}")
        pn, pd = g.choice(PS)
        groups = []
        for _ in range(g.range(2, 6)):
            n = g.choice([0, 0, 1, 1, 2, 3, 5, 8, 13])
            span = g.choice([3, 10, 1000])
            groups.append(" ".join(str(g.range(-span, span)) for _ in range(n)))
        lines.append(f"agg percentile_seq {pn} {pd} " + " / ".join(groups))
    for n in list(range(0, 6)) + [17, 64]:
        lines.append(f"agg not {n}")
        hints = {(n, str(n)), (n, "none"), (0, "none"), (0, str(n)), (n, str(n + 3)), (0, str(n + 1)), (max(0, n - 1), str(n)),
                 (max(0, n - 1), str(n + 1)), (0, "0") if n == 0 else (0, str(2 * n))}
        for lo, hi in sorted(hints):
            lines.append(f"agg count {n} {lo} {hi}")
    return lines


def canon(line, out):
    """mean: compare as floats computed by correctly rounded division"""
    t = out.split()
    if t and t[0] == "frac":
        return "float " + repr(int(t[1]) / int(t[2]))
    return out


def oracle(line, out):
    """the property itself, independent of the Lean model"""
    t = line.split()
    op, args = t[1], t[2:]
    if out == "panic":
        return "panics (aggregators must be total)"
    if op == "mean_t":
        op, args = "mean", args[1:]
    if op in ("min", "max", "sum", "mean"):
        l = [int(x) for x in args]
        if op == "sum":
            exp = str(sum(l))
        elif not l:
            exp = "none"
        elif op == "min":
            exp = f"some {min(l)}"
        elif op == "max":
            exp = f"some {max(l)}"
        else:
            exp = "float " + repr(sum(l) / len(l))
        return None if out == exp else f"expected {exp}"
    if op == "not":
        return None if out == ("1" if int(args[0]) == 0 else "0") else "not() must yield one unit iff the input is empty"
    if op == "count":
        return None if out == args[0] else f"expected cardinality {args[0]}"
    if op == "percentile_seq":
        pn, pd = args[0], args[1]
        groups, cur = [], []
        for a in args[2:]:
            if a == "/":
                groups.append(cur); cur = []
            else:
                cur.append(a)
        groups.append(cur)
        outs = out.split(" ; ")
        if len(outs) != len(groups):
            return f"expected {len(groups)} results"
        for i, (g, o) in enumerate(zip(groups, outs)):
            w = oracle(" ".join(["agg", "percentile", pn, pd] + g), o)
            if w: return f"group {i} of one aggregator value applied to several groups: {w}"
        return None
    if op == "percentile":
        pn, pd = int(args[0]), int(args[1])
        l = sorted(int(x) for x in args[2:])
        if not l:
            return None if out == "none" else "expected nothing on empty input"
        if not out.startswith("some "):
            return "expected an element of the input"
        x = int(out.split()[1])
        n = len(l)
        p = Fraction(pn, pd) / 100
        cl = lambda i: max(0, min(n - 1, i))
        idxs = {cl(math.floor(n * p) - 1), cl(math.floor(n * p)), cl(math.floor((n - 1) * p)), cl(math.ceil((n - 1) * p))}
        if x not in l:
            return "result is not an element of the input"
        if x not in {l[i] for i in idxs}:
            return f"rank not prescribed by p: accepted sorted positions {sorted(idxs)}"
        return None
    return "unknown op"


CONVENTIONS = {
    "floor(n*p/100) clamped": lambda n, p: max(0, min(n - 1, math.floor(n * p))),
    "ceil(n*p/100)-1 clamped": lambda n, p: max(0, min(n - 1, math.ceil(n * p) - 1)),
    "floor((n-1)*p/100)": lambda n, p: math.floor((n - 1) * p),
    "ceil((n-1)*p/100)": lambda n, p: math.ceil((n - 1) * p),
    "round((n-1)*p/100)": lambda n, p: math.floor((n - 1) * p + Fraction(1, 2)),
}


def rank_consistency(cases):
    """'the rank prescribed by p': whatever rank convention the implementation follows, it must follow ONE
    convention on all inputs.  Returns (convention, [cases deviating from the best-matching convention])."""
    best, best_bad = None, None
    for name, f in CONVENTIONS.items():
        bad = []
        for line, out in cases:
            a = line.split()[2:]
            l = sorted(int(x) for x in a[2:])
            if not l or not out.startswith("some "):
                continue
            if int(out.split()[1]) != l[f(len(l), Fraction(int(a[0]), int(a[1])) / 100)]:
                bad.append((line, out, name))
        if best_bad is None or len(bad) < len(best_bad):
            best, best_bad = name, bad
    return best, best_bad or []


def check(tier, replay=None):
    r = core.Report("C17", tier)
    rng = core.SplitMix(core.seed()).fork("C17")
    proof = core.lean_prove("AscentVerif.Props.C17", leanchecker=(tier == "thorough"))
    core.require_theorems(proof, THEOREMS)
    r.proof(proof, "lake build AscentVerif.Props.C17 && lake env lean .audit/C17.lean (#audit_module: axioms of every theorem)"
            + (" && lake env leanchecker AscentVerif.Props.C17" if tier == "thorough" else ""))
    binary, blog = tiec.build_ds(r)
    if binary is None:
        r.violation({"kind": "obligation-broken", "no_longer_checks": ["harness/ds does not build against the repository"],
                     "log": blog[-2000:]}, no_input=True)
        return r.finish(TRUSTED)
    lines = []
    for fn, c in core.corpus("C17"):
        lines += c["ops"]
    ncorpus = len(lines)
    if replay:
        import json
        lines = [json.load(open(replay)).get("input")]
    else:
        lines += gen(tier if proof.ok else "thorough", rng)
    model_ok = proof.ok or _driver_usable()
    rc, impl, model, err = tiec.run_both(binary, lines, model_ok)
    d = tiec.Decision(r)
    if len(impl) != len(lines) or (model is not None and len(model) != len(lines)):
        r.violation({"kind": "obligation-broken", "no_longer_checks": [f"harness/model output length impl={len(impl)} model={None if model is None else len(model)} ops={len(lines)} rc={rc}"], "stderr": err[-800:]}, no_input=True)
        return r.finish(TRUSTED)
    hist = {}
    pcases = [(l, o) for l, o in zip(lines, impl) if l.startswith("agg percentile ")]
    conv, deviating = rank_consistency(pcases)
    r.cov["percentile_rank_convention_followed"] = conv
    deviating = {l: (o, c) for l, o, c in deviating}
    orc = lambda line, out: (oracle(line, out) or (f"rank deviates from the convention `{deviating[line][1]}` that the implementation follows on the other "
                             f"{len(pcases) - len(deviating)} percentile cases" if line in deviating and out == deviating[line][0] else None))
    for i, line in enumerate(lines):
        m = canon(line, model[i]) if model is not None else None
        op = line.split()[1]
        hist[op] = hist.get(op, 0) + 1
        nontriv = len(line.split()) > 3
        d.case(line, impl[i], m, orc, nontrivial=nontriv)
        if i % 997 == 0:
            r.sample({"op": line, "impl": impl[i], "model": m})
    r.cov["op_histogram"] = hist
    r.cov["corpus_cases"] = ncorpus
    r.cov["rule"] = ("every list over {0..3} up to length 4 (quick) / 6 (thorough) plus PRNG lists up to 200 elements, each under "
                     "min/max/sum/mean and 12 values of p incl. 0 and 100; count under 9 size_hint shapes; non-trivial = distinct op "
                     "line with at least two input elements")
    d.conclude(proof, "aggregators")
    return r.finish(TRUSTED)


def _driver_usable():
    import os
    return os.path.exists(core.lean_driver())
