#!/bin/bash
# wave_try.sh <seeded-name> [check ids...]   — run the quick check(s) of a confirmed seeded change against a scratch worktree with the
# patch applied, from a separate clone of /verif (VM, default /tmp/vm) so that work in /verif is not disturbed. Prints rc and VIOLATION lines.
set -u
NAME=$1; shift
VM=${VM:-/tmp/vm}
WT=${WT:-/tmp/vm_wt}
IDS=${@:-${NAME%%_*}}
[ -d $WT ] || git -C /repo worktree add -q --detach $WT HEAD || exit 2
(cd $WT && git checkout -q --detach $(git -C /repo rev-parse HEAD) && git checkout -q -- . && git clean -fdq && cp /repo/Cargo.lock .)
(cd $WT && git apply /verif/seeded/$NAME/patch.diff) || { echo "patch does not apply"; exit 2; }
mkdir -p $VM/work/logs
for id in $IDS; do
  LOG=$VM/work/logs/wave_${NAME}_$id.log
  (cd $VM && VERIF_REPO_DIR=$WT timeout 3600 ./check $id --tier quick > $LOG 2>&1); rc=$?
  echo "$NAME: check $id rc=$rc violations=$(grep -c '^VIOLATION' $LOG) nofail=$(grep -c 'no-failing-input-found' $LOG)"
  grep '^VIOLATION' $LOG | head -3
done
(cd $WT && git checkout -q -- .)
(cd $VM && git checkout -q -- evidence 2>/dev/null)
