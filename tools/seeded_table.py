#!/usr/bin/env python3
"""prints the DESIGN.md §15 table rows of one wave of seeded changes: tools/seeded_table.py _r8_ caught.json
(caught.json: {"<property id>": "<caught-by text>"})"""
import json, os, sys, glob
wave, caught = sys.argv[1], json.load(open(sys.argv[2]))
root = os.path.join(os.path.dirname(os.path.abspath(__file__)), "..", "seeded")
print("| Seeded change | Needs, to manifest | Caught by (quick tier) |\n|---|---|---|")
for d in sorted(glob.glob(os.path.join(root, f"C??{wave}*"))):
    name = os.path.basename(d)
    m = json.load(open(os.path.join(d, "meta.json")))
    esc = lambda s: " ".join(str(s).split()).replace("|", "\\|")
    print(f"| {name} ({esc(m.get('summary', ''))[:330]}) | {esc(m.get('needs_to_manifest', ''))[:300]} | {caught.get(name[:3], '?')} |")
