#!/usr/bin/env bash
# Self-test of tie D: single-arm mutations of the Rust sources must break `lake build AscentVerif.Props.TieD`
# (or make the translator refuse with status 2); the unmodified source, and a behaviour-preserving
# rewrite, must pass.  Everything happens in /tmp/proof/tied/scratch, which is deleted at the end.
#
# usage: tools/rs2lean_selftest.sh [REPO]      (REPO defaults to /repo)
set -u
ROOT="$(cd "$(dirname "$0")/.." && pwd)"
REPO="${1:-/repo}"
SCR="$ROOT/scratch"
TOOL="$ROOT/tools/rs2lean.py"
FILES="ascent_base/src/lattice.rs ascent_base/src/lattice/constant_propagation.rs ascent_base/src/lattice/product.rs ascent_base/src/lattice/dual.rs ascent_macro/src/ascent_mir.rs"
CP=ascent_base/src/lattice/constant_propagation.rs
PR=ascent_base/src/lattice/product.rs
LT=ascent_base/src/lattice.rs
MIR=ascent_macro/src/ascent_mir.rs
DU=ascent_base/src/lattice/dual.rs

rm -rf "$SCR"
mkdir -p "$SCR/pristine" "$SCR/repo"
for f in $FILES; do mkdir -p "$SCR/pristine/$(dirname "$f")"; cp "$REPO/$f" "$SCR/pristine/$f"; done
cp -a "$ROOT/lean" "$SCR/lean"          # with .lake, so that the builds are incremental
GEN="$SCR/lean/AscentVerif/Generated"
fails=0

reset_repo() { rm -rf "$SCR/repo"; cp -a "$SCR/pristine" "$SCR/repo"; }

# regenerate + build in the scratch project; prints PASS / FAIL(build) / REFUSED(tool)
regen_build() {
  python3 "$TOOL" --repo "$SCR/repo" --out "$GEN" >"$SCR/tool.log" 2>&1
  local st=$?
  if [ $st -eq 2 ]; then echo "REFUSED"; return; fi
  if [ $st -ne 0 ]; then echo "TOOLCRASH"; return; fi
  if (cd "$SCR/lean" && lake build AscentVerif.Props.TieD >"$SCR/build.log" 2>&1); then echo "PASS"; else echo "FAIL"; fi
}

# mutate NAME EXPECT FILE SED-SCRIPT : EXPECT is `caught` (build FAILs or tool REFUSES) or `pass`
mutate() {
  local name="$1" expect="$2" file="$3" script="$4"
  reset_repo
  sed -i "$script" "$SCR/repo/$file"
  if cmp -s "$SCR/repo/$file" "$SCR/pristine/$file"; then
    echo "ERROR   $name: the sed script did not change $file"; fails=$((fails+1)); return
  fi
  local res; res=$(regen_build)
  local detail=""
  case "$res" in
    FAIL)    detail=$(grep -m1 -E '^error:.*TieD\.lean|^error: .*\.lean' "$SCR/build.log" | sed "s#$SCR/##" | cut -c1-150) ;;
    REFUSED) detail=$(grep -m1 'unsupported construct' "$SCR/tool.log" | cut -c1-170) ;;
  esac
  local ok=no
  if [ "$expect" = caught ] && { [ "$res" = FAIL ] || [ "$res" = REFUSED ]; }; then ok=yes; fi
  if [ "$expect" = pass ] && [ "$res" = PASS ]; then ok=yes; fi
  if [ $ok = yes ]; then echo "ok      $name: $res (expected: $expect)  $detail"
  else echo "WRONG   $name: $res (expected: $expect)"; fails=$((fails+1)); fi
}

echo "== baseline: unmodified source"
reset_repo
res=$(regen_build)
echo "baseline: $res"; [ "$res" = PASS ] || { fails=$((fails+1)); cat "$SCR/tool.log" "$SCR/build.log" 2>/dev/null | tail -20; }
mkdir -p "$SCR/gen2"
python3 "$TOOL" --repo "$SCR/repo" --out "$SCR/gen2" >/dev/null 2>&1
if diff -r "$GEN" "$SCR/gen2" >/dev/null && diff -r "$GEN" "$ROOT/lean/AscentVerif/Generated" >/dev/null; then
  echo "deterministic: two runs and the checked-in Generated/ are byte-identical"
else echo "ERROR   regenerated files differ between runs or from lean/AscentVerif/Generated"; fails=$((fails+1)); fi

echo "== mutations (one at a time)"
mutate "ConstProp join_mut: guarded arm '=> false' to '=> true'" caught $CP \
  '/fn join_mut/,/^   }/ s/(Constant(x), Constant(y)) if x == &y => false/(Constant(x), Constant(y)) if x == \&y => true/'
mutate "ConstProp meet_mut: '*this = Bottom' to '*this = Top'" caught $CP \
  '/fn meet_mut/,/^   }/ s/\*this = Bottom;/*this = Top;/'
mutate "ConstProp meet_mut: alternative 'Bottom | Constant(_)' loses 'Bottom |'" caught $CP \
  '/fn meet_mut/,/^   }/ s/Bottom | Constant(_)/Constant(_)/'
mutate "ConstProp join_mut: guard removed" caught $CP \
  '/fn join_mut/,/^   }/ s/(Constant(x), Constant(y)) if x == &y => false/(Constant(_x), Constant(_y)) => false/'
mutate "ConstProp partial_cmp: (Constant(_), Top) => Less to Greater" caught $CP \
  's/(Constant(_), Top) => Some(Ordering::Less)/(Constant(_), Top) => Some(Ordering::Greater)/'
mutate "ConstProp meet: (Constant(x), Top) => Constant(x) to Top" caught $CP \
  '/fn meet(/,/^   }/ s/(Constant(x), Top) => Constant(x)/(Constant(_x), Top) => Top/'
mutate "ConstProp join: else-branch Self::Top to Self::Bottom" caught $CP \
  '/fn join(/,/^   }/ s/Self::Top/Self::Bottom/'
mutate "ConstProp join: (Bottom, other) => other to (Bottom, _) => Bottom" caught $CP \
  '/fn join(/,/^   }/ s/(Bottom, other) => other/(Bottom, _) => Bottom/'
mutate "combine_orderings: (Less, Less) => Some(Less) to Some(Greater)" caught $PR \
  's/(Less, Less) => Some(Less)/(Less, Less) => Some(Greater)/'
mutate "combine_orderings: (Equal, _) => Some(ord2) to Some(ord1)" caught $PR \
  's/(Equal, _) => Some(ord2)/(Equal, _) => Some(ord1)/'
mutate "Option join_mut: (_, None) => false to true" caught $LT \
  '/impl<T: Lattice> Lattice for Option<T>/,/^}/ s/(_, None) => false/(_, None) => true/'
mutate "Option meet_mut: x.meet_mut(y) to x.join_mut(y)" caught $LT \
  '/impl<T: Lattice> Lattice for Option<T>/,/^}/ s/x\.meet_mut(y)/x.join_mut(y)/'
mutate "Option join_mut: '*this = Some(y)' to '*this = None'" caught $LT \
  '/impl<T: Lattice> Lattice for Option<T>/,/^}/ s/\*this = Some(y);/*this = None;/'
mutate "versions_base: vec![Total; count] to vec![Delta; count]" caught $MIR \
  's/vec!\[MirRelationVersion::Total; count\]/vec![MirRelationVersion::Delta; count]/'
mutate "versions_base: v.push(TotalDelta) to v.push(Total)" caught $MIR \
  's/v\.push(MirRelationVersion::TotalDelta)/v.push(MirRelationVersion::Total)/'
mutate "versions_base: for-loop moved after res.push(new_combination)" caught $MIR \
  '/fn versions_base/,/^   }/ { /for v in &mut res {/,/^         }/ { H; d }; /res\.push(new_combination);/ { G; s/\n\n/\n/ } }'
mutate "Dual cmp: not reversed, self.0.cmp(&other.0)" caught $DU \
  's/other\.0\.cmp(&self\.0)/self.0.cmp(\&other.0)/'
mutate "Dual partial_cmp: not reversed, self.0.partial_cmp(&other.0)" caught $DU \
  's/other\.0\.partial_cmp(&self\.0)/self.0.partial_cmp(\&other.0)/'
mutate "Dual meet: delegates to meet instead of join" caught $DU \
  '/fn meet(/ s/self\.0\.join(other\.0)/self.0.meet(other.0)/'
mutate "Dual join: receiver and argument swapped, other.0.meet(self.0)" caught $DU \
  '/fn join(/ s/self\.0\.meet(other\.0)/other.0.meet(self.0)/'
mutate "Dual meet_mut: delegates to meet_mut instead of join_mut" caught $DU \
  '/fn meet_mut(/ s/self\.0\.join_mut(/self.0.meet_mut(/'
mutate "Dual join_mut: delegates to join_mut instead of meet_mut" caught $DU \
  '/fn join_mut(/ s/self\.0\.meet_mut(/self.0.join_mut(/'
mutate "Dual top: Dual(T::bottom()) to Dual(T::top())" caught $DU \
  '/fn top()/ s/T::bottom()/T::top()/'
mutate "Dual bottom: Dual(T::top()) to Dual(T::bottom())" caught $DU \
  '/fn bottom()/ s/T::top()/T::bottom()/'
mutate "Dual: fn meet removed, the trait default would apply (tool must refuse)" caught $DU \
  '/#\[inline\]/ { N; /fn meet(/d }'
mutate "Dual: fn lt added to impl PartialOrd (tool must refuse)" caught $DU \
  '/fn partial_cmp/ s/$/\n   fn lt(\&self, other: \&Self) -> bool { self.0 < other.0 }/'
mutate "Dual outside the fragment: join_mut with a let statement (tool must refuse)" caught $DU \
  '/fn join_mut(/ s/{ self\.0\.meet_mut(other\.0) }/{ let r = self.0.meet_mut(other.0); r }/'
mutate "Dual outside the fragment: meet with a chain of two calls inside Dual(..) (tool must refuse)" caught $DU \
  '/fn meet(/ s/self\.0\.join(other\.0)/self.0.join(other.0).join(other.0)/'
mutate "Dual outside the fragment: bound of impl Ord changed to PartialOrd (tool must refuse)" caught $DU \
  's/^where T: Ord/where T: PartialOrd/'
mutate "outside the fragment: early return in an Option arm (tool must refuse)" caught $LT \
  '/impl<T: Lattice> Lattice for Option<T>/,/^}/ s/(_, None) => false/(_, None) => return false/'
mutate "outside the fragment: nested pattern Some(Some(x)) (tool must refuse)" caught $LT \
  '/impl<T: Lattice> Lattice for Option<T>/,/^}/ s/(this @ Some(_), None)/(this @ Some(Some(_)), None)/'
mutate "behaviour-preserving: binder renamed in meet, (Top, other) => other to (Top, o) => o" pass $CP \
  '/fn meet(/,/^   }/ s/(Top, other) => other/(Top, o) => o/'
mutate "behaviour-preserving: use ConstPropagation::* dropped in join, variants qualified" pass $CP \
  '/fn join(/,/^   }/ { /use ConstPropagation::\*;/d; s/\bBottom\b/Self::Bottom/g; s/Self::Self::/Self::/g; s/\([( ]\)Constant(/\1Self::Constant(/g; s/\([( ]\)Top\b/\1Self::Top/g }'
mutate "behaviour-preserving: Dual, comment and #[inline] added, bound of impl Ord moved inline" pass $DU \
  '/fn cmp/ s/{ other/{ \/* reversed *\/ other/; /fn partial_cmp/ s/^/   #[inline]\n/; s/impl<T> Ord for Dual<T>/impl<T: Ord> Ord for Dual<T>/; /^where T: Ord/d'
mutate "behaviour-preserving: Dual, top and bottom reordered, #[inline] dropped, Self(..) for Dual(..) in join" pass $DU \
  '/impl<T: BoundedLattice>/,/^}/ { /#\[inline\]/d; /fn top()/{h;d}; /fn bottom()/G }; /fn join(/ s/Dual(self/Self(self/'

echo "== back to the unmodified source"
reset_repo
res=$(regen_build)
echo "final: $res"; [ "$res" = PASS ] || fails=$((fails+1))
grep 'depends on axioms\|does not depend' "$SCR/build.log" | sed 's/^info: //' || true

rm -rf "$SCR"
if [ $fails -eq 0 ]; then echo "SELFTEST OK: every mutation was caught, the unmodified source passes"; exit 0
else echo "SELFTEST FAILED: $fails problem(s)"; exit 1; fi
