#!/usr/bin/env python3
"""rs2lean.py -- "tie D": regenerate Lean 4 definitions from table-shaped Rust functions.

usage: python3 tools/rs2lean.py --repo /repo --out lean/AscentVerif/Generated

Reads the Rust sources on every run and writes (always the same bytes for the same source)
  ConstProp.lean   partial_cmp / meet / join / meet_mut / join_mut of ConstPropagation<T>
  Product.lean     combine_orderings
  OptionLat.lean   meet_mut / join_mut of `impl<T: Lattice> Lattice for Option<T>`
  Versions.lean    the nested fn versions_base of ascent_mir.rs
  Dual.lean        partial_cmp / cmp / meet / join / meet_mut / join_mut / top / bottom of Dual<T>

Supported fragment (anything else: exit status 2, message naming file / function / construct):
  fn body   = `use Enum::*;`* then one `match (p, q) { arm, ... }` on parameters
  pattern   = `(pat, pat)` | `_`;  pat = `_` | binder | `b @ pat` | Variant | Variant(binder|_) | pat `|` pat
  guard     = `if x == y` / `if x == &y` on payload binders
  arm body  = Variant | Variant(e) | binder | `if x == y { e } else { e }` | true | false
              | `{ *b = e; true }` | `x.meet_mut(y)` / `x.join_mut(y)`   (the last three: `&mut self` fns)
  versions_base: purpose-built statement list (recursive call, for-push, vec![_; n], index store, push).
  delegating one-liner (Dual<T>): fn body = one expression `[Dual(] p.0.m([&]q.0) [)]`, p, q parameters,
              m one of partial_cmp / cmp / meet / join / meet_mut / join_mut, or `Dual(T::top())` / `Dual(T::bottom())`;
              receiver, argument and method are read from the Rust text and type-checked against the signature.
Arms are first-match-wins in Rust and in Lean.  A guarded arm becomes
`if guard then body else TAIL p q`, TAIL an auxiliary definition matching the remaining arms.
Standard library only.
"""
import argparse
import itertools
import os
import sys


class Unsupported(Exception):
    pass


CUR = {'file': '?', 'fn': '?'}


def bad(msg, tok=None):
    where = "%s: fn %s" % (CUR['file'], CUR['fn'])
    if tok is not None and tok[2]:
        where += " (line %d)" % tok[2]
    raise Unsupported("rs2lean: %s: unsupported construct: %s" % (where, msg))


# ------------------------------------------------------------------ tokens

PUNCT2 = ('=>', '==', '::', '->', '!=', '<=', '>=', '&&', '||', '|=', '+=', '-=', '*=', '..')


def tokenize(src):
    """(kind, text, line) triples; comments dropped; kinds: id num punct str char life"""
    toks, i, line, n = [], 0, 1, len(src)
    while i < n:
        c = src[i]
        if c == '\n':
            line += 1
            i += 1
        elif c.isspace():
            i += 1
        elif src.startswith('//', i):
            j = src.find('\n', i)
            i = n if j < 0 else j
        elif src.startswith('/*', i):
            depth, j = 1, i + 2
            while j < n and depth:
                if src.startswith('/*', j):
                    depth, j = depth + 1, j + 2
                elif src.startswith('*/', j):
                    depth, j = depth - 1, j + 2
                else:
                    line += src[j] == '\n'
                    j += 1
            i = j
        elif c == '"' or (c in 'rb' and _raw_or_byte_string(src, i)):
            j = _string_end(src, i)
            toks.append(('str', src[i:j], line))
            line += src.count('\n', i, j)
            i = j
        elif c == "'":
            if i + 1 < n and src[i + 1] == '\\':
                j = src.find("'", i + 3) + 1
                toks.append(('char', src[i:j], line))
                i = j
            elif i + 2 < n and src[i + 2] == "'":
                toks.append(('char', src[i:i + 3], line))
                i += 3
            else:
                j = i + 1
                while j < n and (src[j].isalnum() or src[j] == '_'):
                    j += 1
                toks.append(('life', src[i:j], line))
                i = j
        elif c.isalpha() or c == '_':
            j = i
            while j < n and (src[j].isalnum() or src[j] == '_'):
                j += 1
            toks.append(('id', src[i:j], line))
            i = j
        elif c.isdigit():
            j = i
            while j < n and (src[j].isalnum() or src[j] == '_'):
                j += 1
            toks.append(('num', src[i:j], line))
            i = j
        elif src[i:i + 2] in PUNCT2:
            toks.append(('punct', src[i:i + 2], line))
            i += 2
        else:
            toks.append(('punct', c, line))
            i += 1
    return toks


def _raw_or_byte_string(src, i):
    j = i
    if src[j] == 'b':
        j += 1
    if j < len(src) and src[j] == 'r':
        j += 1
        while j < len(src) and src[j] == '#':
            j += 1
    return j > i and j < len(src) and src[j] == '"'


def _string_end(src, i):
    j, hashes, raw = i, 0, False
    if src[j] == 'b':
        j += 1
    if src[j] == 'r':
        raw = True
        j += 1
        while src[j] == '#':
            hashes, j = hashes + 1, j + 1
    j += 1  # opening quote
    if raw:
        k = src.find('"' + '#' * hashes, j)
        return len(src) if k < 0 else k + 1 + hashes
    while j < len(src) and src[j] != '"':
        j += 2 if src[j] == '\\' else 1
    return j + 1


OPEN = {'(': ')', '[': ']', '{': '}'}
CLOSE = set(OPEN.values())


def is_p(tok, text):
    return tok[0] in ('punct', 'id') and tok[1] == text


def close_of(toks, i):
    depth = 0
    for j in range(i, len(toks)):
        if toks[j][0] == 'punct':
            if toks[j][1] in OPEN:
                depth += 1
            elif toks[j][1] in CLOSE:
                depth -= 1
                if depth == 0:
                    return j
    bad("unbalanced brackets", toks[i])


def depths(toks):
    out, d = [], 0
    for t in toks:
        if t[0] == 'punct' and t[1] in CLOSE:
            d -= 1
        out.append(d)
        if t[0] == 'punct' and t[1] in OPEN:
            d += 1
    return out


def angle_close(toks, i):
    depth = 0
    for j in range(i, len(toks)):
        if is_p(toks[j], '<'):
            depth += 1
        elif is_p(toks[j], '>'):
            depth -= 1
            if depth == 0:
                return j
    bad("unbalanced `<`", toks[i])


def text_of(toks):
    return ''.join(t[1] for t in toks)


# ------------------------------------------------------------------ locating items

def file_globs(toks):
    """enum names E of file-level `use ...::E::*;`"""
    out, dep, i = [], depths(toks), 0
    while i < len(toks):
        if dep[i] == 0 and is_p(toks[i], 'use'):
            j = i
            while not is_p(toks[j], ';'):
                j += 1
            if j - i >= 4 and is_p(toks[j - 1], '*') and is_p(toks[j - 2], '::') and toks[j - 3][0] == 'id':
                out.append(toks[j - 3][1])
            i = j
        i += 1
    return out


def find_enum(toks, name):
    """[(variant, arity)] of the file-level `enum name`"""
    dep = depths(toks)
    for i in range(len(toks) - 1):
        if dep[i] == 0 and is_p(toks[i], 'enum') and toks[i + 1][1] == name:
            j = i + 2
            while not is_p(toks[j], '{'):
                j += 1
            end, out, k = close_of(toks, j), [], j + 1
            while k < end:
                if is_p(toks[k], '#'):
                    k = close_of(toks, k + 1) + 1
                    continue
                if toks[k][0] != 'id':
                    bad("enum %s: variant syntax at `%s`" % (name, toks[k][1]), toks[k])
                v, arity = toks[k][1], 0
                k += 1
                if k < end and is_p(toks[k], '('):
                    e = close_of(toks, k)
                    arity = 1 + sum(1 for m in range(k + 1, e) if is_p(toks[m], ',') and dep[m] == dep[k] + 1)
                    k = e + 1
                if k < end and not is_p(toks[k], ','):
                    bad("enum %s: variant `%s` is not a unit or tuple variant" % (name, v), toks[k])
                out.append((v, arity))
                k += 1
            return out
    bad("enum %s not found" % name)


def find_impls(toks):
    """[(trait, type_text, generics_tokens, body_lo, body_hi, where_tokens)] for file-level `impl .. Trait for Type {..}`"""
    out, dep = [], depths(toks)
    for i, t in enumerate(toks):
        if dep[i] == 0 and is_p(t, 'impl'):
            j = i + 1
            gen = []
            if is_p(toks[j], '<'):
                e = angle_close(toks, j)
                gen, j = toks[j + 1:e], e + 1
            k = j
            while not is_p(toks[k], '{'):
                k += 1
            head = toks[j:k]
            f = [m for m, h in enumerate(head) if is_p(h, 'for')]
            if len(f) != 1:
                continue
            ty = head[f[0] + 1:]
            w = [m for m, h in enumerate(ty) if is_p(h, 'where')]
            where = []
            if w:
                ty, where = ty[:w[0]], ty[w[0] + 1:]
            trait = head[:f[0]]
            out.append((trait[-1][1] if trait else '', text_of(ty), gen, k, close_of(toks, k), where))
    return out


def find_fn(toks, lo, hi, name, nested):
    """index of the `fn` token of the unique `fn name` in toks[lo:hi] (directly inside unless nested)"""
    dep = depths(toks)
    base = dep[lo] if lo < len(toks) else 0
    hits = [i for i in range(lo, hi - 1)
            if is_p(toks[i], 'fn') and toks[i + 1][1] == name and (nested or dep[i] == base)]
    return hits


# ------------------------------------------------------------------ parser of the fragment

RUST_KEYWORDS = set("""as break const continue else enum extern fn for if impl in let loop match mod move mut pub ref
return static struct trait type unsafe use where while async await dyn true false""".split())


class P:
    def __init__(self, toks, lo, hi):
        self.t, self.i, self.hi = toks, lo, hi

    def peek(self, k=0):
        if self.i + k < self.hi:
            return self.t[self.i + k]
        return ('eof', '<end>', self.t[self.hi - 1][2] if self.hi else 0)

    def at(self, text, k=0):
        return is_p(self.peek(k), text)

    def eat(self, text):
        if self.at(text):
            self.i += 1
            return True
        return False

    def expect(self, text):
        if not self.eat(text):
            bad("expected `%s`, found `%s`" % (text, self.peek()[1]), self.peek())

    def ident(self):
        p = self.peek()
        if p[0] != 'id' or p[1] in RUST_KEYWORDS:
            bad("expected an identifier, found `%s`" % p[1], p)
        self.i += 1
        return p[1]

    def path(self):
        segs = [self.ident()]
        while self.at('::') and self.peek(1)[0] == 'id':
            self.i += 1
            segs.append(self.ident())
        return segs

    def commas(self, item, close):
        out, trailing = [], False
        while not self.at(close):
            out.append(item())
            trailing = self.eat(',')
            if not trailing and not self.at(close):
                bad("expected `,` or `%s`, found `%s`" % (close, self.peek()[1]), self.peek())
        self.expect(close)
        return out, trailing

    # patterns
    def pattern(self):
        alts = [self.pattern1()]
        while self.eat('|'):
            alts.append(self.pattern1())
        return alts[0] if len(alts) == 1 else ('alt', alts)

    def pattern1(self):
        p = self.peek()
        if self.at('_'):
            self.i += 1
            return ('wild',)
        if self.eat('('):
            items, trailing = self.commas(self.pattern, ')')
            if len(items) == 1 and not trailing:
                return items[0]
            return ('tuple', items)
        if p[0] == 'id':
            if p[1] in ('ref', 'mut', 'box'):
                bad("`%s` pattern" % p[1], p)
            if self.at('@', 1):
                name = self.ident()
                self.expect('@')
                return ('at', name, self.pattern1(), p)
            segs = self.path()
            if self.eat('('):
                args, _ = self.commas(self.pattern, ')')
                return ('path', segs, args, p)
            if self.at('{'):
                bad("struct pattern `%s {..}`" % '::'.join(segs), p)
            return ('path', segs, None, p)
        bad("pattern starting with `%s`" % p[1], p)

    # expressions
    def expr(self):
        p = self.peek()
        if self.at('if'):
            return self.if_expr()
        if self.at('match'):
            return self.match_expr()
        if self.at('{'):
            return self.block()
        if p[0] == 'id' and p[1] in ('true', 'false'):
            self.i += 1
            return ('bool', p[1] == 'true', p)
        if p[0] == 'id':
            if self.at('.', 1) and self.peek(2)[0] == 'id' and self.at('(', 3):
                recv = self.ident()
                self.expect('.')
                m = self.ident()
                self.expect('(')
                args, _ = self.commas(self.expr, ')')
                return ('mcall', recv, m, args, p)
            segs = self.path()
            if self.eat('('):
                args, _ = self.commas(self.expr, ')')
                return ('call', segs, args, p)
            if self.at('!'):
                bad("macro call `%s!`" % '::'.join(segs), p)
            return ('path', segs, None, p)
        bad("expression starting with `%s`" % p[1], p)

    def operand(self):
        p = self.peek()
        self.eat('&')
        return ('var', self.ident(), p)

    def cond(self):
        p = self.peek()
        lhs = self.operand()
        if not self.eat('=='):
            bad("condition that is not `x == y`", p)
        return ('eq', lhs, self.operand(), p)

    def if_expr(self):
        p = self.peek()
        self.expect('if')
        c = self.cond()
        a = self.block()
        if not self.eat('else'):
            bad("`if` without `else`", p)
        b = self.if_expr() if self.at('if') else self.block()
        return ('if', c, a, b, p)

    def block(self):
        p = self.peek()
        self.expect('{')
        stmts = []
        while self.at('*'):
            q = self.peek()
            self.i += 1
            name = self.ident()
            self.expect('=')
            rhs = self.expr()
            self.expect(';')
            stmts.append(('assign', name, rhs, q))
        if self.at('let') or self.at('return') or self.at('for') or self.at('while'):
            bad("statement `%s ...` in a block" % self.peek()[1], self.peek())
        tail = self.expr()
        if not self.at('}'):
            bad("expected `}` after the block's value, found `%s`" % self.peek()[1], self.peek())
        self.i += 1
        return ('block', stmts, tail, p) if stmts else tail

    def match_expr(self):
        p = self.peek()
        self.expect('match')
        if self.eat('('):
            scrut, _ = self.commas(self.ident, ')')
        else:
            scrut = [self.ident()]
        self.expect('{')
        arms = []
        while not self.at('}'):
            q = self.peek()
            start = self.i
            pat = self.pattern()
            guard = None
            if self.eat('if'):
                guard = self.cond()
            self.expect('=>')
            body_start = self.i
            body = self.expr()
            blocky = is_p(self.t[self.i - 1], '}')
            src = ' '.join(t[1] for t in self.t[start:self.i])
            if not self.eat(',') and not self.at('}') and not blocky:
                bad("expected `,` after a match arm, found `%s`" % self.peek()[1], self.peek())
            arms.append({'pat': pat, 'guard': guard, 'body': body, 'tok': q, 'src': src,
                         'blocky': is_p(self.t[body_start], '{')})
        self.expect('}')
        return ('match', scrut, arms, p)


# ------------------------------------------------------------------ types, enums, name resolution

# Rust enum -> (kind, [(variant, arity, Lean constructor or None)])
ENUMS = {
    'ConstPropagation': ('CP', [('Bottom', 0, '.bottom'), ('Constant', 1, '.const'), ('Top', 0, '.top')]),
    'Ordering': ('Ord', [('Less', 0, 'Ordering.lt'), ('Equal', 0, 'Ordering.eq'), ('Greater', 0, 'Ordering.gt')]),
    'Option': ('Opt', [('None', 0, 'none'), ('Some', 1, 'some')]),
    'MirRelationVersion': ('Ver', [('TotalDelta', 0, 'AscentVerif.Engine.Ver.totalDelta'),
                                   ('Total', 0, 'AscentVerif.Engine.Ver.total'),
                                   ('Delta', 0, 'AscentVerif.Engine.Ver.delta'),
                                   ('New', 0, None)]),
}
KIND = {name: k for name, (k, _) in ENUMS.items()}
KVARS = {k: vs for _, (k, vs) in ENUMS.items()}
PREFIX_OK = {'CP': [[]], 'Ver': [[]], 'Ord': [[], ['std', 'cmp'], ['core', 'cmp']],
             'Opt': [[], ['std', 'option'], ['core', 'option']]}
LEAN_RESERVED = set("""at from fun have show then else if match with do let in end def theorem open namespace section
by where deriving instance class structure inductive universe variable import export Type Prop Sort mutual
termination_by decreasing_by macro syntax notation prefix infix infixl infixr postfix private protected partial
unsafe noncomputable abbrev example axiom opaque set_option using calc nomatch nofun self this suffices obtain""".split())


def kind_of(ty):
    if ty in ('CP', 'Ord', 'Ver'):
        return ty
    if isinstance(ty, tuple) and ty[0] == 'Opt':
        return 'Opt'
    return None


def variants_of(ty):
    """variant -> (Lean constructor, payload type or None), in declaration order"""
    k = kind_of(ty)
    if k is None:
        return None
    out = {}
    for v, arity, lean in KVARS[k]:
        out[v] = (lean, (ty[1] if k == 'Opt' else 'T') if arity else None)
    return out


def lean_type(ty):
    if ty == 'CP':
        return 'AscentVerif.Lat.ConstProp α'
    if ty == 'Ord':
        return 'Ordering'
    if ty == 'T':
        return 'α'
    if ty == 'DualSelf':
        return 'AscentVerif.Lat.Dual α'
    if isinstance(ty, tuple) and ty[0] == 'Opt':
        inner = lean_type(ty[1])
        return 'Option ' + (inner if ' ' not in inner else '(%s)' % inner)
    bad("no Lean type for %r" % (ty,))


def show_type(ty):
    return {'CP': 'ConstPropagation<T>', 'Ord': 'Ordering', 'T': 'T', 'Ver': 'MirRelationVersion',
            'MutBool': 'bool', 'bool': 'bool', 'DualSelf': 'Dual<T>'}.get(ty) or 'Option<%s>' % show_type(ty[1])


class Ctx:
    pass


def resolve(segs, ctx, tok):
    """(kind, variant) if the path names an enum variant in scope, None if it is a plain identifier"""
    if len(segs) == 1:
        n = segs[0]
        if n in ('Some', 'None'):
            return ('Opt', n)
        hits = sorted(k for k in ctx.globs if any(v == n for v, _, _ in KVARS[k]))
        if len(hits) > 1:
            bad("`%s` is ambiguous between glob-imported enums" % n, tok)
        return (hits[0], n) if hits else None
    q, pre = segs[-2], segs[:-2]
    if q == 'Self':
        k = kind_of(ctx.self_ty) if ctx.self_ty else None
        if k is None or pre:
            bad("path `%s`" % '::'.join(segs), tok)
    elif q in KIND:
        k = KIND[q]
        if pre not in PREFIX_OK[k]:
            bad("path `%s`" % '::'.join(segs), tok)
    else:
        bad("path `%s`" % '::'.join(segs), tok)
    if all(v != segs[-1] for v, _, _ in KVARS[k]):
        bad("`%s` is not a variant known to the translator" % '::'.join(segs), tok)
    return (k, segs[-1])


def parse_type(toks, ctx):
    ts = list(toks)
    while ts and (is_p(ts[0], '&') or is_p(ts[0], 'mut')):
        ts = ts[1:]
    txt = text_of(ts)
    if txt == 'Self' and ctx.self_ty:
        return ctx.self_ty
    if txt == 'bool':
        return 'bool'
    if txt in ('Ordering', 'std::cmp::Ordering', 'core::cmp::Ordering'):
        return 'Ord'
    if txt == ctx.generic and txt:
        return 'T'
    if len(ts) >= 4 and ts[0][1] == 'Option' and is_p(ts[1], '<') and is_p(ts[-1], '>'):
        return ('Opt', parse_type(ts[2:-1], ctx))
    bad("type `%s`" % txt, ts[0] if ts else None)


def parse_signature(toks, fn_i, ctx):
    """-> (params [(rust, ty, selfform)], ret type, body_lo, body_hi)"""
    i = fn_i + 2
    if is_p(toks[i], '<'):
        bad("generic function", toks[i])
    if not is_p(toks[i], '('):
        bad("expected `(` after the function name", toks[i])
    e = close_of(toks, i)
    dep = depths(toks)
    parts, cur = [], []
    for m in range(i + 1, e):
        if is_p(toks[m], ',') and dep[m] == dep[i] + 1:
            parts.append(cur)
            cur = []
        else:
            cur.append(toks[m])
    if cur:
        parts.append(cur)
    params = []
    for part in parts:
        txt = text_of(part)
        if txt in ('self', '&self', '&mutself'):
            params.append(('self', ctx.self_ty, {'self': 'val', '&self': 'ref', '&mutself': 'refmut'}[txt]))
            if not ctx.self_ty:
                bad("`self` parameter outside an impl", part[0])
        elif len(part) >= 3 and part[0][0] == 'id' and part[0][1] != 'mut' and is_p(part[1], ':'):
            params.append((part[0][1], parse_type(part[2:], ctx), None))
        else:
            bad("parameter `%s`" % txt, part[0])
    j = e + 1
    if not is_p(toks[j], '->'):
        bad("function without a return type", toks[j])
    k = j + 1
    while not is_p(toks[k], '{'):
        if is_p(toks[k], 'where'):
            bad("`where` clause", toks[k])
        k += 1
    ret = toks[j + 1:k]
    return params, ret, k, close_of(toks, k)


# ------------------------------------------------------------------ translation of a table function

def lean_name(rust):
    """Rust identifier -> Lean identifier (`self`, `this` and Lean keywords get a trailing underscore)"""
    return rust + '_' if rust in LEAN_RESERVED else rust


def paren(s):
    return '(%s)' % s if (' ' in s and not (s.startswith('(') and s.endswith(')') and s.count('(') == 1)) else s


def col_rows(pat, ty, ctx):
    """expand one column pattern into simple patterns {ctor, whole, payload}"""
    t = pat[0]
    if t == 'wild':
        return [{'ctor': None, 'whole': None, 'payload': None}]
    if t == 'alt':
        return [r for p in pat[1] for r in col_rows(p, ty, ctx)]
    if t == 'at':
        if resolve([pat[1]], ctx, pat[3]) is not None:
            bad("`%s @ ..` where `%s` is an enum variant" % (pat[1], pat[1]), pat[3])
        rows = col_rows(pat[2], ty, ctx)
        for r in rows:
            if r['whole']:
                bad("nested `@` bindings", pat[3])
            r['whole'] = pat[1]
        return rows
    if t == 'path':
        segs, args, tok = pat[1], pat[2], pat[3]
        rv = resolve(segs, ctx, tok)
        if rv is None:
            if args is not None:
                bad("pattern `%s(..)`: not an enum variant in scope" % segs[0], tok)
            if segs[0][:1].isupper():
                bad("pattern `%s`: looks like a constant or a variant that is not in scope" % segs[0], tok)
            return [{'ctor': None, 'whole': segs[0], 'payload': None}]
        k, v = rv
        if k != kind_of(ty):
            bad("pattern `%s` (variant of %s) where a value of type %s is matched"
                % ('::'.join(segs), k, show_type(ty)), tok)
        lean, pty = variants_of(ty)[v]
        if lean is None:
            bad("variant `%s` has no Lean counterpart" % v, tok)
        payload = None
        if pty is None:
            if args is not None:
                bad("unit variant `%s` with arguments" % v, tok)
        else:
            if args is None or len(args) != 1:
                bad("variant `%s` needs exactly one payload pattern" % v, tok)
            a = args[0]
            if a[0] == 'wild':
                payload = '_'
            elif a[0] == 'path' and a[2] is None and len(a[1]) == 1 and resolve(a[1], ctx, tok) is None:
                payload = a[1][0]
            else:
                bad("nested pattern inside `%s(..)`" % v, tok)
        return [{'ctor': v, 'whole': None, 'payload': payload}]
    bad("nested tuple pattern", None)


def arm_rows(pat, ctx, tok):
    if pat[0] == 'alt':
        return [r for p in pat[1] for r in arm_rows(p, ctx, tok)]
    n = len(ctx.scrut)
    if pat[0] == 'wild':
        cols = [[{'ctor': None, 'whole': None, 'payload': None}] for _ in range(n)]
    elif pat[0] == 'tuple' and len(pat[1]) == n:
        cols = [col_rows(p, ctx.coltys[c], ctx) for c, p in enumerate(pat[1])]
    elif n == 1:
        cols = [col_rows(pat, ctx.coltys[0], ctx)]
    else:
        bad("arm pattern that is neither a %d-tuple nor `_`" % n, tok)
    return [[dict(sp) for sp in combo] for combo in itertools.product(*cols)]


def cells(row, ctx):
    sets = []
    for c, sp in enumerate(row):
        allv = list(variants_of(ctx.coltys[c]))
        sets.append([sp['ctor']] if sp['ctor'] else allv)
    return set(itertools.product(*sets))


def row_env(row, ctx, tok):
    env = {}
    for rust, ty, form in ctx.params:
        env[rust] = (ty, 'recvref' if (ctx.mode == 'mut' and rust == 'self') else 'val', None)
    pnames = {p[0] for p in ctx.params}
    seen = set()

    def add(name, ty, role, origin):
        if name in seen:
            bad("identifier `%s` bound twice in one arm" % name, tok)
        if name == 'self' or lean_name(name) in {lean_name(x) for x in env if x != name}:
            bad("binder `%s` clashes with another name after renaming for Lean" % name, tok)
        if name in pnames and not (origin[0] == 'whole' and ctx.scrut[origin[1]] == name):
            bad("binder `%s` shadows a parameter" % name, tok)
        seen.add(name)
        env[name] = (ty, role, origin)

    for c, sp in enumerate(row):
        recv = ctx.mode == 'mut' and ctx.scrut[c] == 'self'
        if sp['whole']:
            add(sp['whole'], ctx.coltys[c], 'recvref' if recv else 'val', ('whole', c))
        if sp['payload'] not in (None, '_'):
            pty = variants_of(ctx.coltys[c])[sp['ctor']][1]
            add(sp['payload'], pty, 'payref' if recv else 'val', ('payload', c))
    return env


def tr_cond(c, env, ctx):
    names = []
    for side in (c[1], c[2]):
        name, tok = side[1], side[2]
        if name not in env:
            bad("unknown identifier `%s` in a condition" % name, tok)
        if env[name][0] != 'T' or env[name][2] is None:
            bad("`==` on `%s`, which is not a payload binder" % name, tok)
        names.append(name)
    if ctx.payload_class != 'deceq':
        bad("`==` on the payload type needs the bound `T: PartialEq`", c[3])
    return '%s = %s' % (lean_name(names[0]), lean_name(names[1])), set(names)


def tr(e, ty, env, row, ctx):
    """-> (Lean text, set of Rust identifiers read)"""
    t, tok = e[0], e[-1]
    if t == 'if':
        c, u0 = tr_cond(e[1], env, ctx)
        a, u1 = tr(e[2], ty, env, row, ctx)
        b, u2 = tr(e[3], ty, env, row, ctx)
        wrap = lambda s: '(%s)' % s if s.startswith('let ') else s
        return 'if %s then %s else %s' % (c, wrap(a), wrap(b)), u0 | u1 | u2
    if ty == 'MutBool':
        recv = lean_name('self')
        if t == 'bool':
            return '(%s, %s)' % (recv, 'true' if e[1] else 'false'), set()
        if t == 'block':
            stmts, tail = e[1], e[2]
            if len(stmts) != 1 or tail[0] != 'bool':
                bad("block that is not `{ *this = E; true|false }`", tok)
            _, name, rhs, atok = stmts[0]
            if name not in env or env[name][1] != 'recvref' or env[name][2] is None:
                bad("assignment `*%s = ..` where `%s` is not a binding of the `&mut self` receiver" % (name, name), atok)
            v, u = tr(rhs, ctx.self_ty, env, row, ctx)
            return '(%s, %s)' % (v, 'true' if tail[1] else 'false'), u
        if t == 'mcall':
            _, rname, m, args, _ = e
            if rname not in env or env[rname][1] != 'payref':
                bad("method call on `%s`, which is not a `&mut` binding of the receiver's payload" % rname, tok)
            if m not in ('meet_mut', 'join_mut'):
                bad("method `.%s(..)`" % m, tok)
            if ctx.payload_class != 'lat':
                bad("`.%s(..)` on the payload needs the bound `T: Lattice`" % m, tok)
            if len(args) != 1:
                bad("`.%s` with %d arguments" % (m, len(args)), tok)
            a, u = tr(args[0], 'T', env, row, ctx)
            col = env[rname][2][1]
            ctor = variants_of(ctx.coltys[col])[row[col]['ctor']][0]
            r = 'r'
            while r in {lean_name(x) for x in env}:
                r += "'"
            op = {'meet_mut': 'meetMut', 'join_mut': 'joinMut'}[m]
            return ('let %s := AscentVerif.Lat.Lat.%s %s %s; (%s %s.1, %s.2)' % (r, op, lean_name(rname), a, ctor, r, r),
                    u | {rname})
        bad("arm body of a `&mut self` function that is neither true/false, `{ *this = E; b }` nor `x.op_mut(y)`", tok)
    if t in ('bool', 'block', 'mcall', 'match'):
        bad("`%s` expression where a value of type %s is expected" % (t, show_type(ty)), tok)
    segs = e[1]
    rv = resolve(segs, ctx, tok)
    if rv is None:
        if t == 'call':
            bad("call of `%s`" % '::'.join(segs), tok)
        name = segs[0]
        if name not in env:
            bad("unknown identifier `%s`" % name, tok)
        vty, role, _ = env[name]
        if role != 'val':
            bad("`%s` is a reference into the `&mut self` receiver; reading it is outside the fragment" % name, tok)
        if vty != ty:
            bad("`%s` has type %s where %s is expected" % (name, show_type(vty), show_type(ty)), tok)
        return lean_name(name), {name}
    k, v = rv
    if k != kind_of(ty):
        bad("`%s` (variant of %s) where a value of type %s is expected" % ('::'.join(segs), k, show_type(ty)), tok)
    lean, pty = variants_of(ty)[v]
    if lean is None:
        bad("variant `%s` has no Lean counterpart" % v, tok)
    if pty is None:
        if t == 'call':
            bad("unit variant `%s` applied to arguments" % v, tok)
        return lean, set()
    if t != 'call' or len(e[2]) != 1:
        bad("variant `%s` needs exactly one argument" % v, tok)
    a, u = tr(e[2][0], pty, env, row, ctx)
    return '%s %s' % (lean, paren(a)), u


def render_pat(sp, ty, used):
    whole = lean_name(sp['whole']) if sp['whole'] in used else None
    if sp['ctor'] is None:
        return whole or '_'
    lean, pty = variants_of(ty)[sp['ctor']]
    base = lean
    if pty is not None:
        pl = sp['payload']
        base += ' ' + (lean_name(pl) if pl in used or pl.startswith('_') else '_')
    return '%s@(%s)' % (whole, base) if whole else base


class TableFn:
    """one Rust `fn` whose body is a match table -> Lean definitions (main + tails)"""

    def __init__(self, ctx, arms):
        self.ctx, self.arms, self.defs, self.done = ctx, arms, [], set()
        for k, arm in enumerate(arms):
            arm['rows'] = arm_rows(arm['pat'], ctx, arm['tok'])
        self.all_cells = cells([{'ctor': None}] * len(ctx.scrut), ctx)

    def name(self, start):
        return self.ctx.lean_fn if start == 0 else '%s_tail%d' % (self.ctx.lean_fn, start + 1)

    def signature(self, name):
        c = self.ctx
        tc = {'deceq': '{α : Type} [DecidableEq α] ', 'lat': '{α : Type} [AscentVerif.Lat.Lat α] ', None: ''}
        uses_alpha = any('α' in lean_type(ty) for _, ty, _ in c.params) or 'α' in c.lean_ret
        binders = ' '.join('(%s : %s)' % (lean_name(r), lean_type(ty)) for r, ty, _ in c.params)
        return 'def %s %s%s : %s :=' % (name, tc[c.payload_class] if uses_alpha else '', binders, c.lean_ret)

    def gen(self, start):
        name, c, n = self.name(start), self.ctx, len(self.arms)
        if name in self.done:
            return name
        self.done.add(name)
        seq = [(i, False) for i in range(start, n)]
        if start > 0:
            rest = set()
            for i in range(start, n):
                for row in self.arms[i]['rows']:
                    rest |= cells(row, c)
            if rest != self.all_cells:
                seq = [(i, True) for i in range(start) if self.arms[i]['guard'] is None] + seq
        lines, covered, covered_ung = [], set(), set()
        for i, is_prefix in seq:
            arm = self.arms[i]
            for row in arm['rows']:
                cs = cells(row, c)
                if cs <= covered_ung:
                    bad("match arm %d `%s` is unreachable" % (i + 1, arm['src']), arm['tok'])
                if cs <= covered:
                    lines.append('  -- (arm %d, a row already decided by a guarded arm above: see its tail)' % (i + 1))
                    continue
                env = row_env(row, c, arm['tok'])
                body, used = tr(arm['body'], c.ret, env, row, c)
                if arm['guard'] is not None:
                    if i + 1 >= n:
                        bad("guard on the last match arm", arm['tok'])
                    tail = self.gen(i + 1)
                    g, ug = tr_cond(arm['guard'], env, c)
                    used |= ug
                    body = 'if %s then %s else %s %s' % (
                        g, '(%s)' % body if body.startswith('let ') else body, tail,
                        ' '.join(lean_name(p[0]) for p in c.params))
                pats = ', '.join(render_pat(sp, c.coltys[k], used) for k, sp in enumerate(row))
                note = '  -- arm %d%s' % (i + 1, ' (before the guarded arm; cannot match here, keeps the match total)'
                                          if is_prefix else '')
                lines.append('  | %s => %s%s' % (pats, body, note))
                covered |= cs
                if arm['guard'] is None:
                    covered_ung |= cs
        if covered != self.all_cells:
            bad("match is not exhaustive" + (" (tail after arm %d)" % start if start else ''), self.arms[0]['tok'])
        head = []
        if start > 0:
            head.append('/-- arms %d.. of `%s` (reached when the guard of arm %d fails) -/' % (start + 1, c.rust_fn, start))
        head.append(self.signature(name))
        head.append('  match %s with' % ', '.join(lean_name(s) for s in c.scrut))
        self.defs.append('\n'.join(head + lines))
        return name


def translate_table_fn(toks, fn_i, ctx):
    CUR['fn'] = ctx.rust_fn
    params, ret_toks, lo, hi = parse_signature(toks, fn_i, ctx)
    ctx.params = params
    ret = parse_type(ret_toks, ctx)
    forms = [f for _, _, f in params if f]
    ctx.mode = 'val'
    if 'refmut' in forms:
        if ret != 'bool':
            bad("`&mut self` function that does not return bool", toks[fn_i])
        ctx.mode, ret = 'mut', 'MutBool'
    elif ret == 'bool':
        bad("bool-valued function without `&mut self`", toks[fn_i])
    ctx.ret = ret
    ctx.lean_ret = '%s × Bool' % lean_type(ctx.self_ty) if ret == 'MutBool' else lean_type(ret)
    if len({lean_name(r) for r, _, _ in params}) != len(params):
        bad("parameter names clash after renaming for Lean", toks[fn_i])
    p = P(toks, lo, hi + 1)
    p.expect('{')
    ctx.globs = set(ctx.file_globs)
    while p.at('use'):
        q = p.peek()
        p.i += 1
        segs = p.path()
        if not (p.eat('::') and p.eat('*') and p.eat(';')):
            bad("`use` that is not `use Enum::*;`", q)
        if segs[-1] == 'Self' and ctx.self_ty:
            ctx.globs.add(kind_of(ctx.self_ty))
        elif segs[-1] in KIND and segs[:-1] in PREFIX_OK[KIND[segs[-1]]]:
            ctx.globs.add(KIND[segs[-1]])
        else:
            bad("`use %s::*;`" % '::'.join(segs), q)
    body = p.expr()
    if not p.at('}') or p.i != hi:
        bad("function body is not a single `match` expression (found `%s` after it)" % p.peek()[1], p.peek())
    if body[0] != 'match':
        bad("function body is not a `match` expression", body[-1])
    ctx.scrut = body[1]
    pn = [x[0] for x in params]
    if len(set(ctx.scrut)) != len(ctx.scrut) or any(s not in pn for s in ctx.scrut):
        bad("match scrutinee `(%s)` is not a tuple of distinct parameters" % ', '.join(ctx.scrut), body[-1])
    if ctx.mode == 'mut' and 'self' not in ctx.scrut:
        bad("`&mut self` function that does not match on `self`", body[-1])
    ctx.coltys = [dict((x[0], x[1]) for x in params)[s] for s in ctx.scrut]
    for c, ty in enumerate(ctx.coltys):
        if variants_of(ty) is None:
            bad("match on `%s` of type %s" % (ctx.scrut[c], show_type(ty)), body[-1])
    if not body[2]:
        bad("empty match", body[-1])
    tf = TableFn(ctx, body[2])
    tf.gen(0)
    return tf.defs


# ------------------------------------------------------------------ versions_base (purpose-built)

def translate_versions(toks, fn_i, ctx):
    name = toks[fn_i + 1][1]
    CUR['fn'] = name
    i = fn_i + 2
    e = close_of(toks, i)
    if len(toks[i + 1:e]) != 3 or toks[i + 1][0] != 'id' or text_of(toks[i + 2:e]) != ':usize':
        bad("parameter list `%s` (expected one `usize` parameter)" % text_of(toks[i + 1:e]), toks[i])
    n = toks[i + 1][1]
    k = e + 1
    while not is_p(toks[k], '{'):
        k += 1
    if text_of(toks[e + 1:k]) != '->Vec<Vec<MirRelationVersion>>':
        bad("return type `%s`" % text_of(toks[e + 1:k]), toks[e + 1])
    hi = close_of(toks, k)
    p = P(toks, k, hi + 1)
    ctx.globs = set(ctx.file_globs)
    pred = n + '_pred'
    ver = lambda: ver_expr(p, ctx)

    def count_expr():  # `n` | `n - 1` | `0`  ->  (Lean text, symbolic value)
        q = p.peek()
        if q[0] == 'num' and q[1] == '0':
            p.i += 1
            return '0', 'zero'
        if p.ident() != n:
            bad("size/index expression starting with `%s`" % q[1], q)
        if p.eat('-'):
            q2 = p.peek()
            if q2[1] != '1':
                bad("`%s - %s`" % (n, q2[1]), q2)
            p.i += 1
            return pred, 'n-1'
        return '(%s + 1)' % pred, 'n'

    p.expect('{')
    q = p.peek()
    p.expect('if')
    if not (p.ident() == n and p.eat('==') and p.peek()[1] == '0'):
        bad("base-case test that is not `%s == 0`" % n, q)
    p.i += 1
    p.expect('{')
    q = p.peek()
    if not (p.eat('vec') and p.eat('!') and p.eat('[') and p.eat(']')):
        bad("base case that is not `vec![]`", q)
    base = '[]'
    p.expect('}')
    p.expect('else')
    p.expect('{')
    lines, vars_ = [], {}  # name -> ('LL',) | ('L', length) ; moved names removed
    while True:
        q = p.peek()
        if p.eat('let'):
            p.expect('mut')
            v = p.ident()
            p.expect('=')
            if p.at('vec'):
                p.i += 1
                p.expect('!')
                p.expect('[')
                x = ver()
                p.expect(';')
                ln, sym = count_expr()
                p.expect(']')
                vars_[v] = ('L', sym)
                lines.append('let %s := List.replicate %s %s' % (v, ln, x))
            else:
                if p.ident() != name:
                    bad("`let` initialiser that is neither `vec![..]` nor the recursive call", q)
                p.expect('(')
                ln, sym = count_expr()
                p.expect(')')
                if sym != 'n-1':
                    bad("recursive call whose argument is not `%s - 1`" % n, q)
                vars_[v] = ('LL',)
                lines.append('let %s := %s %s' % (v, name, ln))
            p.expect(';')
        elif p.eat('for'):
            x = p.ident()
            p.expect('in')
            p.expect('&')
            p.expect('mut')
            v = p.ident()
            if vars_.get(v) != ('LL',):
                bad("`for .. in &mut %s` where `%s` is not the vector of vectors" % (v, v), q)
            p.expect('{')
            if not (p.ident() == x and p.eat('.') and p.eat('push') and p.eat('(')):
                bad("loop body that is not `%s.push(..);`" % x, q)
            elem = ver()
            p.expect(')')
            p.expect(';')
            p.expect('}')
            lines.append('let %s := %s.map (fun %s => %s ++ [%s])' % (v, v, x, x, elem))
        elif q[0] == 'id' and p.at('[', 1):
            v = p.ident()
            p.expect('[')
            ln, sym = count_expr()
            p.expect(']')
            p.expect('=')
            x = ver()
            p.expect(';')
            if vars_.get(v, ('?',))[0] != 'L':
                bad("index store into `%s`, which is not a vector of versions" % v, q)
            if not (vars_[v][1] == 'n' and sym in ('n-1', 'zero')):
                bad("index store `%s[..]` not provably in bounds" % v, q)
            lines.append('let %s := %s.set %s %s' % (v, v, ln, x))
        elif q[0] == 'id' and p.at('.', 1) and p.at('push', 2):
            v = p.ident()
            p.i += 2
            p.expect('(')
            w = p.ident()
            p.expect(')')
            p.expect(';')
            if vars_.get(v) != ('LL',) or vars_.get(w, ('?',))[0] != 'L':
                bad("`%s.push(%s)` with unexpected operand types" % (v, w), q)
            del vars_[w]
            lines.append('let %s := %s ++ [%s]' % (v, v, w))
        elif q[0] == 'id' and p.at('}', 1):
            v = p.ident()
            if vars_.get(v) != ('LL',):
                bad("result `%s` is not the vector of vectors" % v, q)
            lines.append(v)
            break
        else:
            bad("statement starting with `%s`" % q[1], q)
    p.expect('}')
    p.expect('}')
    if p.i != hi + 1:
        bad("trailing tokens in the function body", p.peek())
    for nm in list(vars_) + [n, pred]:
        if nm in LEAN_RESERVED:
            bad("identifier `%s`" % nm, toks[fn_i])
    out = ['def %s : Nat → List (List AscentVerif.Engine.Ver)' % name,
           '  | 0 => %s' % base,
           '  | %s + 1 =>  -- %s = %s + 1' % (pred, n, pred)]
    out += ['    ' + ln for ln in lines]
    return ['\n'.join(out)]


def ver_expr(p, ctx):
    q = p.peek()
    segs = p.path()
    rv = resolve(segs, ctx, q)
    if rv is None or rv[0] != 'Ver':
        bad("`%s` is not a MirRelationVersion variant" % '::'.join(segs), q)
    lean = dict((v, l) for v, _, l in KVARS['Ver'])[rv[1]]
    if lean is None:
        bad("variant `%s` has no counterpart in the Lean type `Ver`" % rv[1], q)
    return lean


# ------------------------------------------------------------------ delegating one-liners (Dual<T>)

L = 'AscentVerif.Lat.'
# Rust trait bound on the type parameter -> class of the Lean model
BOUND_CLASS = {'PartialOrd': L + 'Lat', 'Ord': L + 'LinOrd', 'Lattice': L + 'Lat', 'BoundedLattice': L + 'BLat'}
# called method -> (bound that provides it, Lean function, argument is `&q.0`, result type, mutates the receiver)
DELEG_CALL = {
    'partial_cmp': ('PartialOrd', L + 'Lat.pcmp', True, ('Opt', 'Ord'), False),
    'cmp': ('Ord', L + 'LinOrd.cmp', True, 'Ord', False),
    'meet': ('Lattice', L + 'Lat.meet', False, 'T', False),
    'join': ('Lattice', L + 'Lat.join', False, 'T', False),
    'meet_mut': ('Lattice', L + 'Lat.meetMut', False, 'bool', True),
    'join_mut': ('Lattice', L + 'Lat.joinMut', False, 'bool', True),
}
# associated function `T::f()` -> (bound that provides it, Lean constant)
DELEG_ASSOC = {'top': ('BoundedLattice', L + 'BLat.top'), 'bottom': ('BoundedLattice', L + 'BLat.bottom')}
# declared fn (the trait's signature) -> (form of `self`, the other parameter is `&Self`, return type)
DELEG_SIG = {
    'partial_cmp': ('ref', True, ('Opt', 'Ord')), 'cmp': ('ref', True, 'Ord'),
    'meet': ('val', False, 'DualSelf'), 'join': ('val', False, 'DualSelf'),
    'meet_mut': ('refmut', False, 'bool'), 'join_mut': ('refmut', False, 'bool'),
    'top': (None, None, 'DualSelf'), 'bottom': (None, None, 'DualSelf'),
}


def find_wrapper_struct(toks, name):
    """check the file-level `struct name<G>(pub G);` (a one-field tuple struct, so that `.0` is the whole content)"""
    dep = depths(toks)
    hits = [i for i in range(len(toks) - 1) if dep[i] == 0 and is_p(toks[i], 'struct') and toks[i + 1][1] == name]
    if len(hits) != 1:
        bad("struct %s: found %d definitions, expected exactly one" % (name, len(hits)))
    i = hits[0]
    j = i
    while not (is_p(toks[j], ';') or is_p(toks[j], '{')):
        j += 1
    txt, g = text_of(toks[i + 2:j + 1]), toks[i + 3][1]
    if toks[i + 3][0] != 'id' or txt not in ('<%s>(pub%s);' % (g, g), '<%s>(%s);' % (g, g)):
        bad("struct %s%s is not a one-field tuple struct `%s<T>(pub T);`" % (name, txt, name), toks[i])


def impl_bound(gen, where, tok):
    """-> (type parameter G, its single trait bound) of `impl<G: B>` / `impl<G> .. where G: B`"""
    if not gen or gen[0][0] != 'id' or gen[0][1] in RUST_KEYWORDS:
        bad("impl generics `<%s>`" % text_of(gen), tok)
    g, bounds = gen[0][1], []
    clauses = [('impl generics `<%s>`' % text_of(gen), gen[1:])]
    if where:
        w = where[:-1] if is_p(where[-1], ',') else where
        if not w or w[0][1] != g:
            bad("`where %s`" % text_of(where), where[0])
        clauses.append(('`where %s`' % text_of(where), w[1:]))
    for what, c in clauses:
        if not c:
            continue
        if len(c) != 2 or not is_p(c[0], ':') or c[1][0] != 'id':
            bad("%s (expected a single bound `%s: Trait`)" % (what, g), tok)
        bounds.append(c[1][1])
    if len(bounds) != 1:
        bad("type parameter `%s` has %d trait bounds, expected exactly one" % (g, len(bounds)), tok)
    if bounds[0] not in BOUND_CLASS:
        bad("bound `%s: %s` has no class in the Lean model" % (g, bounds[0]), tok)
    return g, bounds[0]


def translate_delegating(toks, fn_i, fname, wrapper, generic, bound):
    """one `fn` of an impl for the wrapper `Dual<G>` whose body is a delegating one-liner -> [Lean definition]"""
    CUR['fn'] = fname
    self_form, other_ref, ret = DELEG_SIG[fname]
    # --- signature
    i = fn_i + 2
    if not is_p(toks[i], '('):
        bad("expected `(` after the function name (generic function?)", toks[i])
    e = close_of(toks, i)
    dep = depths(toks)
    parts, cur = [], []
    for m in range(i + 1, e):
        if is_p(toks[m], ',') and dep[m] == dep[i] + 1:
            parts.append(cur)
            cur = []
        else:
            cur.append(toks[m])
    if cur:
        parts.append(cur)
    params = []  # Rust names, in order; the Lean parameter `name_0 : α` is the field `name.0`
    if self_form is None:
        if parts:
            bad("parameter list `%s` (expected none)" % text_of(toks[i + 1:e]), toks[i])
    else:
        want_self = {'val': 'self', 'ref': '&self', 'refmut': '&mutself'}[self_form]
        if len(parts) != 2 or text_of(parts[0]) != want_self:
            bad("parameter list `(%s)` (expected `%s` and one more parameter)"
                % (' '.join(t[1] for t in toks[i + 1:e]), {'&mutself': '&mut self'}.get(want_self, want_self)), toks[i])
        o = parts[1]
        want_ty = '&Self' if other_ref else 'Self'
        alt_ty = ('&%s<%s>' if other_ref else '%s<%s>') % (wrapper, generic)
        if len(o) < 3 or o[0][0] != 'id' or o[0][1] in RUST_KEYWORDS or not is_p(o[1], ':') \
                or text_of(o[2:]) not in (want_ty, alt_ty):
            bad("parameter `%s` (expected `name: %s`)" % (' '.join(t[1] for t in o), want_ty), o[0])
        params = ['self', o[0][1]]
    j = e + 1
    if not is_p(toks[j], '->'):
        bad("function without a return type", toks[j])
    k = j + 1
    while not is_p(toks[k], '{'):
        if is_p(toks[k], 'where'):
            bad("`where` clause", toks[k])
        k += 1
    ret_txt = text_of(toks[j + 1:k])
    ok_ret = {'DualSelf': ('Self', '%s<%s>' % (wrapper, generic)), 'bool': ('bool',),
              'Ord': ('Ordering', 'std::cmp::Ordering', 'core::cmp::Ordering')}
    if ret == ('Opt', 'Ord'):
        oks = tuple('%s<%s>' % (a, b) for a in ('Option', 'std::option::Option', 'core::option::Option')
                    for b in ok_ret['Ord'])
    else:
        oks = ok_ret[ret]
    if ret_txt not in oks:
        bad("return type `%s` (the trait declares `%s`)" % (ret_txt, oks[0]), toks[j + 1])
    hi = close_of(toks, k)
    # --- body: [Dual(] inner [)]
    p = P(toks, k, hi + 1)
    p.expect('{')
    q0 = p.peek()
    if q0[0] == 'eof' or p.at('}'):
        bad("empty function body", q0)
    for kw in ('let', 'return', 'if', 'match', 'loop', 'while', 'for', 'unsafe'):
        if p.at(kw):
            bad("`%s ...` in the body (expected one delegating expression)" % kw, q0)
    wrapped = False
    if (p.at(wrapper) or p.at('Self')) and p.at('(', 1):
        wrapped = True
        p.i += 2

    def proj():
        q = p.peek()
        if q[0] != 'id' or q[1] not in params:
            bad("`%s` where a field `p.0` of a parameter is expected" % q[1], q)
        p.i += 1
        if not (p.eat('.') and p.peek()[0] == 'num'):
            bad("`%s` is not followed by the field access `.0`" % q[1], q)
        if p.peek()[1] != '0':
            bad("field `.%s` (the wrapper has the single field `.0`)" % p.peek()[1], p.peek())
        p.i += 1
        return q[1]

    q = p.peek()
    uses_self = False
    if q[0] == 'id' and q[1] == generic and p.at('::', 1):
        p.i += 2
        f = p.peek()
        if f[0] != 'id' or f[1] not in DELEG_ASSOC:
            bad("associated function `%s::%s`" % (generic, f[1]), f)
        p.i += 1
        if not (p.eat('(') and p.eat(')')):
            bad("`%s::%s` is not called as `%s::%s()`" % (generic, f[1], generic, f[1]), f)
        need, lean_f = DELEG_ASSOC[f[1]]
        val, vty, what = lean_f, 'T', '`%s::%s()`' % (generic, f[1])
    else:
        recv = proj()
        if not p.eat('.'):
            bad("`%s.0` is not followed by a method call" % recv, p.peek())
        m = p.peek()
        if m[0] != 'id' or m[1] not in DELEG_CALL:
            bad("method `.%s` (expected one of %s)" % (m[1], ' / '.join(sorted(DELEG_CALL))), m)
        p.i += 1
        if not p.eat('('):
            bad("`.%s` is not a method call" % m[1], m)
        need, lean_f, argref, vty, mutates = DELEG_CALL[m[1]]
        amp = p.eat('&')
        if p.at('mut'):
            bad("`&mut` argument", p.peek())
        arg = proj()
        if not p.eat(')'):
            bad("`.%s(..)` with more than one argument or a compound argument (found `%s`)" % (m[1], p.peek()[1]), p.peek())
        if amp != argref:
            bad("`.%s(%s%s.0)`: the argument must be passed %s" % (m[1], '&' if amp else '', arg,
                                                                    'by reference' if argref else 'by value'), m)
        if mutates and (recv != 'self' or self_form != 'refmut'):
            bad("`%s.0.%s(..)` mutates its receiver, which is not the field of a `&mut self`" % (recv, m[1]), m)
        if self_form == 'refmut' and not mutates:
            bad("`&mut self` function whose body does not call a `_mut` method on `self.0`", m)
        uses_self = mutates
        val, what = '%s %s_0 %s_0' % (lean_f, recv, arg), '`%s.0.%s(..)`' % (recv, m[1])
    if wrapped:
        if vty != 'T':
            bad("`%s(..)` around %s, whose type is %s" % (wrapper, what, show_type(vty)), q0)
        if not p.eat(')'):
            bad("expected `)` closing `%s(`, found `%s`" % (wrapper, p.peek()[1]), p.peek())
        val, vty = '%sDual.mk %s' % (L, paren(val)), 'DualSelf'
    if not p.at('}') or p.i != hi:
        bad("function body is not a single delegating expression (found `%s` after it)" % p.peek()[1], p.peek())
    if vty != ret:
        bad("%s%s has type %s where %s is expected" % ('`%s(..)` around ' % wrapper if wrapped else '', what,
                                                        show_type(vty), show_type(ret)), q0)
    if need != bound:
        bad("%s needs the bound `%s: %s`, the impl has `%s: %s`" % (what, generic, need, generic, bound), q)
    # --- Lean
    if uses_self:
        lean_ret = 'α × Bool'
        doc = '/-- `&mut self`: the value is (the new content of `self.0`, the returned flag) -/\n'
    else:
        lean_ret, doc = lean_type(ret), ''
    binders = ''.join(' (%s_0 : α)' % r for r in params)
    return ['%sdef %s {α : Type} [%s α]%s : %s :=\n  %s' % (doc, fname, BOUND_CLASS[bound], binders, lean_ret, val)]


def generate_delegating(target, toks, impls):
    """-> (definitions, descriptions) for a wrapper type all of whose trait fns are delegating one-liners"""
    wrapper = target['wrapper']
    find_wrapper_struct(toks, wrapper)
    defs, described = [], []
    for trait, fnames in target['impls']:
        CUR['fn'] = '-'
        blocks = []
        for tr_, ty_, gen, lo, hi, where in impls:
            if tr_ == trait and gen and gen[0][0] == 'id' and ty_ == '%s<%s>' % (wrapper, gen[0][1]):
                blocks.append((gen, lo, hi, where))
        shown = 'impl %s for %s<T>' % (trait, wrapper)
        if len(blocks) != 1:
            bad("%s: found %d impl blocks, expected exactly one" % (shown, len(blocks)))
        gen, lo, hi, where = blocks[0]
        generic, bound = impl_bound(gen, where, toks[lo])
        dep = depths(toks)
        present = [toks[i + 1][1] for i in range(lo + 1, hi - 1) if is_p(toks[i], 'fn') and dep[i] == dep[lo + 1]]
        for extra in present:
            if extra not in fnames:
                bad("%s defines fn %s, for which the Lean model assumes the trait's default" % (shown, extra), toks[lo])
        for fname in fnames:
            CUR['fn'] = fname
            where_ = '%s :: fn %s' % (shown, fname)
            hits = find_fn(toks, lo + 1, hi, fname, False)
            if len(hits) != 1:
                bad("%s: found %d definitions, expected exactly one" % (where_, len(hits)))
            new = translate_delegating(toks, hits[0], fname, wrapper, generic, bound)
            described.append(where_)
            defs.append('/-! `%s` -/' % where_)
            defs += new
    return defs, described


# ------------------------------------------------------------------ targets and driver

TARGETS = [
    {'out': 'ConstProp.lean', 'src': 'ascent_base/src/lattice/constant_propagation.rs',
     'imp': 'AscentVerif.Model.Lattice', 'ns': 'AscentVerif.Generated.ConstProp', 'enum': 'ConstPropagation',
     'fns': [('PartialOrd', 'ConstPropagation<T>', 'partial_cmp'), ('Lattice', 'ConstPropagation<T>', 'meet'),
             ('Lattice', 'ConstPropagation<T>', 'join'), ('Lattice', 'ConstPropagation<T>', 'meet_mut'),
             ('Lattice', 'ConstPropagation<T>', 'join_mut')]},
    {'out': 'Product.lean', 'src': 'ascent_base/src/lattice/product.rs',
     'imp': 'AscentVerif.Model.Lattice', 'ns': 'AscentVerif.Generated', 'enum': None,
     'fns': [(None, None, 'combine_orderings')]},
    {'out': 'OptionLat.lean', 'src': 'ascent_base/src/lattice.rs',
     'imp': 'AscentVerif.Model.Lattice', 'ns': 'AscentVerif.Generated.OptionLat', 'enum': None,
     'fns': [('Lattice', 'Option<T>', 'meet_mut'), ('Lattice', 'Option<T>', 'join_mut')]},
    {'out': 'Versions.lean', 'src': 'ascent_macro/src/ascent_mir.rs',
     'imp': 'AscentVerif.Model.Engine', 'ns': 'AscentVerif.Generated', 'enum': 'MirRelationVersion',
     'fns': [('*', None, 'versions_base')]},
    {'out': 'Dual.lean', 'src': 'ascent_base/src/lattice/dual.rs',
     'imp': 'AscentVerif.Model.Lattice', 'ns': 'AscentVerif.Generated.Dual', 'enum': None,
     'wrapper': 'Dual', 'fns': [],
     'impls': [('PartialOrd', ['partial_cmp']), ('Ord', ['cmp']),
               ('Lattice', ['meet', 'join', 'meet_mut', 'join_mut']), ('BoundedLattice', ['top', 'bottom'])]},
]
SELF_TYPES = {'ConstPropagation<T>': 'CP', 'Option<T>': ('Opt', 'T')}
BOUNDS = {'PartialEq': 'deceq', 'Lattice': 'lat'}


def generate(target, repo):
    CUR['file'], CUR['fn'] = target['src'], '-'
    path = os.path.join(repo, target['src'])
    try:
        with open(path, encoding='utf-8') as f:
            src = f.read()
    except OSError as ex:
        bad("cannot read the source file (%s)" % ex)
    toks = tokenize(src)
    if target['enum']:
        got = find_enum(toks, target['enum'])
        want = [(v, a) for v, a, _ in ENUMS[target['enum']][1]]
        if got != want:
            bad("enum %s has variants %r, the translator's table expects %r" % (target['enum'], got, want))
    globs = set(KIND[g] for g in file_globs(toks) if g in KIND)
    impls = find_impls(toks)
    defs, described = [], []
    for trait, ty, fname in target['fns']:
        CUR['fn'] = fname
        ctx = Ctx()
        ctx.file_globs, ctx.rust_fn, ctx.lean_fn = globs, fname, fname
        ctx.self_ty, ctx.generic, ctx.payload_class = None, '', None
        if trait == '*':
            hits = find_fn(toks, 0, len(toks), fname, True)
            where = 'nested fn %s' % fname
        elif trait is None:
            hits = find_fn(toks, 0, len(toks), fname, False)
            where = 'fn %s' % fname
        else:
            hits, where = [], 'impl %s for %s :: fn %s' % (trait, ty, fname)
            for tr_, ty_, gen, lo, hi, _where in impls:
                if tr_ == trait and ty_ == ty:
                    for h in find_fn(toks, lo + 1, hi, fname, False):
                        hits.append(h)
                        g = text_of(gen)
                        if len(gen) != 3 or gen[0][0] != 'id' or not is_p(gen[1], ':') or gen[2][1] not in BOUNDS:
                            bad("impl generics `<%s>` (expected `<T: PartialEq>` or `<T: Lattice>`)" % g, toks[lo])
                        ctx.generic, ctx.payload_class = gen[0][1], BOUNDS[gen[2][1]]
                        if ty != 'ConstPropagation<%s>' % ctx.generic and ty != 'Option<%s>' % ctx.generic:
                            bad("impl type `%s`" % ty, toks[lo])
                        ctx.self_ty = SELF_TYPES[ty]
        if len(hits) != 1:
            bad("%s: found %d definitions, expected exactly one" % (where, len(hits)))
        fn_i = hits[0]
        if trait == '*':
            new = translate_versions(toks, fn_i, ctx)
        else:
            new = translate_table_fn(toks, fn_i, ctx)
        described.append(where)
        defs.append('/-! `%s` -/' % where)
        defs += new
    if 'wrapper' in target:
        defs, described = generate_delegating(target, toks, impls)
    head = ['-- GENERATED by tools/rs2lean.py -- do not edit; rerun the tool instead.',
            '-- source file: %s' % target['src']]
    head += ['-- function:    %s' % d for d in described]
    head += ['import %s' % target['imp'], '', 'namespace %s' % target['ns'], '']
    return '\n'.join(head) + '\n' + '\n\n'.join(defs) + '\n\nend %s\n' % target['ns']


def main():
    ap = argparse.ArgumentParser(description=__doc__.split('\n')[0])
    ap.add_argument('--repo', required=True)
    ap.add_argument('--out', required=True)
    ap.add_argument('--skip', action='append', default=[], help='output file to skip, e.g. Versions.lean')
    args = ap.parse_args()
    os.makedirs(args.out, exist_ok=True)
    results, status = [], 0
    for target in TARGETS:
        if target['out'] in args.skip:
            continue
        dest = os.path.join(args.out, target['out'])
        try:
            try:
                results.append((dest, generate(target, args.repo)))
            except (IndexError, KeyError, TypeError, ValueError, AttributeError) as ex:
                bad("source could not be parsed (%s: %s)" % (type(ex).__name__, ex))
        except Unsupported as ex:
            sys.stderr.write(str(ex) + '\n')
            status = 2
            if os.path.exists(dest):
                os.remove(dest)  # never leave a stale model behind
    if status:
        sys.stderr.write("rs2lean: nothing written (exit 2)\n")
        return status
    for dest, text in results:
        with open(dest, 'w', encoding='utf-8', newline='\n') as f:
            f.write(text)
        print("rs2lean: wrote %s" % dest)
    return 0


if __name__ == '__main__':
    sys.exit(main())
