import AscentVerif.Model.Sexp
import AscentVerif.Model.Aggregators
import AscentVerif.Props.C17
