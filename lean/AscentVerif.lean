import AscentVerif.Model.Sexp
import AscentVerif.Model.Aggregators
import AscentVerif.Props.C17
import AscentVerif.Props.C16Basic
import AscentVerif.Props.C16Struct
import AscentVerif.Model.Index
import AscentVerif.Props.C19
import AscentVerif.Props.C01
