import AscentVerif.Driver.Agg
import AscentVerif.Driver.LatTypes
import AscentVerif.Driver.Idx
import AscentVerif.Driver.Engine
import AscentVerif.Driver.UF
import AscentVerif.Driver.TrInd
import AscentVerif.Driver.EngDs
import AscentVerif.Driver.TrRelInd
import AscentVerif.Driver.EqRel
import AscentVerif.Driver.Check
import AscentVerif.Driver.Surface
open AscentVerif AscentVerif.Driver
open AscentVerif.Driver.Trp (handleTrp TrpStore)

structure St where
  idx : Store := []
  eng : EngStore := {}
  uf : UFStore := {}
  tri : TriStore := {}
  dsx : DsStore := {}
  trp : TrpStore := []
  eq : EqStore := {}

def step (st : St) (line : String) : St × String :=
  match Sexp.parseLine line with
  | none => (st, "bad-line")
  | some [] => (st, "")
  | some (.atom "agg" :: rest) => (st, (handleAgg rest).getD "bad-op")
  | some (.atom "lat" :: .atom ty :: .atom op :: rest) => (st, (latDispatch ty op rest).getD "bad-op")
  | some (.atom "idx" :: rest) =>
    match handleIdx st.idx rest with
    | some (s', out) => ({ st with idx := s' }, out)
    | none => (st, "bad-op")
  | some (.atom "uf" :: rest) =>
    match handleUf st.uf rest with
    | some (s', out) => ({ st with uf := s' }, out)
    | none => (st, "bad-op")
  | some (.atom "tr" :: rest) =>
    match handleTr st.uf rest with
    | some (s', out) => ({ st with uf := s' }, out)
    | none => (st, "bad-op")
  | some (.atom "tri" :: rest) =>
    match handleTri st.tri rest with
    | some (s', out) => ({ st with tri := s' }, out)
    | none => (st, "bad-op")
  | some (.atom "dsx" :: rest) =>
    match handleDsx st.dsx rest with
    | some (s', out) => ({ st with dsx := s' }, out)
    | none => (st, "bad-op")
  | some (.atom "trp" :: rest) =>
    match handleTrp st.trp rest with
    | some (s', out) => ({ st with trp := s' }, out)
    | none => (st, "bad-op")
  | some (.atom "eq" :: rest) =>
    match handleEq false st.eq rest with
    | some (s', out) => ({ st with eq := s' }, out)
    | none => (st, "bad-op")
  | some (.atom "ceq" :: rest) =>
    match handleEq true st.eq rest with
    | some (s', out) => ({ st with eq := s' }, out)
    | none => (st, "bad-op")
  | some (.atom "eqtwin" :: rest) => (st, (handleEqTwin rest).getD "bad-op")
  | some (.atom "chk" :: rest) => (st, (handleChk rest).getD "bad-op")
  | some (.atom "chkc" :: rest) => (st, (handleChkCount rest).getD "bad-op")
  | some (.atom "eng" :: .atom "sprog" :: rest) =>
    match handleSProg st.eng rest with
    | some (s', out) => ({ st with eng := s' }, out)
    | none => (st, "bad-op")
  | some (.atom "eng" :: rest) =>
    match handleEng st.eng rest with
    | some (s', out) => ({ st with eng := s' }, out)
    | none => (st, "bad-op")
  | some _ => (st, "bad-op")

partial def loop (h : IO.FS.Stream) (out : IO.FS.Stream) (st : St) : IO Unit := do
  let line ← h.getLine
  if line.isEmpty then return ()
  let (st', o) := step st line
  out.putStrLn o
  loop h out st'

def main : IO Unit := do
  let out ← IO.getStdout
  loop (← IO.getStdin) out {}
  out.flush
