import AscentVerif.Driver.Agg
import AscentVerif.Driver.LatTypes
open AscentVerif AscentVerif.Driver

def step (line : String) : String :=
  match Sexp.parseLine line with
  | none => "bad-line"
  | some [] => ""
  | some (.atom "agg" :: rest) => (handleAgg rest).getD "bad-op"
  | some (.atom "lat" :: .atom ty :: .atom op :: rest) => (latDispatch ty op rest).getD "bad-op"
  | some _ => "bad-op"

partial def loop (h : IO.FS.Stream) (out : IO.FS.Stream) : IO Unit := do
  let line ← h.getLine
  if line.isEmpty then return ()
  out.putStrLn (step line)
  loop h out

def main : IO Unit := do
  let out ← IO.getStdout
  loop (← IO.getStdin) out
  out.flush
