import AscentVerif.Props.C13
/-!
# C14 — run_timeout stops only in a sound, resumable state

The deadline is an arbitrary oracle over the clock readings (one after every changing
iteration of every looping SCC, one at the end of every non-looping SCC), so the theorems
cover every point at which the deadline can strike, and any number of repeated interruptions.
Serial programs without aggregation and lattices (with aggregation: finding F2).
-/
namespace AscentVerif.Engine
open AscentVerif

variable {E B G P A : Type}

/-- `run_timeout` returned `true`: the relations equal the full fixed point -/
theorem timeout_true_complete (I : Interp E B G P A) (cfg : Config) (p : Program E B G P A) (order : SccOrder)
    (dl : Deadline) (s : St) (fuel : Nat) (ps : ProgSt)
    (hp : Relational p) (ho : validOrder p order = true) (hs : WFSt p s)
    (hrun : runTimeout I cfg p order dl fuel s = .done ps) :
    ∀ f, factsOf ps.st f ↔ Derivable I p.rules noAgg (stDB p s) f := fun f =>
  ⟨runFrom_sound I cfg p (fun r => (relSt s r).rows) hp.2.1 hp.1 hp.2.2 order ho dl fuel s ps hs (fun _ _ => rfl) hrun f,
   runFrom_complete I cfg p (fun r => (relSt s r).rows) hp.2.1 hp.1 hp.2.2 order ho dl fuel s ps hs (fun _ _ => rfl) hrun f⟩

/-- `run_timeout` returned `false`, at whatever point the deadline struck: every tuple present
is derivable from the inputs, no input is lost, and the value is a well-formed program value -/
theorem timeout_false_sound (I : Interp E B G P A) (cfg : Config) (p : Program E B G P A) (order : SccOrder)
    (dl : Deadline) (s : St) (fuel : Nat) (ps : ProgSt)
    (hp : Relational p) (ho : validOrder p order = true) (hs : WFSt p s)
    (hrun : runTimeout I cfg p order dl fuel s = .timedOut ps) :
    WFSt p ps.st ∧ (∀ f, factsOf ps.st f → Derivable I p.rules noAgg (stDB p s) f) ∧
      (∀ f, stDB p s f → factsOf ps.st f) := by
  obtain ⟨h1, h2, h3⟩ := runTimeout_sound I cfg p order dl s fuel ps hp ho hs (Or.inr hrun)
  exact ⟨h1, h2, fun f hf => h3 f hf.1 hf.2⟩

/-- a history of interrupted calls: each starts where the previous one stopped -/
inductive Interrupted (I : Interp E B G P A) (cfg : Config) (p : Program E B G P A) (order : SccOrder) : St → St → Prop where
  | refl (s : St) : Interrupted I cfg p order s s
  | step {s t u : St} (dl : Deadline) (fuel : Nat) (ps : ProgSt) :
      Interrupted I cfg p order s t → runTimeout I cfg p order dl fuel t = .timedOut ps → u = ps.st →
      Interrupted I cfg p order s u

/-- after any number of interruptions at any points the state is still between the input and its least model -/
theorem interrupted_between (I : Interp E B G P A) (cfg : Config) (p : Program E B G P A) (order : SccOrder)
    (hp : Relational p) (ho : validOrder p order = true) {s t : St} (hs : WFSt p s)
    (h : Interrupted I cfg p order s t) :
    WFSt p t ∧ (∀ f, factsOf t f → Derivable I p.rules noAgg (stDB p s) f) ∧ (∀ f, stDB p s f → factsOf t f) := by
  induction h with
  | refl => exact ⟨hs, fun f hf => derivable_input ⟨by
      have := lt_of_mem_rows s f.rel f.args hf; rw [hs.1] at this; exact this, hf⟩, fun f hf => hf.2⟩
  | step dl fuel ps _ hrun hu ih =>
    obtain ⟨hw, hsound, hkeep⟩ := ih
    obtain ⟨hw', hsound', hkeep'⟩ := timeout_false_sound I cfg p order dl _ fuel ps hp ho hw hrun
    subst hu
    refine ⟨hw', fun f hf => ?_, fun f hf => hkeep' f ⟨hf.1, hkeep f hf⟩⟩
    have := hsound' f hf
    exact (derivable_between (I := I) (rules := p.rules) (agg := noAgg) (inp := stDB p s) (D := stDB p _)
      (fun g hg => ⟨hg.1, hkeep g hg⟩) (fun g hg => hsound g hg.2) f).mp this

/-- **resumption completes to exactly the uninterrupted fixed point**: after any sequence of
interrupted `run_timeout` calls, a call that runs to completion (`run()`, or a `run_timeout`
that returns `true`) leaves exactly the least model of the ORIGINAL inputs -/
theorem resume_complete (I : Interp E B G P A) (cfg : Config) (p : Program E B G P A) (order : SccOrder)
    (hp : Relational p) (ho : validOrder p order = true) {s t : St} (hs : WFSt p s)
    (h : Interrupted I cfg p order s t) (dl : Deadline) (fuel : Nat) (ps : ProgSt)
    (hrun : runTimeout I cfg p order dl fuel t = .done ps) :
    ∀ f, factsOf ps.st f ↔ Derivable I p.rules noAgg (stDB p s) f := by
  obtain ⟨hw, hsound, hkeep⟩ := interrupted_between I cfg p order hp ho hs h
  intro f
  rw [timeout_true_complete I cfg p order dl t fuel ps hp ho hw hrun f]
  exact derivable_between (I := I) (rules := p.rules) (agg := noAgg) (inp := stDB p s) (D := stDB p t)
    (fun g hg => ⟨hg.1, hkeep g hg⟩) (fun g hg => hsound g hg.2) f

/-- non-vacuity: the deadline that strikes at the very first reading is a legal oracle, and so is `never` -/
example : (fun k => k == 0 : Deadline) 0 = true ∧ never 5 = false := by decide

end AscentVerif.Engine
