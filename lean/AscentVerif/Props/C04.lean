import AscentVerif.Props.C01
import AscentVerif.Proofs.AggStrata
/-!
# C04 — negation and aggregation see the complete relation, each tuple once

Programs with `agg` items (negation is `agg () = not() in r(..)`), no lattices.  Accepted
programs are *stratified*: no SCC aggregates over one of its own head relations
(`aggOverDynamic`, the model of "use of aggregated relation cannot be stratified").
All statements are proved (helper development: `Proofs/Agg{EvalBody,Pass,Scc,Strata}.lean`).
Since fix 8b2e261 (`update_indices` rebuilds the indices) the statements hold from ANY well-formed
program value, not only from a fresh one: findings F2 / F3 are closed and their witnesses pass.
-/
namespace AscentVerif.Engine
open AscentVerif

variable {E B G P A : Type}

/-- no lattice relations; every head relation and every aggregated relation is declared -/
def RelationalAgg (p : Program E B G P A) : Prop :=
  (∀ d ∈ p.rels, d.lat = false) ∧ (∀ r ∈ p.rules, ∀ h ∈ r.heads, h.rel < p.rels.length)

/-- accepted by the stratification check under the given SCC order -/
def Stratified (p : Program E B G P A) (order : SccOrder) : Prop := ∀ scc ∈ order, aggOverDynamic p scc = false

/-- the list of tuples of relation `r` that the engine hands to the aggregation machinery when it
reads `r` from a program value (`aggTuples` on a non-dynamic relation): its stored index entries -/
def aggView (s : St) (r : RelId) : List Tuple := ((relSt s r).idx).map (rowAt (relSt s r).rows)

/-! ## helpers -/

private theorem eraseDups_of_nodup {α : Type} [BEq α] [LawfulBEq α] :
    ∀ (n : Nat) (l : List α), l.length ≤ n → l.Nodup → l.eraseDups = l
  | _, [], _, _ => by simp
  | 0, _ :: _, h, _ => by simp at h
  | n + 1, b :: l, h, hnd => by
    have hb : b ∉ l := (List.nodup_cons.mp hnd).1
    have hf : (l.filter fun x => !x == b) = l := by
      rw [List.filter_eq_self]
      intro a ha
      have : a ≠ b := fun e => hb (e ▸ ha)
      simpa using this
    rw [List.eraseDups_cons, hf, eraseDups_of_nodup n l (by simpa using h) (List.nodup_cons.mp hnd).2]

private theorem map_rowAt_range (rows : List Tuple) : (List.range rows.length).map (rowAt rows) = rows := by
  apply List.ext_getElem
  · simp
  · intro i h1 h2
    simp [rowAt, List.getD_eq_getElem?_getD, List.getElem?_eq_getElem h2]

/-- what an aggregation item reads from a program value is the relation's `aggView`, deduplicated
for full-key items -/
private theorem aggOf_eq (cfg : Config) (p : Program E B G P A) (hl : ∀ d ∈ p.rels, d.lat = false) (st : St)
    (a : AggClause E A) :
    Agg.aggOf cfg p st a = if aggIsFull a then dedupTuples (aggView st a.rel) else aggView st a.rel := by
  simp [Agg.aggOf, aggTuples, aggView, readBag_id cfg p hl, declOf_lat p hl]

private theorem aggOf_eq_of_nodup (cfg : Config) (p : Program E B G P A) (hl : ∀ d ∈ p.rels, d.lat = false) (st : St)
    (a : AggClause E A) (hnd : (aggView st a.rel).Nodup) : Agg.aggOf cfg p st a = aggView st a.rel := by
  rw [aggOf_eq cfg p hl]
  split
  · exact eraseDups_of_nodup _ _ (Nat.le_refl _) hnd
  · rfl

private theorem aggView_of_ge (st : St) (r : RelId) (h : st.length ≤ r) : aggView st r = [] := by
  simp [aggView, relSt_of_ge st r h]

/-- a completed run from ANY well-formed program value (fresh or left by earlier runs / pushes /
an initialiser) whose row vectors are duplicate-free: the view of every relation (declared or not) is
duplicate-free and a permutation of the rows -/
private theorem view_once_from (I : Interp E B G P A) (cfg : Config) (p : Program E B G P A) (order : SccOrder)
    (s : St) (fuel : Nat) (ps : ProgSt)
    (hp : RelationalAgg p) (ho : validOrder p order = true) (hs : Stratified p order) (hs0 : WFSt p s)
    (hnd : ∀ r, (relSt s r).rows.Nodup)
    (hrun : run I cfg p order fuel s = .done ps) :
    ∀ r, (aggView ps.st r).Nodup ∧ (aggView ps.st r).Perm (relSt ps.st r).rows := by
  have hspec := Agg.run_spec I cfg p (fun r => (relSt s r).rows) True hp.1 hp.2 order ho hs never fuel s ps
    hs0 (fun _ _ => rfl) hrun
  intro r
  have hperm : (aggView ps.st r).Perm (relSt ps.st r).rows := by
    have h1 : ((relSt ps.st r).idx).Perm (List.range (relSt ps.st r).rows.length) := by
      rw [List.perm_ext_iff_of_nodup (hspec.1.idxNd trivial r) List.nodup_range]
      intro i
      rw [List.mem_range]
      exact (hspec.1.idxAll r i).symm
    have h2 := h1.map (rowAt (relSt ps.st r).rows)
    rw [map_rowAt_range] at h2
    exact h2
  refine ⟨?_, hperm⟩
  rw [hperm.nodup_iff]
  by_cases hr : r < p.rels.length
  · obtain ⟨derived, hrows, hd1, hd2⟩ := (hspec.1.good r hr).2
    rw [hrows, List.nodup_append]
    exact ⟨hnd r, hd1, fun a ha b hb e => hd2 b hb (e ▸ ha)⟩
  · rw [relSt_of_ge _ _ (by rw [hspec.1.len]; exact Nat.le_of_not_lt hr)]
    exact List.nodup_nil

private theorem rows_initSt_nodup (p : Program E B G P A) (inp : RelId → List Tuple) (hnd : ∀ r, (inp r).Nodup) (r : RelId) :
    (relSt (initSt p inp) r).rows.Nodup := by
  by_cases hr : r < p.rels.length
  · rw [rows_initSt p inp r hr]; exact hnd r
  · rw [relSt_of_ge _ _ (by simpa [initSt] using Nat.le_of_not_lt hr)]; exact List.nodup_nil

/-- **each distinct tuple exactly once**: after a `run()` on duplicate-free inputs, the list
handed to aggregators for every relation is a duplicate-free enumeration of exactly its rows -/
theorem agg_view_each_once (I : Interp E B G P A) (cfg : Config) (p : Program E B G P A) (order : SccOrder)
    (inp : RelId → List Tuple) (fuel : Nat) (ps : ProgSt)
    (hp : RelationalAgg p) (ho : validOrder p order = true) (hs : Stratified p order) (hnd : ∀ r, (inp r).Nodup)
    (hrun : run I cfg p order fuel (initSt p inp) = .done ps) :
    ∀ r, r < p.rels.length → (aggView ps.st r).Nodup ∧ (aggView ps.st r).Perm (relSt ps.st r).rows :=
  fun r _ => view_once_from I cfg p order _ fuel ps hp ho hs (WFSt_initSt p inp) (rows_initSt_nodup p inp hnd) hrun r

/-- **… from any program value** (since fix 8b2e261, which rebuilds the indices in `update_indices`;
before it this failed on a second `run()`, finding F2, and after an initialiser, finding F3): whatever
the stored indices held, after a completed `run()` every relation's view is a duplicate-free
enumeration of exactly its rows, provided the row vectors of the start value are duplicate-free -/
theorem agg_view_each_once_from (I : Interp E B G P A) (cfg : Config) (p : Program E B G P A) (order : SccOrder)
    (s : St) (fuel : Nat) (ps : ProgSt)
    (hp : RelationalAgg p) (ho : validOrder p order = true) (hs : Stratified p order) (hs0 : WFSt p s)
    (hnd : ∀ r, (relSt s r).rows.Nodup)
    (hrun : run I cfg p order fuel s = .done ps) :
    ∀ r, (aggView ps.st r).Nodup ∧ (aggView ps.st r).Perm (relSt ps.st r).rows :=
  view_once_from I cfg p order s fuel ps hp ho hs hs0 hnd hrun

/-- **aggregation sees the final relation, and run() computes the stratified model**: the result is
exactly the least model of the rules in which every `agg` / negation is evaluated against the FINAL
content of the relation it ranges over (for a stratified program this fixed-point equation has the
stratified model as its only solution) -/
theorem run_agg_eq_model (I : Interp E B G P A) (cfg : Config) (p : Program E B G P A) (order : SccOrder)
    (inp : RelId → List Tuple) (fuel : Nat) (ps : ProgSt)
    (hp : RelationalAgg p) (ho : validOrder p order = true) (hs : Stratified p order) (hnd : ∀ r, (inp r).Nodup)
    (hrun : run I cfg p order fuel (initSt p inp) = .done ps) :
    ∀ f, factsOf ps.st f ↔ Derivable I p.rules (aggView ps.st) (inputDB p inp) f := by
  intro f
  have h1 := Agg.runFrom_eq_model I cfg p inp True hp.1 hp.2 order ho hs never fuel (initSt p inp) ps
    (WFSt_initSt p inp) (rows_initSt p inp) hrun f
  have h2 : Agg.DerA I p.rules (Agg.aggOf cfg p ps.st) (inDB p inp) f ↔
      Agg.DerA I p.rules (fun a => aggView ps.st a.rel) (inDB p inp) f :=
    Agg.derA_congr (fun _ _ a _ => aggOf_eq_of_nodup cfg p hp.1 ps.st a
      (view_once_from I cfg p order _ fuel ps hp ho hs (WFSt_initSt p inp) (rows_initSt_nodup p inp hnd) hrun a.rel).1) f
  exact h1.trans (h2.trans Agg.derivable_iff_derA.symm)

/-- **… from any program value with duplicate-free rows** (second and later runs, runs after pushes,
runs after an initialiser): the result is the least model over the facts the start value holds, every
aggregation evaluated against the final view of its relation -/
theorem run_agg_eq_model_from (I : Interp E B G P A) (cfg : Config) (p : Program E B G P A) (order : SccOrder)
    (s : St) (fuel : Nat) (ps : ProgSt)
    (hp : RelationalAgg p) (ho : validOrder p order = true) (hs : Stratified p order) (hs0 : WFSt p s)
    (hnd : ∀ r, (relSt s r).rows.Nodup)
    (hrun : run I cfg p order fuel s = .done ps) :
    ∀ f, factsOf ps.st f ↔
      Derivable I p.rules (aggView ps.st) (fun f => f.rel < p.rels.length ∧ factsOf s f) f := by
  intro f
  have h1 := Agg.runFrom_eq_model I cfg p (fun r => (relSt s r).rows) True hp.1 hp.2 order ho hs never fuel s ps
    hs0 (fun _ _ => rfl) hrun f
  have h2 : Agg.DerA I p.rules (Agg.aggOf cfg p ps.st) (inDB p fun r => (relSt s r).rows) f ↔
      Agg.DerA I p.rules (fun a => aggView ps.st a.rel) (inDB p fun r => (relSt s r).rows) f :=
    Agg.derA_congr (fun _ _ a _ => aggOf_eq_of_nodup cfg p hp.1 ps.st a
      (view_once_from I cfg p order s fuel ps hp ho hs hs0 hnd hrun a.rel).1) f
  exact h1.trans (h2.trans Agg.derivable_iff_derA.symm)

set_option linter.unusedVariables false in
/-- when an SCC containing an aggregation over `r` is evaluated, `r` already has its final content:
nothing processed afterwards (this SCC or later ones) changes `r` (stated on `runSccs`).
(`h0` and `hpre` are not needed: the frame argument holds from any state.) -/
theorem agg_sees_final (I : Interp E B G P A) (cfg : Config) (p : Program E B G P A) (dl : Deadline) (fuel : Nat)
    (pre post : SccOrder) (scc : List Nat) (ps0 ps ps' : ProgSt)
    (hp : RelationalAgg p) (ho : validOrder p (pre ++ scc :: post) = true) (hs : Stratified p (pre ++ scc :: post))
    (h0 : WFSt p ps0.st)
    (hpre : runSccs I cfg p dl fuel pre ps0 = .done ps)
    (hpost : runSccs I cfg p dl fuel (scc :: post) ps = .done ps')
    (r : RelId) (hagg : ∃ rule ∈ sccRules p scc, ∃ a, Item.agg a ∈ rule.body ∧ a.rel = r) :
    (relSt ps'.st r).rows = (relSt ps.st r).rows := by
  obtain ⟨rule, hrule, a, ha, rfl⟩ := hagg
  rw [Agg.agg_rel_final I cfg p hp.1 dl fuel pre post scc ps ps' ho hs hpost rule hrule a ha]

/-- the rows are sets here too (C05 for stratified programs) -/
theorem run_agg_rows_set (I : Interp E B G P A) (cfg : Config) (p : Program E B G P A) (order : SccOrder)
    (inp : RelId → List Tuple) (fuel : Nat) (ps : ProgSt)
    (hp : RelationalAgg p) (ho : validOrder p order = true) (hs : Stratified p order)
    (hrun : run I cfg p order fuel (initSt p inp) = .done ps) :
    ∀ r, r < p.rels.length → ∃ derived : List Tuple,
      (relSt ps.st r).rows = inp r ++ derived ∧ derived.Nodup ∧ ∀ t ∈ derived, t ∉ inp r :=
  Agg.runFrom_rows_set I cfg p inp True hp.1 hp.2 order ho hs never fuel (initSt p inp) ps
    (WFSt_initSt p inp) (rows_initSt p inp) hrun

/-- **any well-formed start value, no assumption on duplicates**.  The result is the least model in
which every aggregation ITEM is evaluated on what it reads from the final value (`Agg.aggOf`: the stored
index entries, deduplicated for full-key items); `Agg.DerA` is `Derivable` with one list per item
instead of per relation (`Agg.derivable_iff_derA`).  Duplicate rows of the START value are the only
source of repeated entries (finding F15: caller duplicates are counted per occurrence). -/
theorem run_agg_from_eq_model (I : Interp E B G P A) (cfg : Config) (p : Program E B G P A) (order : SccOrder)
    (s : St) (fuel : Nat) (ps : ProgSt)
    (hp : RelationalAgg p) (ho : validOrder p order = true) (hs : Stratified p order) (hs0 : WFSt p s)
    (hrun : run I cfg p order fuel s = .done ps) :
    ∀ f, factsOf ps.st f ↔
      Agg.DerA I p.rules (Agg.aggOf cfg p ps.st) (fun f => f.rel < p.rels.length ∧ factsOf s f) f :=
  Agg.runFrom_eq_model I cfg p (fun r => (relSt s r).rows) False hp.1 hp.2 order ho hs never fuel s ps
    hs0 (fun _ _ => rfl) hrun

/-- **a second `run()` sees each tuple once as well** (the history of finding F2, fixed by 8b2e261):
run from a fresh value with duplicate-free inputs, then run again on the value left behind — the view
handed to aggregators is still a duplicate-free enumeration of the rows -/
theorem second_run_agg_view_each_once (I : Interp E B G P A) (cfg : Config) (p : Program E B G P A) (order : SccOrder)
    (inp : RelId → List Tuple) (fuel₁ fuel₂ : Nat) (ps₁ ps₂ : ProgSt)
    (hp : RelationalAgg p) (ho : validOrder p order = true) (hs : Stratified p order) (hnd : ∀ r, (inp r).Nodup)
    (h₁ : run I cfg p order fuel₁ (initSt p inp) = .done ps₁)
    (h₂ : run I cfg p order fuel₂ ps₁.st = .done ps₂) :
    ∀ r, (aggView ps₂.st r).Nodup ∧ (aggView ps₂.st r).Perm (relSt ps₂.st r).rows := by
  have hspec := Agg.run_spec I cfg p inp True hp.1 hp.2 order ho hs never fuel₁ (initSt p inp) ps₁
    (WFSt_initSt p inp) (rows_initSt p inp) h₁
  have hw : WFSt p ps₁.st := by
    refine ⟨hspec.1.len, ?_⟩
    intro rs hrs i hi
    obtain ⟨r, hr, rfl⟩ := List.mem_iff_getElem.mp hrs
    have e : relSt ps₁.st r = ps₁.st[r] := by simp [relSt, List.getD_eq_getElem?_getD, List.getElem?_eq_getElem hr]
    rw [← e] at hi ⊢
    exact (hspec.1.idxAll r i).mpr hi
  have hnd₁ : ∀ r, (relSt ps₁.st r).rows.Nodup := by
    intro r
    have h := (view_once_from I cfg p order _ fuel₁ ps₁ hp ho hs (WFSt_initSt p inp) (rows_initSt_nodup p inp hnd) h₁ r)
    exact h.2.nodup_iff.mp h.1
  exact view_once_from I cfg p order ps₁.st fuel₂ ps₂ hp ho hs hw hnd₁ h₂

/-- the former F2 witness, now passing: a relation with two rows; after the first and after the
second `run()` the view has two entries (it had four before fix 8b2e261) -/
def f2Witness : Program Unit Unit Unit Unit Unit := { rels := [⟨1, false⟩], rules := [] }
theorem second_run_view_witness :
    let I : Interp Unit Unit Unit Unit Unit := ⟨fun _ _ => .unit, fun _ _ => true, fun _ _ => [], fun _ _ => none, fun _ b => b, fun _ a _ => (a, false)⟩
    ∃ ps1 ps2, run I {} f2Witness [] 5 (initSt f2Witness fun _ => [[.int 1], [.int 2]]) = .done ps1 ∧
      run I {} f2Witness [] 5 ps1.st = .done ps2 ∧
      (aggView ps1.st 0).length = 2 ∧ (aggView ps2.st 0).length = 2 := by
  intro I
  refine ⟨_, _, rfl, rfl, ?_, ?_⟩ <;> decide

/-! ## axiom audit -/
#print axioms agg_view_each_once
#print axioms run_agg_eq_model
#print axioms agg_sees_final
#print axioms run_agg_rows_set
#print axioms run_agg_from_eq_model
#print axioms agg_view_each_once_from
#print axioms run_agg_eq_model_from
#print axioms second_run_agg_view_each_once
#print axioms second_run_view_witness

end AscentVerif.Engine
