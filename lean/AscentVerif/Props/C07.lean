import AscentVerif.Model.Desugar
import AscentVerif.Model.StdOps
import AscentVerif.Props.C06
import AscentVerif.Proofs.SurfaceDefs
import AscentVerif.Proofs.DesugarPWN
import AscentVerif.Proofs.DesugarRep
/-!
# C07 — every surface form means exactly its documented core expansion

`SatS` / `ConsS` (Model/Surface.lean) give the sugar its documented meaning directly; `desugarRule`
(Model/Desugar.lean) is the implemented pipeline after macro expansion, in its real order:
disjunction product → pattern arguments → wildcards → negation → repeated variables, with its three gensyms.

Main theorem `desugar_correct`: the one-step consequences of the desugared core rules are exactly the documented
consequences of the surface rule — for every interpretation of the embedded Rust fragments, every database, every
nesting of disjunctions, patterns next to repeated variables, expression arguments referring to earlier columns —
under the hypotheses
* `NoReservedNames`: the rule mentions no variable at or above `reservedBase` (the generated names live there.
  For `__`-prefixed names this is the documented reservation; for the repeated-variable names `x_`, `x_1`, ..
  (`gsRep`) it is STRONGER than what the documentation reserves — finding F10, witness `f10_capture` below);
* `WellScoped`: an expression argument mentions a later variable column of its own clause only if that variable
  also is an earlier variable column; pattern variables occur nowhere else in the arguments of their clause
  (the real front end rejects the latter as shadowing);
(definitions: Proofs/SurfaceDefs.lean)
* `SugarSound` / `VarsSound`: what the generated conditions `if x_.eq(&(e))`, `if let pat = __arg_pattern_`,
  `agg () = not()` mean, and that expressions only look variables up.
Hence the same least model (`derivable_desugar`), by Spec/Datalog.lean.
-/
namespace AscentVerif.Surface
open AscentVerif AscentVerif.Engine

variable {E B G P A M : Type}

/-! ## disjunctions: the documented meaning is the union over the choices of disjuncts (any nesting) -/

theorem satF_append (I : Interp E B G P A) (D : DB) (agg : RelId → List Tuple) (a b : List (FItem E B G P A)) (ρ ρ' : Env) :
    SatF I D agg (a ++ b) ρ ρ' ↔ ∃ ρ₁, SatF I D agg a ρ ρ₁ ∧ SatF I D agg b ρ₁ ρ' := by
  induction a generalizing ρ with
  | nil => simp [SatF]
  | cons f fs ih =>
    simp only [List.cons_append, SatF, ih]
    constructor
    · rintro ⟨ρ₁, h1, ρ₂, h2, h3⟩
      exact ⟨ρ₂, ⟨ρ₁, h1, h2⟩, h3⟩
    · rintro ⟨ρ₂, ⟨ρ₁, h1, h2⟩, h3⟩
      exact ⟨ρ₁, h1, ρ₂, h2, h3⟩

mutual
theorem productsS_correct (I : Interp E B G P A) (D : DB) (agg : RelId → List Tuple) :
    ∀ (items : SItems E B G P A M) (ρ ρ' : Env),
      SatS I D agg items ρ ρ' ↔ ∃ flat ∈ productsS items, SatF I D agg flat ρ ρ'
  | .nil, ρ, ρ' => by simp [SatS, productsS, SatF]
  | .cons i rest, ρ, ρ' => by
    simp only [SatS, productsS, List.mem_flatMap, List.mem_map]
    constructor
    · rintro ⟨ρ₁, h1, h2⟩
      obtain ⟨a, ha, hsa⟩ := (productsI_correct I D agg i ρ ρ₁).1 h1
      obtain ⟨b, hb, hsb⟩ := (productsS_correct I D agg rest ρ₁ ρ').1 h2
      exact ⟨a ++ b, ⟨a, ha, b, hb, rfl⟩, (satF_append I D agg a b ρ ρ').2 ⟨ρ₁, hsa, hsb⟩⟩
    · rintro ⟨_, ⟨a, ha, b, hb, rfl⟩, hs⟩
      obtain ⟨ρ₁, hsa, hsb⟩ := (satF_append I D agg a b ρ ρ').1 hs
      exact ⟨ρ₁, (productsI_correct I D agg i ρ ρ₁).2 ⟨a, ha, hsa⟩, (productsS_correct I D agg rest ρ₁ ρ').2 ⟨b, hb, hsb⟩⟩
theorem productsI_correct (I : Interp E B G P A) (D : DB) (agg : RelId → List Tuple) :
    ∀ (i : SItem E B G P A M) (ρ ρ' : Env),
      SatI I D agg i ρ ρ' ↔ ∃ flat ∈ productsI i, SatF I D agg flat ρ ρ'
  | .flat f, ρ, ρ' => by simp [SatI, productsI, SatF]
  | .disj alts, ρ, ρ' => by
    simp only [SatI, productsI]
    exact productsA_correct I D agg alts ρ ρ'
  | .mac _, ρ, ρ' => by simp [SatI, productsI]
theorem productsA_correct (I : Interp E B G P A) (D : DB) (agg : RelId → List Tuple) :
    ∀ (alts : SAlts E B G P A M) (ρ ρ' : Env),
      SatA I D agg alts ρ ρ' ↔ ∃ flat ∈ productsA alts, SatF I D agg flat ρ ρ'
  | .nil, ρ, ρ' => by simp [SatA, productsA]
  | .cons a rest, ρ, ρ' => by
    simp only [SatA, productsA, List.mem_append]
    rw [productsS_correct I D agg a ρ ρ', productsA_correct I D agg rest ρ ρ']
    constructor
    · rintro (⟨f, hf, hs⟩ | ⟨f, hf, hs⟩)
      · exact ⟨f, .inl hf, hs⟩
      · exact ⟨f, .inr hf, hs⟩
    · rintro ⟨f, hf | hf, hs⟩
      · exact .inl ⟨f, hf, hs⟩
      · exact .inr ⟨f, hf, hs⟩
end

theorem products_correct (I : Interp E B G P A) (D : DB) (agg : RelId → List Tuple) (items : SItems E B G P A M) (ρ ρ' : Env) :
    SatS I D agg items ρ ρ' ↔ ∃ flat ∈ productsS items, SatF I D agg flat ρ ρ' :=
  productsS_correct I D agg items ρ ρ'

/-! ## the passes never leave a form behind -/

theorem desugarFlat_isSome (ops : Ops E B G A) (c : Nat) (flat : List (FItem E B G P A)) : (desugarFlat ops c flat).isSome = true := by
  simp only [desugarFlat, Option.isSome_map]
  exact rep_toCore_isSome ops (pwn ops flat) c (pwn_shape ops flat)

/-- the head clauses of a rule whose heads all are clauses -/
theorem mapM_toCore?_eq_some (hs : List (SHead E M)) (l : List (HeadClause E)) :
    hs.mapM SHead.toCore? = some l ↔ hs = l.map SHead.clause := by
  induction hs generalizing l with
  | nil => cases l <;> simp
  | cons h hs ih =>
    rw [List.mapM_cons]
    cases h with
    | mac m => cases l <;> simp [SHead.toCore?]
    | clause hc =>
      cases hm : hs.mapM SHead.toCore? with
      | none =>
        simp only [SHead.toCore?, Option.bind_eq_bind, Option.bind_some, Option.bind_none, reduceCtorEq, false_iff]
        intro heq
        cases l with
        | nil => simp at heq
        | cons x xs =>
          simp only [List.map_cons, List.cons.injEq] at heq
          have := (ih xs).2 heq.2
          simp [hm] at this
      | some l' =>
        have hl' := (ih l').1 hm
        cases l with
        | nil => simp [SHead.toCore?]
        | cons x xs =>
          simp only [SHead.toCore?, Option.bind_eq_bind, Option.bind_some, Option.pure_def, Option.some.injEq,
            List.cons.injEq, List.map_cons, SHead.clause.injEq]
          constructor
          · rintro ⟨rfl, rfl⟩; exact ⟨rfl, hl'⟩
          · rintro ⟨rfl, h2⟩
            refine ⟨rfl, ?_⟩
            have := (ih xs).2 h2
            rw [hm] at this
            exact Option.some.inj this

theorem desugarFlats_isSome (ops : Ops E B G A) (heads : List (HeadClause E)) (flats : List (List (FItem E B G P A))) (c : Nat) :
    (desugarFlats ops heads flats c).isSome = true := by
  induction flats generalizing c with
  | nil => simp [desugarFlats]
  | cons flat rest ih =>
    have h1 := desugarFlat_isSome ops c flat
    cases hd : desugarFlat ops c flat with
    | none => simp [hd] at h1
    | some p =>
      obtain ⟨body, c1⟩ := p
      have h2 := ih c1
      cases hr : desugarFlats ops heads rest c1 with
      | none => simp [hr] at h2
      | some q =>
        obtain ⟨rs, c2⟩ := q
        simp [desugarFlats, hd, hr]

theorem desugarRule_isSome (ops : Ops E B G A) (c : Nat) (r : SRule E B G P A M) (hh : ∀ h ∈ r.heads, ∃ hc, h = SHead.clause hc) :
    (desugarRule ops c r).isSome = true := by
  have : ∃ l : List (HeadClause E), r.heads = l.map SHead.clause := by
    generalize r.heads = hs at hh
    induction hs with
    | nil => exact ⟨[], rfl⟩
    | cons h hs ih =>
      obtain ⟨hc, rfl⟩ := hh h (by simp)
      obtain ⟨l, rfl⟩ := ih (fun h' hm => hh h' (by simp [hm]))
      exact ⟨hc :: l, rfl⟩
  obtain ⟨l, hl⟩ := this
  have hm := (mapM_toCore?_eq_some r.heads l).2 hl
  simp only [desugarRule, hm]
  exact desugarFlats_isSome ops l _ c

/-! ## one disjunction-free body: passes 3–6 -/

theorem not_isRep_of_lt {v : Var} (h : v < reservedBase) : ¬ isRep v := by
  rintro ⟨k, rfl⟩
  change (1000 + 8 * k : Nat) < 1000 at h
  omega

/-- a flat body and its desugaring are satisfied by the same environments (up to the generated variables), from
environments that bind no generated name -/
theorem desugarFlat_correct (I : Interp E B G P A) (ops : Ops E B G A) {varsB : B → List Var} {varsG : G → List Var}
    (hS : SugarSound I ops) (hV : VarsSound I ops.varsE varsB varsG) (D : DB) (agg : RelId → List Tuple)
    (flat : List (FItem E B G P A)) (c c' : Nat) (items : List (Item E B G P A))
    (hres : ∀ f ∈ flat, ∀ v ∈ FItem.mentions ops.varsE varsB varsG f, v < reservedBase)
    (hws : ∀ rel args conds, FItem.clause rel args conds ∈ flat → WellScopedArgs ops.varsE args)
    (hd : desugarFlat ops c flat = some (items, c')) :
    (∀ ρ', Sat I D agg items [] ρ' → ∃ σ', SatF I D agg flat [] σ' ∧ AgreeUser ρ' σ') ∧
    (∀ σ', SatF I D agg flat [] σ' → ∃ ρ', Sat I D agg items [] ρ' ∧ AgreeUser ρ' σ') := by
  have hm : (repItems ops (pwn ops flat) 0 [] c).1.mapM FItem.toCore = some items := by
    simp only [desugarFlat, Option.map_eq_some_iff, Prod.mk.injEq] at hd
    obtain ⟨a, ha, rfl, _⟩ := hd
    exact ha
  have hres' : ∀ f ∈ pwn ops flat, ∀ v ∈ FItem.mentions ops.varsE varsB varsG f, ¬ isRep v := by
    intro f hf v hv
    rcases pwn_mentions I ops hS flat hres f hf v hv with h | ⟨k, rfl⟩ | ⟨k, rfl⟩
    · exact not_isRep_of_lt h
    · rintro ⟨j, hj⟩
      change (1000 + 8 * k + 2 : Nat) = 1000 + 8 * j at hj
      omega
    · rintro ⟨j, hj⟩
      change (1000 + 8 * k + 1 : Nat) = 1000 + 8 * j at hj
      omega
  have hws' := pwn_exprScoped (varsB := varsB) (varsG := varsG) ops flat hres (fun rel args conds h => (hws rel args conds h).1)
  obtain ⟨r1, r2⟩ := rep_correct I ops hS hV D agg (pwn ops flat) c items (pwn_shape ops flat) hres' hws' hm
  obtain ⟨p1, p2⟩ := pwn_correct I ops hS hV D agg flat hres hws
  constructor
  · intro ρ' hs
    obtain ⟨σ₁, hs1, ha1⟩ := r1 ρ' hs
    obtain ⟨σ', hs2, ha2⟩ := p1 σ₁ hs1
    exact ⟨σ', hs2, fun v hv => (ha1 v (not_isRep_of_lt hv)).trans (ha2 v hv)⟩
  · intro σ' hs
    obtain ⟨σ₁, hs1, ha1⟩ := p2 σ' hs
    obtain ⟨ρ', hs2, ha2⟩ := r2 σ₁ hs1
    exact ⟨ρ', hs2, fun v hv => (ha2 v (not_isRep_of_lt hv)).trans (ha1 v hv)⟩

/-! ## the main theorem -/

/-- `desugarFlats` yields exactly one rule per flat body, with the given heads -/
theorem desugarFlats_spec (ops : Ops E B G A) (heads : List (HeadClause E)) (flats : List (List (FItem E B G P A))) (c c' : Nat)
    (rs : List (Rule E B G P A)) (hd : desugarFlats ops heads flats c = some (rs, c')) :
    (∀ r ∈ rs, ∃ flat ∈ flats, ∃ c₁ c₂ items, desugarFlat ops c₁ flat = some (items, c₂) ∧ r = { heads := heads, body := items }) ∧
    (∀ flat ∈ flats, ∃ c₁ c₂ items, desugarFlat ops c₁ flat = some (items, c₂) ∧
      ({ heads := heads, body := items } : Rule E B G P A) ∈ rs) := by
  induction flats generalizing c rs with
  | nil =>
    simp only [desugarFlats, Option.some.injEq, Prod.mk.injEq] at hd
    obtain ⟨rfl, _⟩ := hd
    simp
  | cons flat rest ih =>
    cases h1 : desugarFlat ops c flat with
    | none => simp [desugarFlats, h1] at hd
    | some p =>
      obtain ⟨body, c1⟩ := p
      cases h2 : desugarFlats ops heads rest c1 with
      | none => simp [desugarFlats, h1, h2] at hd
      | some q =>
        obtain ⟨rs', c2⟩ := q
        simp only [desugarFlats, h1, h2, Option.some.injEq, Prod.mk.injEq] at hd
        obtain ⟨rfl, rfl⟩ := hd
        obtain ⟨ih1, ih2⟩ := ih c1 rs' h2
        constructor
        · intro r hr
          rcases List.mem_cons.1 hr with rfl | hr
          · exact ⟨flat, List.mem_cons_self, c, c1, body, h1, rfl⟩
          · obtain ⟨fl, hfl, rest'⟩ := ih1 r hr
            exact ⟨fl, List.mem_cons_of_mem _ hfl, rest'⟩
        · intro fl hfl
          rcases List.mem_cons.1 hfl with rfl | hfl
          · exact ⟨c, c1, body, h1, List.mem_cons_self⟩
          · obtain ⟨c₁, c₂, items, hi, hmem⟩ := ih2 fl hfl
            exact ⟨c₁, c₂, items, hi, List.mem_cons_of_mem _ hmem⟩

/-- a head clause that mentions user variables only denotes the same fact under environments that agree on the user variables -/
theorem headFact_agreeUser {I : Interp E B G P A} {varsE : E → List Var} {varsB : B → List Var} {varsG : G → List Var}
    (hV : VarsSound I varsE varsB varsG) (h : HeadClause E) (hh : ∀ e ∈ h.args, ∀ v ∈ varsE e, v < reservedBase)
    {ρ σ : Env} (ha : AgreeUser ρ σ) : headFact I h ρ = headFact I h σ := by
  simp only [headFact, Fact.mk.injEq, true_and]
  apply List.map_congr_left
  intro e he
  exact hV.expr e ρ σ (fun v hv => ha v (hh e he v hv))

/-- **C07**: the one-step consequences of the desugared rules are exactly the documented consequences of the surface rule -/
theorem desugar_correct (I : Interp E B G P A) (ops : Ops E B G A) {varsB : B → List Var} {varsG : G → List Var}
    (hS : SugarSound I ops) (hV : VarsSound I ops.varsE varsB varsG) (r : SRule E B G P A M) (c c' : Nat)
    (rs : List (Rule E B G P A)) (hres : NoReservedNames ops.varsE varsB varsG r) (hws : WellScoped ops.varsE r)
    (hd : desugarRule ops c r = some (rs, c')) (agg : RelId → List Tuple) (D : DB) (f : Fact) :
    Cons I rs agg D f ↔ ConsS I r agg D f := by
  cases hm : r.heads.mapM SHead.toCore? with
  | none => simp [desugarRule, hm] at hd
  | some heads =>
    simp only [desugarRule, hm] at hd
    have hheads := (mapM_toCore?_eq_some r.heads heads).1 hm
    have hmemh : ∀ h, SHead.clause h ∈ r.heads ↔ h ∈ heads := by
      intro h
      rw [hheads, List.mem_map]
      constructor
      · rintro ⟨a, ha, heq⟩
        cases heq
        exact ha
      · intro hh
        exact ⟨h, hh, rfl⟩
    obtain ⟨sp1, sp2⟩ := desugarFlats_spec ops heads (productsS r.body) c c' rs hd
    constructor
    · rintro ⟨cr, hcr, ρ, hsat, h, hh, rfl⟩
      obtain ⟨flat, hflat, c₁, c₂, items, hdf, rfl⟩ := sp1 cr hcr
      obtain ⟨fc1, _⟩ := desugarFlat_correct I ops hS hV D agg flat c₁ c₂ items (hres.1 flat hflat) (hws flat hflat) hdf
      obtain ⟨σ', hsf, hag⟩ := fc1 ρ hsat
      refine ⟨σ', (products_correct I D agg r.body [] σ').2 ⟨flat, hflat, hsf⟩, h, (hmemh h).2 hh, ?_⟩
      exact headFact_agreeUser hV h (hres.2 h ((hmemh h).2 hh)) hag
    · rintro ⟨σ', hsat, h, hh, rfl⟩
      obtain ⟨flat, hflat, hsf⟩ := (products_correct I D agg r.body [] σ').1 hsat
      obtain ⟨c₁, c₂, items, hdf, hmem⟩ := sp2 flat hflat
      obtain ⟨_, fc2⟩ := desugarFlat_correct I ops hS hV D agg flat c₁ c₂ items (hres.1 flat hflat) (hws flat hflat) hdf
      obtain ⟨ρ', hs, hag⟩ := fc2 σ' hsf
      refine ⟨_, hmem, ρ', hs, h, (hmemh h).1 hh, ?_⟩
      exact (headFact_agreeUser hV h (hres.2 h hh) hag).symm

/-- a rule with several head clauses is one rule per head clause -/
theorem cons_split_heads (I : Interp E B G P A) (heads : List (HeadClause E)) (body : List (Item E B G P A))
    (agg : RelId → List Tuple) (D : DB) (f : Fact) :
    Cons I [{ heads := heads, body := body }] agg D f ↔ Cons I (heads.map fun h => { heads := [h], body := body }) agg D f := by
  constructor
  · rintro ⟨r, hr, ρ, hs, h, hh, rfl⟩
    rw [List.mem_singleton] at hr
    subst hr
    exact ⟨{ heads := [h], body := body }, List.mem_map.2 ⟨h, hh, rfl⟩, ρ, hs, h, List.mem_singleton.2 rfl, rfl⟩
  · rintro ⟨r, hr, ρ, hs, h, hh, rfl⟩
    obtain ⟨h', hh', rfl⟩ := List.mem_map.1 hr
    rw [List.mem_singleton] at hh
    subst hh
    exact ⟨_, List.mem_singleton.2 rfl, ρ, hs, h, hh', rfl⟩

/-- a rule without body is an unconditional fact: exactly its head clauses, evaluated in the empty environment -/
theorem consS_fact (I : Interp E B G P A) (heads : List (SHead E M)) (agg : RelId → List Tuple) (D : DB) (f : Fact) :
    ConsS I ({ heads := heads, body := .nil } : SRule E B G P A M) agg D f ↔ ∃ h, SHead.clause h ∈ heads ∧ f = headFact I h [] := by
  simp only [ConsS, SatS]
  constructor
  · rintro ⟨ρ, rfl, h⟩
    exact h
  · intro h
    exact ⟨[], rfl, h⟩

theorem cons_append_iff (I : Interp E B G P A) (rs rs' : List (Rule E B G P A)) (agg : RelId → List Tuple) (D : DB) (f : Fact) :
    Cons I (rs ++ rs') agg D f ↔ Cons I rs agg D f ∨ Cons I rs' agg D f := by
  constructor
  · rintro ⟨r, hr, rest⟩
    rcases List.mem_append.1 hr with hr | hr
    · exact .inl ⟨r, hr, rest⟩
    · exact .inr ⟨r, hr, rest⟩
  · rintro (⟨r, hr, rest⟩ | ⟨r, hr, rest⟩)
    · exact ⟨r, List.mem_append_left _ hr, rest⟩
    · exact ⟨r, List.mem_append_right _ hr, rest⟩

/-- whole programs (after macro expansion): same one-step consequences, hence … -/
theorem desugarRules_correct (I : Interp E B G P A) (ops : Ops E B G A) {varsB : B → List Var} {varsG : G → List Var}
    (hS : SugarSound I ops) (hV : VarsSound I ops.varsE varsB varsG) (srs : List (SRule E B G P A M)) (c c' : Nat)
    (rs : List (Rule E B G P A)) (hres : ∀ r ∈ srs, NoReservedNames ops.varsE varsB varsG r) (hws : ∀ r ∈ srs, WellScoped ops.varsE r)
    (hd : desugarRules ops srs c = some (rs, c')) (agg : RelId → List Tuple) (D : DB) (f : Fact) :
    Cons I rs agg D f ↔ ConsSL I srs agg D f := by
  induction srs generalizing c rs with
  | nil =>
    simp only [desugarRules, Option.some.injEq, Prod.mk.injEq] at hd
    obtain ⟨rfl, _⟩ := hd
    simp [Cons, ConsSL]
  | cons r rest ih =>
    cases h1 : desugarRule ops c r with
    | none => simp [desugarRules, h1] at hd
    | some p =>
      obtain ⟨rs1, c1⟩ := p
      cases h2 : desugarRules ops rest c1 with
      | none => simp [desugarRules, h1, h2] at hd
      | some q =>
        obtain ⟨rs2, c2⟩ := q
        simp only [desugarRules, h1, h2, Option.some.injEq, Prod.mk.injEq] at hd
        obtain ⟨rfl, rfl⟩ := hd
        rw [cons_append_iff,
          desugar_correct I ops hS hV r c c1 rs1 (hres r List.mem_cons_self) (hws r List.mem_cons_self) h1 agg D f,
          ih c1 rs2 (fun r' hr' => hres r' (List.mem_cons_of_mem _ hr')) (fun r' hr' => hws r' (List.mem_cons_of_mem _ hr')) h2]
        simp [ConsSL]

/-- … the same least model -/
theorem derivable_desugar (I : Interp E B G P A) (ops : Ops E B G A) {varsB : B → List Var} {varsG : G → List Var}
    (hS : SugarSound I ops) (hV : VarsSound I ops.varsE varsB varsG) (srs : List (SRule E B G P A M)) (c c' : Nat)
    (rs : List (Rule E B G P A)) (hres : ∀ r ∈ srs, NoReservedNames ops.varsE varsB varsG r) (hws : ∀ r ∈ srs, WellScoped ops.varsE r)
    (hd : desugarRules ops srs c = some (rs, c')) (agg : RelId → List Tuple) (inp : DB) (f : Fact) :
    Derivable I rs agg inp f ↔ DerivableS I srs agg inp f := by
  have key := fun D g => desugarRules_correct I ops hS hV srs c c' rs hres hws hd agg D g
  constructor
  · intro h D hin hcl
    exact h D ⟨hin, fun g hg => hcl g ((key D g).1 hg)⟩
  · intro h D hD
    exact h D hD.1 (fun g hg => hD.2 g ((key D g).2 hg))

/-! ## the hypotheses are met by the interpretation of the executable ties -/

theorem stdOps_sugarSound (kinds : RelId → Std.LatKind) : SugarSound (Std.interp kinds) Std.stdOps := by
  refine ⟨?_, ?_, ?_, ?_⟩
  · intro v ρ x h
    simp [Std.interp, Std.stdOps, Std.evalEx, h]
  · intro v
    rfl
  · intro v e ρ x h
    simp only [Std.interp, Std.stdOps, Std.evalBx, Std.evalEx, h, Option.getD_some]
    rfl
  · intro bag
    cases bag <;> simp [Std.interp, Std.stdOps, Std.evalAx, Agg.aggNot]

theorem agree_append_iff {vs ws : List Var} {ρ σ : Env} : Agree (vs ++ ws) ρ σ ↔ Agree vs ρ σ ∧ Agree ws ρ σ := by
  constructor
  · intro h
    exact ⟨fun v hv => h v (List.mem_append_left _ hv), fun v hv => h v (List.mem_append_right _ hv)⟩
  · rintro ⟨h1, h2⟩ v hv
    rcases List.mem_append.1 hv with hv | hv
    · exact h1 v hv
    · exact h2 v hv

theorem evalEx_agree (e : Std.Ex) (ρ σ : Env) (h : Agree (Std.varsEx e) ρ σ) : Std.evalEx ρ e = Std.evalEx σ e := by
  induction e with
  | const v => rfl
  | var x => simp only [Std.evalEx]; rw [h x (by simp [Std.varsEx])]
  | add a b iha ihb | sub a b iha ihb | mul a b iha ihb | min a b iha ihb | max a b iha ihb =>
    simp only [Std.varsEx] at h
    rw [agree_append_iff] at h
    simp only [Std.evalEx, iha h.1, ihb h.2]
  | some a ih | single a ih =>
    simp only [Std.varsEx] at h
    simp only [Std.evalEx, ih h]

theorem evalBx_agree (b : Std.Bx) (ρ σ : Env) (h : Agree (Std.varsBx b) ρ σ) : Std.evalBx ρ b = Std.evalBx σ b := by
  induction b with
  | tt => rfl
  | lt a b | le a b | eq a b | ne a b =>
    simp only [Std.varsBx] at h
    rw [agree_append_iff] at h
    simp only [Std.evalBx, evalEx_agree a ρ σ h.1, evalEx_agree b ρ σ h.2]
  | and a b iha ihb | or a b iha ihb =>
    simp only [Std.varsBx] at h
    rw [agree_append_iff] at h
    simp only [Std.evalBx, iha h.1, ihb h.2]
  | not a ih =>
    simp only [Std.varsBx] at h
    simp only [Std.evalBx, ih h]

theorem evalGx_agree (g : Std.Gx) (ρ σ : Env) (h : Agree (Std.varsGx g) ρ σ) : Std.evalGx ρ g = Std.evalGx σ g := by
  cases g with
  | range lo hi =>
    simp only [Std.varsGx] at h
    rw [agree_append_iff] at h
    simp only [Std.evalGx, evalEx_agree lo ρ σ h.1, evalEx_agree hi ρ σ h.2]
  | list xs =>
    simp only [Std.varsGx] at h
    simp only [Std.evalGx]
    apply List.map_congr_left
    intro e he
    exact evalEx_agree e ρ σ (fun v hv => h v (List.mem_flatMap.2 ⟨e, he, hv⟩))

theorem stdOps_varsSound (kinds : RelId → Std.LatKind) : VarsSound (Std.interp kinds) Std.varsEx Std.varsBx Std.varsGx :=
  ⟨fun e ρ σ h => evalEx_agree e ρ σ h, fun b ρ σ h => evalBx_agree b ρ σ h, fun g ρ σ h => evalGx_agree g ρ σ h⟩

/-! ## finding F10: a user variable in the range of the repeated-variable gensym is captured

`out(x, y) <-- foo(x, x), bar(y)` with `y` spelled like the name the desugaring generates for the second `x`
(variable `gsRep 0`): the desugared rule joins `bar` with the second column of `foo`. -/

namespace F10
/-- variables as expressions, equality tests as the only tests -/
def I0 : Interp Var (Var × Var) Unit Unit Unit where
  expr v ρ := (Env.get? ρ v).getD .unit
  test b ρ := decide ((Env.get? ρ b.1).getD .unit = (Env.get? ρ b.2).getD .unit)
  gen _ _ := []
  pat _ _ := none
  agg _ bag := if bag.isEmpty then [[]] else []
  joinMut _ a _ := (a, false)

def ops0 : Ops Var (Var × Var) Unit Unit where
  varE v := v
  eqB v e := (v, e)
  notA := ()
  varsE e := [e]
  subE θ e := θ e
  subB θ b := (θ b.1, θ b.2)
  subG _ g := g

/-- `out(x, y) <-- foo(x, x), bar(y)` with x = 0, y = gsRep 0; relations foo = 0, bar = 1, out = 2 -/
def rule : SRule Var (Var × Var) Unit Unit Unit Empty :=
  { heads := [.clause { rel := 2, args := [0, gsRep 0] }],
    body := .cons (.flat (.clause 0 [.var 0, .var 0] [])) (.cons (.flat (.clause 1 [.var (gsRep 0)] [])) .nil) }

def db : DB := fun f => f = ⟨0, [.int 1, .int 1]⟩ ∨ f = ⟨1, [.int 7]⟩

/-- documented meaning: out(1, 7) is a consequence … -/
theorem documented : ConsS I0 rule (fun _ => []) db ⟨2, [.int 1, .int 7]⟩ := by
  refine ⟨[(gsRep 0, .int 7), (0, .int 1)], ?_, { rel := 2, args := [0, gsRep 0] }, List.mem_singleton.2 rfl, rfl⟩
  simp only [rule, SatS, SatI, StepF]
  exact ⟨[(0, .int 1)], ⟨[.int 1, .int 1], [(0, .int 1)], .inl rfl, rfl, rfl⟩,
    [(gsRep 0, .int 7), (0, .int 1)], ⟨[.int 7], [(gsRep 0, .int 7), (0, .int 1)], .inr rfl, rfl, rfl⟩, rfl⟩

/-- … but not of the desugared rule (the user's variable is captured: it is joined with foo's second column) -/
theorem f10_capture : ∃ rs c', desugarRule ops0 0 rule = some (rs, c') ∧ ¬ Cons I0 rs (fun _ => []) db ⟨2, [.int 1, .int 7]⟩ := by
  refine ⟨[{ heads := [{ rel := 2, args := [0, gsRep 0] }],
             body := [.clause 0 [.var 0, .var (gsRep 0)] [.ifc (gsRep 0, 0)], .clause 1 [.var (gsRep 0)] []] }], 1, rfl, ?_⟩
  rintro ⟨r, hr, ρ, hs, -⟩
  rw [List.mem_singleton] at hr
  subst hr
  cases hs with
  | clause t hd hm hc hrest =>
    have ht : t = [.int 1, .int 1] := by
      rcases hd with h | h
      · exact (Fact.mk.inj h).2
      · exact absurd (Fact.mk.inj h).1 (by decide)
    subst ht
    have hm' : matchArgs I0 [] [.var 0, .var (gsRep 0)] [.int 1, .int 1] [] = some [(gsRep 0, .int 1), (0, .int 1)] := rfl
    rw [hm'] at hm
    cases hm
    have hc' : satConds I0 [Cond.ifc (gsRep 0, 0)] [(gsRep 0, .int 1), (0, .int 1)] = some [(gsRep 0, .int 1), (0, .int 1)] := rfl
    rw [hc'] at hc
    cases hc
    cases hrest with
    | clause t2 hd2 hm2 hc2 hrest2 =>
      have ht2 : t2 = [.int 7] := by
        rcases hd2 with h | h
        · exact absurd (Fact.mk.inj h).1 (by decide)
        · exact (Fact.mk.inj h).2
      subst ht2
      have hm2' : matchArgs I0 [(gsRep 0, .int 1), (0, .int 1)] [.var (gsRep 0)] [.int 7] [(gsRep 0, .int 1), (0, .int 1)] = none := rfl
      rw [hm2'] at hm2
      cases hm2
end F10

end AscentVerif.Surface

#print axioms AscentVerif.Surface.products_correct
#print axioms AscentVerif.Surface.desugarFlat_isSome
#print axioms AscentVerif.Surface.desugarRule_isSome
#print axioms AscentVerif.Surface.desugarFlat_correct
#print axioms AscentVerif.Surface.desugar_correct
#print axioms AscentVerif.Surface.cons_split_heads
#print axioms AscentVerif.Surface.consS_fact
#print axioms AscentVerif.Surface.desugarRules_correct
#print axioms AscentVerif.Surface.derivable_desugar
#print axioms AscentVerif.Surface.stdOps_sugarSound
#print axioms AscentVerif.Surface.stdOps_varsSound
#print axioms AscentVerif.Surface.F10.documented
#print axioms AscentVerif.Surface.F10.f10_capture
