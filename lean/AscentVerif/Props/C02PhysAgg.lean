import AscentVerif.Props.C02Phys
import AscentVerif.Props.C04PhysPlan
import AscentVerif.Proofs.PhysParAggRun
import AscentVerif.Proofs.PhysAggTimeout
import AscentVerif.Proofs.NDAggRestart
/-!
# C02 + C04 at the level of the physical indices: `ascent_par!` on stratified programs with aggregation / negation

`Model/EnginePhysPar.lean` evaluates rule bodies through `Phys.evalFrom` on the erased state, so since `Props/C04Phys.lean` the
parallel model evaluates aggregation / negation items as the generated code does: `c_index_get` / `index_get` with the evaluated key
arguments on the FROZEN concurrent index the plan chose for the aggregated relation (a relation of an earlier stratum: frozen when the
stratum took it out of the struct).

`runPhysPar_agg_eq_model`: for EVERY schedule, pool size and fuel, from every typed program value with duplicate-free row vectors,
the parallel run on a stratified program never panics and, if it returns, holds exactly the stratified model (every aggregation over
the final rows of its relation, each tuple once); the result is again a value `run()` may be called on.
-/
namespace AscentVerif.PhysPar
open AscentVerif AscentVerif.Engine AscentVerif.Index AscentVerif.Phys

variable {E B G P A : Type}

/-- **every schedule, every pool: no panic, and the stratified model** -/
theorem runPhysPar_agg_eq_model (I : Interp E B G P A) (hI : Plan.Ext I) (V : Hir.VarsOf E B) (hS : Plan.Supp I V)
    (hperm : AggPermInvariant I)
    (p : Program E B G P A) (order : SccOrder) (σ : Sched E B G P A) (threads fuel : Nat) (s : PCSt)
    (hp : RelationalAgg p) (ho : validOrder p order = true) (hst : Stratified p order)
    (ha : arityOk p = true) (haa : aggArityOk p = true) (hb : bodyDeclared p = true)
    (hd : ∀ r ∈ p.rules, Hir.Desugared V r = true ∧ Plan.WellScoped V r = true)
    (hs : WFPCSt p s) (hnd : ∀ r, (pcrel s r).rows.Nodup) :
    ∃ res, run I V p (ixSetsOfA V p) order σ threads fuel s = .ok res ∧
      ∀ out, res = some out →
        WFPCSt p out.st ∧
        (∀ r, (pcrel out.st r).rows.Nodup) ∧
        (∀ f, factsOf out.st f ↔
          Derivable I p.rules (fun r => (pcrel out.st r).rows) (fun g => g.rel < p.rels.length ∧ factsOf s g) f) ∧
        (∀ r, r < p.rels.length → ∃ derived, (pcrel out.st r).rows = (pcrel s r).rows ++ derived ∧
          derived.Nodup ∧ ∀ t ∈ derived, t ∉ (pcrel s r).rows) := by
  have hbd : BodyDeclared p := by
    intro rule hrule r hr
    have := List.all_eq_true.mp (List.all_eq_true.mp hb rule hrule) r hr
    simpa using this
  obtain ⟨res, hres, hspec⟩ := runPar_is_RunND_agg I hI V hS hperm p (ixSetsOfA V p) order σ threads fuel s hp hst hbd
    (planOk_ixSetsOfA V p ha) (aggPlanOk_ixSetsOfA V p haa) hd hs.1 hs.2.1
  refine ⟨res, hres, ?_⟩
  intro out hout
  obtain ⟨st', hrun', hsim, hfl⟩ := hspec out hout
  have hrows0 : ∀ r, (relSt (absSt (s.map PCRel.erase)) r).rows = (pcrel s r).rows := by
    intro r; rw [relSt_absSt, prel_erase]; rfl
  have hwfs : WFSt p (absSt (s.map PCRel.erase)) := by
    refine ⟨by simpa [absSt] using hs.1, ?_⟩
    intro rs hrs i hi
    simp only [absSt, List.mem_map] at hrs
    obtain ⟨pr, _, rfl⟩ := hrs
    cases hi
  have hnd0 : ∀ r, (relSt (absSt (s.map PCRel.erase)) r).rows.Nodup := fun r => by rw [hrows0]; exact hnd r
  obtain ⟨hwf', hview, hfacts, hrows⟩ := runND_agg_spec I {} p order (absSt (s.map PCRel.erase)) st' hp ho hst hwfs hnd0 hrun'
  have hrows' : ∀ r, (relSt st' r).rows = (pcrel out.st r).rows := by
    intro r; rw [hsim.rows r, prel_erase]; rfl
  have hdb : (fun g : Fact => g.rel < p.rels.length ∧ Engine.factsOf (absSt (s.map PCRel.erase)) g) =
      (fun g : Fact => g.rel < p.rels.length ∧ factsOf s g) := by
    funext g
    simp only [Engine.factsOf, factsOf, hrows0]
  have hpermv : ∀ r, (aggView st' r).Perm (pcrel out.st r).rows := fun r => by
    rw [← hrows']; exact (hview r).2
  refine ⟨⟨?_, ?_, ?_⟩, ?_, ?_, ?_⟩
  · have := hsim.len
    rw [List.length_map] at this
    rw [← this]; exact hwf'.1
  · intro r t ht
    rw [← hrows' r] at ht
    exact hsim.typed r t ht
  · intro pr hpr
    obtain ⟨f1, f2⟩ := hfl pr hpr
    exact ⟨f1, fun ci hci => (f2 ci hci).2⟩
  · intro r
    exact (hpermv r).nodup_iff.mp (hview r).1
  · intro f
    rw [← hdb, ← derivable_congr_perm hperm p.rules hpermv, ← hfacts]
    simp only [Engine.factsOf, factsOf, hrows']
  · intro r hr
    obtain ⟨derived, h1, h2, h3⟩ := hrows r hr
    rw [hrows' r, hrows0 r] at h1
    rw [hrows0 r] at h3
    exact ⟨derived, h1, h2, h3⟩

/-- two parallel runs of the same value under different schedules and pool sizes hold the same facts -/
theorem runPhysPar_agg_schedule_pool_independent (I : Interp E B G P A) (hI : Plan.Ext I) (V : Hir.VarsOf E B) (hS : Plan.Supp I V)
    (hperm : AggPermInvariant I)
    (p : Program E B G P A) (order : SccOrder) (σ σ' : Sched E B G P A) (threads threads' fuel fuel' : Nat) (s : PCSt)
    (out out' : ProgSt)
    (hp : RelationalAgg p) (ho : validOrder p order = true) (hst : Stratified p order)
    (ha : arityOk p = true) (haa : aggArityOk p = true) (hb : bodyDeclared p = true)
    (hd : ∀ r ∈ p.rules, Hir.Desugared V r = true ∧ Plan.WellScoped V r = true)
    (hs : WFPCSt p s)
    (h : run I V p (ixSetsOfA V p) order σ threads fuel s = .ok (some out))
    (h' : run I V p (ixSetsOfA V p) order σ' threads' fuel' s = .ok (some out')) :
    ∀ f, factsOf out.st f ↔ factsOf out'.st f := by
  have hbd : BodyDeclared p := by
    intro rule hrule r hr
    have := List.all_eq_true.mp (List.all_eq_true.mp hb rule hrule) r hr
    simpa using this
  obtain ⟨res, h1, hsp⟩ := runPar_is_RunND_agg I hI V hS hperm p (ixSetsOfA V p) order σ threads fuel s hp hst hbd
    (planOk_ixSetsOfA V p ha) (aggPlanOk_ixSetsOfA V p haa) hd hs.1 hs.2.1
  obtain ⟨res', h1', hsp'⟩ := runPar_is_RunND_agg I hI V hS hperm p (ixSetsOfA V p) order σ' threads' fuel' s hp hst hbd
    (planOk_ixSetsOfA V p ha) (aggPlanOk_ixSetsOfA V p haa) hd hs.1 hs.2.1
  rw [h] at h1
  rw [h'] at h1'
  injection h1 with h1
  injection h1' with h1'
  obtain ⟨st1, hnd1, hsim1, _⟩ := hsp out h1.symm
  obtain ⟨st2, hnd2, hsim2, _⟩ := hsp' out' h1'.symm
  have hwfp : WFPSt p (s.map PCRel.erase) := by
    refine ⟨by rw [List.length_map]; exact hs.1, ?_⟩
    intro r t ht
    rw [prel_erase] at ht
    exact hs.2.1 r t ht
  have hw : WFSt' p (absSt (s.map PCRel.erase)) := wfSt'_absSt p _ hwfp
  obtain ⟨_, _, hsub⟩ := Agg.runND_wf_extends I {} p order hp.1 hp.2 ho hst (absSt (s.map PCRel.erase)) st1 hw hnd1
  have hres := Agg.restartND_facts I {} p order hp.1 hp.2 ho hst hperm (absSt (s.map PCRel.erase))
    (absSt (s.map PCRel.erase)) st1 st2 hw hw hnd1 (Agg.ExtSt.refl p _) hsub hnd2
  intro f
  have hf := hres f
  simp only [Engine.factsOf, hsim1.rows, hsim2.rows, prel_erase] at hf
  exact hf.symm

#print axioms runPhysPar_agg_eq_model
#print axioms runPhysPar_agg_schedule_pool_independent

end AscentVerif.PhysPar
