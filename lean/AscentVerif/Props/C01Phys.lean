import AscentVerif.Model.EnginePhys
import AscentVerif.Proofs.NDEngine
import AscentVerif.Props.C01Plan
import AscentVerif.Props.C19
import AscentVerif.Proofs.PhysRun
/-!
# C01 at the level of the physical indices: the generated code over hash indices computes the least model

`Model/EnginePhys.lean` models what the generated code really executes for a serial, aggregation-free program over plain
relations: a full index (hash set of the rows) and one value-keyed hash index per further column set, three versions of
each inside an SCC, `update_indices`, the head update through `insert_if_not_present`, the merges with their size-based
swaps, index look-ups through the compilation plan (`Hir.compileRule`), the "some body relation is empty" guard and the
`len_estimate` choice between the two copies of a reorderable simple join.

`runPhys_eq_leastModel`: for every interpretation that sees environments only through look-up (`Ext`, `Supp`), every
program whose rules are desugared and well-scoped (`Desugared`, `WellScoped`: what `rule_desugar_repeated_vars` and `rustc`
guarantee) and whose plan is usable (`PlanOk`: a decidable condition on `Hir.compileRule`'s output, evaluated by the
driver on every generated program of the tie), every valid SCC order, every typed start value and every fuel: if the
physical engine returns, the relations hold exactly the least model, the old rows are a prefix and every new tuple is
appended once.  Proof: forward simulation onto the nondeterministic engine of `Proofs/NDEngine.lean`.
-/
namespace AscentVerif.Phys
open AscentVerif AscentVerif.Engine AscentVerif.Index

variable {E B G P A : Type}

/-- **the generated code over its physical indices computes exactly the least model** -/
theorem runPhys_eq_leastModel (I : Interp E B G P A) (hI : Plan.Ext I) (V : Hir.VarsOf E B) (hS : Plan.Supp I V)
    (p : Program E B G P A) (ix : IxSets) (order : SccOrder) (s : PSt) (fuel : Nat) (out : ProgSt)
    (hp : Relational p) (ho : validOrder p order = true)
    (hplan : planOk V p ix = true)
    (hd : ∀ r ∈ p.rules, Hir.Desugared V r = true ∧ Plan.WellScoped V r = true)
    (hs : WFPSt p s)
    (hrun : run I V p ix order fuel s = some out) :
    WFPSt p out.st ∧
    (∀ f, factsOf out.st f ↔ Derivable I p.rules noAgg (fun g => g.rel < p.rels.length ∧ factsOf s g) f) ∧
    (∀ r, r < p.rels.length → ∃ derived, (prel out.st r).rows = (prel s r).rows ++ derived ∧
      derived.Nodup ∧ ∀ t ∈ derived, t ∉ (prel s r).rows) := by
  have hR := ruleFit_of_planOk V p ix hp hplan hd
  have hwfs : WFSt p (absSt s) := by
    refine ⟨by simpa [absSt] using hs.1, ?_⟩
    intro rs hrs i hi
    simp only [absSt, List.mem_map] at hrs
    obtain ⟨pr, _, rfl⟩ := hrs
    cases hi
  have hinv0 : PInv I p (fun r => (relSt (absSt s) r).rows) p.rels.length (Engine.updateIndices (absSt s)) :=
    PInv_start I p _ (absSt s) hwfs (fun _ _ => rfl)
  obtain ⟨st', hnd, hsim⟩ := runSccs_sim I hI {} V hS p hp ix _ hR fuel order _ out _ hinv0
    (updateIndices_sim p ix s hs) hrun
  obtain ⟨hwf', hfacts, hrows⟩ := runND_eq_leastModel I {} p order (absSt s) st' hp ho hwfs hnd
  have hdb : (fun g : Fact => g.rel < p.rels.length ∧ Engine.factsOf (absSt s) g) =
      (fun g : Fact => g.rel < p.rels.length ∧ factsOf s g) := by
    funext g
    simp only [Engine.factsOf, factsOf, relSt_absSt]
  refine ⟨⟨by rw [← hsim.len]; exact hwf'.1, ?_⟩, ?_, ?_⟩
  · intro r t ht
    rw [← hsim.rows] at ht
    exact hsim.typed r t ht
  · intro f
    rw [← hdb, ← hfacts]
    simp only [Engine.factsOf, factsOf, hsim.rows]
  · intro r hr
    obtain ⟨derived, h1, h2, h3⟩ := hrows r hr
    rw [hsim.rows, relSt_absSt] at h1
    rw [relSt_absSt] at h3
    exact ⟨derived, h1, h2, h3⟩

/-- the index sets the compiler allocates (`ixSetsOf`) make every clause's index exist -/
theorem ixSetsOf_covers (V : Hir.VarsOf E B) (p : Program E B G P A) (r : Rule E B G P A) (hr : r ∈ p.rules)
    (i : Nat) (rel : RelId) (cols : List Nat) (dp : Bool)
    (h : (Hir.compileRule V r).items[i]? = some (.clause rel cols dp)) (hne : cols.length ≠ arityOf p rel) :
    cols ∈ ixSetsOf V p rel := by
  unfold ixSetsOf
  simp only
  rw [mem_eraseDups', List.mem_flatMap]
  refine ⟨r, hr, ?_⟩
  rw [List.mem_filterMap]
  refine ⟨.clause rel cols dp, List.mem_of_getElem? h, ?_⟩
  simp [hne]

/-! ## non-vacuity: transitive closure over the concrete interpretation of `Props/C01Plan.lean`

`path(x, y) <-- edge(x, y);  path(x, z) <-- edge(x, y), path(y, z)`: the second rule is compiled to a reorderable simple
join (`edge` indexed on column 1, `path` on column 0); the compiler allocates the index sets `[]`, `[1]` for `edge` and
`[0]` for `path`.  Every hypothesis of `runPhys_eq_leastModel` holds (by evaluation), and the physical engine returns. -/

def pTC : Program Plan.Ex Plan.Bx Plan.Ex Unit Unit :=
  { rels := [⟨2, false⟩, ⟨2, false⟩]
    rules := [{ heads := [⟨1, [.var 0, .var 1]⟩], body := [.clause 0 [.var 0, .var 1] []] },
              { heads := [⟨1, [.var 0, .var 2]⟩],
                body := [.clause 0 [.var 0, .var 1] [], .clause 1 [.var 1, .var 2] []] }] }

def sTC : PSt := initSt pTC fun r => if r = 0 then [[.int 1, .int 2], [.int 2, .int 3]] else []

theorem wf_sTC : WFPSt pTC sTC := by
  refine ⟨by decide, ?_⟩
  intro r t ht
  match r, ht with
  | 0, ht =>
    have : t ∈ [[Val.int 1, .int 2], [.int 2, .int 3]] := ht
    simp only [List.mem_cons, List.not_mem_nil, or_false] at this
    rcases this with rfl | rfl <;> rfl
  | 1, ht => cases ht
  | r + 2, ht => cases ht

theorem tc_hyps :
    Relational pTC ∧ validOrder pTC [[0], [1]] = true ∧ planOk Plan.exV pTC (ixSetsOf Plan.exV pTC) = true ∧
    (∀ r ∈ pTC.rules, Hir.Desugared Plan.exV r = true ∧ Plan.WellScoped Plan.exV r = true) ∧
    (Hir.compileRule Plan.exV (pTC.rules.getD 1 ⟨[], []⟩)).simpleJoinStart = some 0 ∧
    Plan.reorderable (Hir.compileRule Plan.exV (pTC.rules.getD 1 ⟨[], []⟩)) = true ∧
    ixSetsOf Plan.exV pTC 0 = [[], [1]] ∧ ixSetsOf Plan.exV pTC 1 = [[0]] ∧
    (run Plan.exI Plan.exV pTC (ixSetsOf Plan.exV pTC) [[0], [1]] 10 sTC).map (fun o => (o.st.map (·.rows), o.iters)) =
      some ([[[.int 1, .int 2], [.int 2, .int 3]], [[.int 1, .int 2], [.int 2, .int 3], [.int 1, .int 3]]], [1, 2]) :=
  ⟨⟨by decide, by decide, by decide⟩, by decide, by decide, by decide, by decide, by decide, by decide, by decide, by decide⟩

/-- the theorem applies to the example: whatever the run returns holds exactly the least model -/
example (out : ProgSt) (h : run Plan.exI Plan.exV pTC (ixSetsOf Plan.exV pTC) [[0], [1]] 10 sTC = some out) :
    ∀ f, factsOf out.st f ↔
      Derivable Plan.exI pTC.rules noAgg (fun g => g.rel < pTC.rels.length ∧ factsOf sTC g) f :=
  (runPhys_eq_leastModel Plan.exI Plan.exI_ext Plan.exV Plan.exI_supp pTC _ _ sTC 10 out tc_hyps.1 tc_hyps.2.1
    tc_hyps.2.2.1 tc_hyps.2.2.2.1 wf_sTC h).2.1

/-! ## axiom audit -/
#print axioms runPhys_eq_leastModel
#print axioms ixSetsOf_covers
#print axioms tc_hyps

end AscentVerif.Phys
