import AscentVerif.Props.C04
import AscentVerif.Props.C03
import AscentVerif.Proofs.AggLatInv
import AscentVerif.Proofs.AggRestartLink
/-!
# C04 over lattices — an aggregation / negation that ranges over a LATTICE relation sees one row per
key, carrying the FINAL value of the lower stratum

`Props/C04.lean` covers aggregation without lattices, `Props/C03.lean` lattices without aggregation.
Here: programs with BOTH (abstract engine `Model/Engine.lean`, serial mode), in particular
`cnt(k, n) <-- key(k), agg n = count() in best(k, _)`, `agg m = min(v) in dist(x, v)`, `!best(k, _)`.

What is proved (LEVEL A, part 1 of the task; all statements below are fully proved):

* `run_mixed_lattice_key_unique` / `run_mixed_lattice_view_once`: for EVERY program (any mix of
  lattices, aggregation, negation, generators; no stratification needed), after a completed `run()`
  every lattice relation has one row per key and the list an aggregation item over it reads
  (`latAggView`) is a duplicate-free enumeration of exactly its rows: one row per key.
* `agg_over_lattice_one_row_per_key`: for a stratified program, when the SCC containing an aggregation
  over lattice `l` starts, what the item reads for `l` has one row per key, is a permutation of the rows
  `l` has in the FINAL result, and is literally the list the item would read from the final value.
* `agg_item_reads_view`, `agg_item_reads_view_iter`: every state of the evaluation of that SCC hands
  exactly this list to the aggregator.

NOT proved here (part 2 of the task, open): the semantic characterisation of the final database of a
mixed program (closed under the rules with aggregates evaluated on the final rows, least among such).
-/
namespace AscentVerif.Engine
open AscentVerif

variable {E B G P A : Type}

/-- the only requirement on the program: every head relation is declared -/
def MixedProg (p : Program E B G P A) : Prop := ∀ r ∈ p.rules, ∀ h ∈ r.heads, h.rel < p.rels.length

/-- the caller put at most one row per key into each lattice relation -/
def LatInputKeys (p : Program E B G P A) (inp : RelId → List Tuple) : Prop :=
  ∀ r, r < p.rels.length → (declOf p r).lat = true → ((inp r).map keyOf).Nodup

/-- the list of tuples the engine hands to the aggregation machinery for an item over relation `r`
when `r` is read from program value `st` (`aggTuples` for a lattice relation: the set-valued index
entries, each row number once, no tuple deduplication) -/
def latAggView (p : Program E B G P A) (st : St) (r : RelId) : List Tuple :=
  (readBag {} (declOf p r) (relSt st r).idx).map (rowAt (relSt st r).rows)

/-- `latAggView` IS what `evalBody`'s `.agg` case reads (`aggTuples`), in any SCC state that kept the
relation as the program value had it -/
theorem aggTuples_lattice_eq (p : Program E B G P A) (s : SccSt) (st : St) (a : AggClause E A)
    (hlat : (declOf p a.rel).lat = true) (hkeep : relSt s.rels a.rel = relSt st a.rel) :
    aggTuples {} p s a = latAggView p st a.rel := by
  simp [aggTuples, latAggView, hkeep, hlat]

private theorem map_rowAt_range' (rows : List Tuple) : (List.range rows.length).map (rowAt rows) = rows := by
  apply List.ext_getElem
  · simp
  · intro i h1 h2
    simp [rowAt, List.getD_eq_getElem?_getD, List.getElem?_eq_getElem h2]

private theorem view_of_KPInv {p : Program E B G P A} {st : St} (hp : AggLat.KPInv p st) (r : RelId)
    (hlat : (declOf p r).lat = true) :
    ((latAggView p st r).map keyOf).Nodup ∧ (latAggView p st r).Perm (relSt st r).rows := by
  have hv : latAggView p st r = ((relSt st r).idx.eraseDups).map (rowAt (relSt st r).rows) := by
    simp [latAggView, readBag, setLike, hlat]
  have h1 : ((relSt st r).idx.eraseDups).Perm (List.range (relSt st r).rows.length) := by
    rw [List.perm_ext_iff_of_nodup (Agg.nodup_eraseDups _ _ (Nat.le_refl _)) List.nodup_range]
    intro i
    rw [mem_eraseDups', List.mem_range]
    exact (hp.idxAll r i).symm
  have h2 : (latAggView p st r).Perm (relSt st r).rows := by
    have := h1.map (rowAt (relSt st r).rows)
    rw [map_rowAt_range'] at this
    rw [hv]; exact this
  exact ⟨(h2.map keyOf).nodup_iff.mpr (hp.keys r hlat), h2⟩

/-! ## every program: one row per lattice key after `run()`, and the aggregation view shows it once -/

/-- **one row per lattice key, for programs WITH aggregation / negation** (`run_lattice_key_unique`
of C03 without its `aggFree` hypothesis; no stratification hypothesis is needed either) -/
theorem run_mixed_lattice_key_unique (I : Interp E B G P A) (p : Program E B G P A) (order : SccOrder)
    (inp : RelId → List Tuple) (fuel : Nat) (ps : ProgSt)
    (hp : MixedProg p) (hi : LatInputKeys p inp)
    (hrun : run I {} p order fuel (initSt p inp) = .done ps) :
    ∀ r, r < p.rels.length → (declOf p r).lat = true → ((relSt ps.st r).rows.map keyOf).Nodup :=
  fun r _ hl => (AggLat.runSccs_K hp never fuel order _ ps (AggLat.KPInv_start inp hi) hrun).1.keys r hl

/-- **the aggregation view of a lattice after `run()`**: one entry per key, exactly the rows (what a
later `run()`'s aggregation, or a program reading this one, is handed) -/
theorem run_mixed_lattice_view_once (I : Interp E B G P A) (p : Program E B G P A) (order : SccOrder)
    (inp : RelId → List Tuple) (fuel : Nat) (ps : ProgSt)
    (hp : MixedProg p) (hi : LatInputKeys p inp)
    (hrun : run I {} p order fuel (initSt p inp) = .done ps) :
    ∀ r, (declOf p r).lat = true →
      ((latAggView p ps.st r).map keyOf).Nodup ∧ (latAggView p ps.st r).Perm (relSt ps.st r).rows :=
  fun r hl => view_of_KPInv (AggLat.runSccs_K hp never fuel order _ ps (AggLat.KPInv_start inp hi) hrun).1 r hl

/-- … from any program value of the right length whose lattice relations hold one row per key
(second and later runs, runs after pushes) -/
theorem run_mixed_lattice_view_once_from (I : Interp E B G P A) (p : Program E B G P A) (order : SccOrder)
    (s : St) (fuel : Nat) (ps : ProgSt)
    (hp : MixedProg p) (hlen : s.length = p.rels.length)
    (hk : ∀ r, (declOf p r).lat = true → ((relSt s r).rows.map keyOf).Nodup)
    (hrun : run I {} p order fuel s = .done ps) :
    ∀ r, (declOf p r).lat = true →
      ((relSt ps.st r).rows.map keyOf).Nodup ∧
      ((latAggView p ps.st r).map keyOf).Nodup ∧ (latAggView p ps.st r).Perm (relSt ps.st r).rows := by
  intro r hl
  have h := (AggLat.runSccs_K hp never fuel order _ ps (AggLat.KPInv_updateIndices s hlen hk) hrun).1
  exact ⟨h.keys r hl, view_of_KPInv h r hl⟩

/-! ## stratified programs: the aggregate sees one row per key with the FINAL value -/

/-- **C04 for an aggregation over a lattice of a lower stratum.**  `ps` is the program value when the
SCC `scc` (which contains the item `a` over lattice relation `a.rel`) starts, `ps'` the final value.
The list the item reads (1) has pairwise distinct keys, (2) is a permutation of the rows `a.rel` has
in the FINAL result — every key once, with its final value — and (3) is literally the list the item
would read from the final value; (4) rows and stored index of `a.rel` are final. -/
theorem agg_over_lattice_one_row_per_key (I : Interp E B G P A) (p : Program E B G P A)
    (inp : RelId → List Tuple) (dl : Deadline) (fuel : Nat)
    (pre post : SccOrder) (scc : List Nat) (ps ps' : ProgSt)
    (hp : MixedProg p) (ho : validOrder p (pre ++ scc :: post) = true) (hs : Stratified p (pre ++ scc :: post))
    (hi : LatInputKeys p inp)
    (hpre : runSccs I {} p dl fuel pre { st := updateIndices (initSt p inp), checks := 0, iters := [] } = .done ps)
    (hpost : runSccs I {} p dl fuel (scc :: post) ps = .done ps')
    (rule : Rule E B G P A) (hrule : rule ∈ sccRules p scc) (a : AggClause E A) (ha : Item.agg a ∈ rule.body)
    (hlat : (declOf p a.rel).lat = true) :
    ((latAggView p ps.st a.rel).map keyOf).Nodup ∧
    (latAggView p ps.st a.rel).Perm (relSt ps'.st a.rel).rows ∧
    latAggView p ps'.st a.rel = latAggView p ps.st a.rel ∧
    relSt ps'.st a.rel = relSt ps.st a.rel := by
  have hk := (AggLat.runSccs_K hp dl fuel pre _ ps (AggLat.KPInv_start inp hi) hpre).1
  have hfin : relSt ps'.st a.rel = relSt ps.st a.rel :=
    (AggLat.runSccs_K hp dl fuel (scc :: post) ps ps' hk hpost).2 a.rel
      (Agg.agg_rel_not_later p pre post scc ho hs rule hrule a ha)
  obtain ⟨h1, h2⟩ := view_of_KPInv hk a.rel hlat
  refine ⟨h1, ?_, ?_, hfin⟩
  · rw [hfin]; exact h2
  · simp only [latAggView, hfin]

/-- every SCC state satisfying the structural invariant `AggLat.KInv` of this SCC (kept by every head
update, pass and `shift`: `AggLat.evalRules_K`, `AggLat.KInv_shift`) hands `latAggView` of the entry
value to an aggregation over a lattice that is not a head of the SCC -/
theorem agg_item_reads_view (p : Program E B G P A) (dynR : List RelId) (st : St) (s : SccSt)
    (hinv : AggLat.KInv p dynR st s) (a : AggClause E A) (hlat : (declOf p a.rel).lat = true)
    (hnd : dynR.contains a.rel = false) :
    aggTuples {} p s a = latAggView p st a.rel :=
  aggTuples_lattice_eq p s st a hlat (hinv.keep a.rel hnd)

/-- the state at the start of the `k`-th iteration of an SCC (`k = 0`: `enterScc`) -/
def iterSt (I : Interp E B G P A) (p : Program E B G P A) (scc : List Nat) (st : St) : Nat → SccSt
  | 0 => enterScc st (dynRels p scc)
  | k + 1 => shift (evalRules I {} p (dynRels p scc) (sccRules p scc) { iterSt I p scc st k with changed := false })

/-- **during the SCC**: at the start of every iteration, and after the rules `sccRules.take j` of that
iteration have been evaluated, an aggregation item of a stratified SCC over a lattice reads the same
list `latAggView p st a.rel` — the one characterised by `agg_over_lattice_one_row_per_key` -/
theorem agg_item_reads_view_iter (I : Interp E B G P A) (p : Program E B G P A) (scc : List Nat) (st : St)
    (hp : MixedProg p) (hst : AggLat.KPInv p st) (hs : aggOverDynamic p scc = false)
    (rule : Rule E B G P A) (hrule : rule ∈ sccRules p scc) (a : AggClause E A) (ha : Item.agg a ∈ rule.body)
    (hlat : (declOf p a.rel).lat = true) (k j : Nat) :
    aggTuples {} p (iterSt I p scc st k) a = latAggView p st a.rel ∧
    aggTuples {} p (evalRules I {} p (dynRels p scc) ((sccRules p scc).take j)
      { iterSt I p scc st k with changed := false }) a = latAggView p st a.rel := by
  have hnd := Agg.aggOverDynamic_false p scc hs rule hrule a ha
  have hrules := sccRules_sub p scc
  have hdyn : ∀ rule ∈ sccRules p scc, ∀ h ∈ rule.heads, (dynRels p scc).contains h.rel = true :=
    fun rule hr h hhd => (dynRels_mem p scc h.rel).mpr ⟨rule, hr, h, hhd, rfl⟩
  have hlt : ∀ r, (dynRels p scc).contains r = true → r < p.rels.length := by
    intro r hr
    obtain ⟨rule, hrule, h, hhd, rfl⟩ := (dynRels_mem p scc r).mp hr
    exact hp rule (hrules rule hrule) h hhd
  have hall : ∀ k, AggLat.KInv p (dynRels p scc) st (iterSt I p scc st k) ∧ NewEmpty (iterSt I p scc st k) := by
    intro k
    induction k with
    | zero => exact AggLat.KInv_enter hlt hst
    | succ k ih =>
      exact ⟨AggLat.KInv_shift (AggLat.evalRules_K I _ hdyn _ (AggLat.KInv_reset ih.1 ih.2)), AggLat.NewEmpty_shift _⟩
  refine ⟨agg_item_reads_view p _ st _ (hall k).1 a hlat hnd, ?_⟩
  refine agg_item_reads_view p _ st _ ?_ a hlat hnd
  exact AggLat.evalRules_K I _ (fun rule hr => hdyn rule (List.mem_of_mem_take hr)) _
    (AggLat.KInv_reset (hall k).1 (hall k).2)

/-! ## non-vacuity: shortest distances (a `Dual<i64>` lattice), then `count` / `max` over them -/

/-- relations: 0 `edge(x, y, w)`, 1 `lattice dist(x, Dual<i64>)`, 2 `far(n)`, 3 `maxd(m)`;
`dist(y, v + w) <-- dist(x, v), edge(x, y, w)`; `far(n) <-- agg n = count() in dist(_, _)`;
`maxd(m) <-- agg m = max(v) in dist(_, v)` -/
def pDistAgg : Program Std.Ex Std.Bx Std.Gx Std.Px Std.Ax :=
  { rels := [⟨3, false⟩, ⟨2, true⟩, ⟨1, false⟩, ⟨1, false⟩]
    rules := [{ heads := [⟨1, [.var 1, .add (.var 2) (.var 3)]⟩],
                body := [.clause 1 [.var 0, .var 2] [], .clause 0 [.var 0, .var 1, .var 3] []] },
              { heads := [⟨2, [.var 0]⟩],
                body := [.agg { outs := [0], fn := .count, boundArgs := [], rel := 1, args := [.wild, .wild] }] },
              { heads := [⟨3, [.var 0]⟩],
                body := [.agg { outs := [0], fn := .max, boundArgs := [1], rel := 1, args := [.wild, .bound 1] }] }] }

/-- node 3 is first reached with distance 9 (edge 1→3, iteration 1), then lowered in place to 7 (iteration 2) -/
def inpDistAgg : RelId → List Tuple := fun r =>
  if r = 0 then [[.int 1, .int 3, .int 9], [.int 1, .int 2, .int 3], [.int 2, .int 3, .int 4]]
  else if r = 1 then [[.int 1, .int 0]] else []

def distAggI : Interp Std.Ex Std.Bx Std.Gx Std.Px Std.Ax := Std.interp fun _ => .minInt

def distAggDoneSt : Outcome ProgSt → Option St
  | .done ps => some ps.st
  | _ => none

theorem distAgg_hyps :
    MixedProg pDistAgg ∧ validOrder pDistAgg [[0], [1], [2]] = true ∧ Stratified pDistAgg [[0], [1], [2]] ∧
    ((inpDistAgg 1).map keyOf).Nodup := by
  refine ⟨by unfold MixedProg; decide, by decide, by unfold Stratified; decide, by decide⟩

theorem distAgg_inputKeys : LatInputKeys pDistAgg inpDistAgg := by
  have h : ∀ r, r < 4 → (declOf pDistAgg r).lat = true → ((inpDistAgg r).map keyOf).Nodup := by decide
  exact h

/-- the run: `dist` ends with one row per node carrying the shortest distance (`[3, 7]`, not 9),
and the aggregations of the later strata saw exactly these three rows: `far(3)`, `maxd(7)` -/
theorem distAgg_run :
    (distAggDoneSt (run distAggI {} pDistAgg [[0], [1], [2]] 10 (initSt pDistAgg inpDistAgg))).map
        (fun st => (st.map (·.rows), latAggView pDistAgg st 1)) =
      some ([[[.int 1, .int 3, .int 9], [.int 1, .int 2, .int 3], [.int 2, .int 3, .int 4]],
             [[.int 1, .int 0], [.int 3, .int 7], [.int 2, .int 3]],
             [[.int 3]], [[.int 7]]],
            [[.int 1, .int 0], [.int 3, .int 7], [.int 2, .int 3]]) := by
  decide

/-- the intermediate value of `dist(3, _)` really was different (9) after the first iteration of
stratum 1; no aggregate saw it -/
theorem distAgg_intermediate :
    (iterSt distAggI pDistAgg [0] (updateIndices (initSt pDistAgg inpDistAgg)) 1).rels.map (·.rows) =
      [[[.int 1, .int 3, .int 9], [.int 1, .int 2, .int 3], [.int 2, .int 3, .int 4]],
       [[.int 1, .int 0], [.int 3, .int 9], [.int 2, .int 3]], [], []] := by
  decide

/-- the theorems apply to the example -/
example (ps : ProgSt) (h : run distAggI {} pDistAgg [[0], [1], [2]] 10 (initSt pDistAgg inpDistAgg) = .done ps) :
    ((relSt ps.st 1).rows.map keyOf).Nodup ∧ (latAggView pDistAgg ps.st 1).Perm (relSt ps.st 1).rows :=
  ⟨run_mixed_lattice_key_unique distAggI pDistAgg _ inpDistAgg 10 ps distAgg_hyps.1 distAgg_inputKeys h 1 (by decide) rfl,
   (run_mixed_lattice_view_once distAggI pDistAgg _ inpDistAgg 10 ps distAgg_hyps.1 distAgg_inputKeys h 1 rfl).2⟩

/-- … and `agg_over_lattice_one_row_per_key` applies to the `count` item of SCC `[1]` -/
example (ps ps' : ProgSt)
    (hpre : runSccs distAggI {} pDistAgg never 10 [[0]]
      { st := updateIndices (initSt pDistAgg inpDistAgg), checks := 0, iters := [] } = .done ps)
    (hpost : runSccs distAggI {} pDistAgg never 10 [[1], [2]] ps = .done ps') :
    ((latAggView pDistAgg ps.st 1).map keyOf).Nodup ∧ (latAggView pDistAgg ps.st 1).Perm (relSt ps'.st 1).rows :=
  have h := agg_over_lattice_one_row_per_key distAggI pDistAgg inpDistAgg never 10 [[0]] [[2]] [1] ps ps'
    distAgg_hyps.1 distAgg_hyps.2.1 distAgg_hyps.2.2.1 distAgg_inputKeys hpre hpost
    (pDistAgg.rules.getD 1 ⟨[], []⟩) ((mem_sccRules _ _ _).mpr ⟨1, by simp, rfl⟩)
    { outs := [0], fn := .count, boundArgs := [], rel := 1, args := [.wild, .wild] } (by simp [pDistAgg]) rfl
  ⟨h.1, h.2.1⟩

/-! ## axiom audit -/
#print axioms aggTuples_lattice_eq
#print axioms run_mixed_lattice_key_unique
#print axioms run_mixed_lattice_view_once
#print axioms run_mixed_lattice_view_once_from
#print axioms agg_over_lattice_one_row_per_key
#print axioms agg_item_reads_view
#print axioms agg_item_reads_view_iter
#print axioms distAgg_hyps
#print axioms distAgg_run
#print axioms distAgg_intermediate
#print axioms distAgg_inputKeys

end AscentVerif.Engine
