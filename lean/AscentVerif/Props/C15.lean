import AscentVerif.Proofs.C15Core
import AscentVerif.Proofs.C15Expand
/-!
# C15 — ill-formed programs are rejected at compile time, never miscompiled

Statements over the model `Check.check` (Model/Check.lean) of the static checks of the macro front end;
the declarative predicates are in Spec/CheckSpec.lean.  `Rejected s` = the macro answers with an error
and emits no code (`check_never_panics`: never with a panic); `Reaches s` = this macro invocation compiles the program itself (it parses,
has no `include_source!`, is not an `ascent_source!`).

* for every violation class K: `IllFormed_K → Rejected`, for a violation at ANY rule / position / nesting;
* `WellFormedCore → check = ok` and the converse (`accepted_wellFormed`);
* macro expansion is total (structural recursion on the depth budget); every macro of a set closed under
  "invokes a member again" is rejected from every invocation at every position, whatever the budget; so is
  every macro from which an empty disjunction is reached; an invocation whose call tree fits the budget succeeds;
  expansion stops at the FIRST error everywhere (fix deae510: also in rule heads and inside disjunctions), so a macro
  that invokes itself twice per level is answered `recMacro` after 100 steps, not after 2^100 (formerly finding FM8:
  `branchingHeadMacro_rejected`, `branchingDisjMacro_rejected` evaluate in the kernel);
* the pipeline NEVER panics (`check_never_panics`): the `panic!` sites guarding against leftovers of desugaring
  are unreachable, and the four formerly reachable sites are gone (FM7: fix 71f89c5; FM5: fix 5862f99, now the
  error `aggBoundArg` of the HIR pass; FM6: fix dfbe0be, now the errors `sigName` / `sigGenerics` in front of the
  stratification test); an empty disjunction is a parse error of its rule, resp. an error of the expansion of
  the macro whose body contains it (FM4: fix 361e42e);
* the rebind class covers the bound arguments of aggregations (fix 4509942; formerly finding FM2): one that names a
  variable grounded by an earlier item, or that is repeated, is rejected (`illFormed_rebind_rejected` over the extended
  `IllFormedRebind`; `accepted_is_wellFormed` / `wellFormedCore_accepted` are the two directions of the equivalence);
* re-declared relations (`relation r(..); .. relation r(..);`): the declaration-level classes speak about the
  declarations that survive `dedup_all_keep_last_by` (`Summary.effDecls`, characterised by `mem_effDecls_iff`: the last
  declaration of every identity); a `#[ds(..)] lattice` behind a duplicated relation is rejected
  (`illFormed_dsLattice_lastDecl_rejected`, `wDsLatticeAfterDup_rejected`), a replaced declaration takes no part
  (`wDsLatticeReplaced_accepted`);
* the findings that still make a full-strength statement false (FM1 residue, FM10) are witnessed by closed
  terms (`decide`), as is the NEW behaviour of the repaired ones.
-/
namespace AscentVerif.Check
open AscentVerif AscentVerif.Engine

/-! ## rejection of every violation class -/

theorem illFormed_undeclared_rejected (s : Summary) (rules : List CoreRule) (hr : Reaches s)
    (hd : desugar s.macros s.rules = .ok rules) (h : IllFormedUndeclared s rules) : Rejected s :=
  undeclared_rejected s rules hr hd h

theorem illFormed_arity_rejected (s : Summary) (rules : List CoreRule) (hr : Reaches s)
    (hd : desugar s.macros s.rules = .ok rules) (h : IllFormedArity s rules) : Rejected s :=
  arity_rejected s rules hr hd h

theorem illFormed_rebind_rejected (s : Summary) (rules : List CoreRule) (hr : Reaches s)
    (hd : desugar s.macros s.rules = .ok rules) (h : IllFormedRebind rules) : Rejected s :=
  rebind_rejected s rules hr hd h

theorem illFormed_stratification_rejected (s : Summary) (rules : List CoreRule) (hr : Reaches s)
    (hd : desugar s.macros s.rules = .ok rules) (h : IllFormedStrat s rules) : Rejected s :=
  stratification_rejected s rules hr hd h

/-- an aggregation over a variable that is not an argument of the aggregated relation (`agg m = min(z) in a(y)`),
in any rule and at any position of its body (fix 5862f99; formerly the panic of finding FM5) -/
theorem illFormed_aggBound_rejected (s : Summary) (rules : List CoreRule) (hr : Reaches s)
    (hd : desugar s.macros s.rules = .ok rules) (h : IllFormedAggBound rules) : Rejected s :=
  aggBound_rejected s rules hr hd h

/-- `struct Foo; impl Bar;`, `struct Foo<T>; impl<T> Foo<U>;` (fix dfbe0be; formerly the panics of finding FM6) -/
theorem illFormed_signature_rejected (s : Summary) (hr : Reaches s) (h : IllFormedSig s) : Rejected s :=
  signature_rejected s hr h

/-- a rule that contains an empty disjunction `()` — at any position of its body, at any depth of nested
disjunctions — is rejected by every one of the five macros (fix 361e42e; formerly the rule and every violation
in it disappeared: finding FM4).  The hypothesis excludes the programs that an `include_source!` hands over,
unparsed, to another macro invocation. -/
theorem illFormed_emptyDisj_rejected (s : Summary) (hn : ∀ n, Top.incl n ∉ s.items) (h : IllFormedEmptyDisj s) :
    Rejected s :=
  illFormedEmptyDisj_rejected s hn h

theorem illFormed_include_rejected (s : Summary) (h : IllFormedInclude s) : Rejected s := include_rejected s h

theorem illFormed_dsLattice_rejected (s : Summary) (hr : Reaches s) (h : IllFormedDsLattice s) : Rejected s :=
  dsLattice_rejected s hr h

theorem illFormed_twoDs_rejected (s : Summary) (hr : Reaches s) (h : IllFormedTwoDs s) : Rejected s :=
  twoDs_rejected s hr h

theorem illFormed_unknownAttr_rejected (s : Summary) (hr : Reaches s) (h : IllFormedUnknownAttr s) : Rejected s :=
  unknownAttr_rejected s hr h

theorem illFormed_parOnlyAttr_rejected (s : Summary) (hr : Reaches s) (h : IllFormedParOnlyAttr s) : Rejected s :=
  parOnlyAttr_rejected s hr h

/-! ### re-declared relations

`relation r(i32); .. relation r(i32);` is legal: `dedup_all_keep_last_by` (ascent_hir.rs) removes every declaration
that has a later declaration of the same identity (name, columns, `lattice` or not), the LAST copy is the declaration
of the relation.  `Summary.effDecls` is the list after that step; `IllFormedDsLattice`, `IllFormedTwoDs` and
`WellFormedCore.declDs` speak about it.  The statements below say which declarations it contains without
mentioning how `dedupKeepLast` traverses the list. -/

/-- the effective declarations are declarations of the program -/
theorem effDecls_sub_decls (s : Summary) (d : Decl) (h : d ∈ s.effDecls) : d ∈ s.decls :=
  mem_of_mem_dedupKeepLast h

/-- a declaration with no later declaration of the same identity is effective — wherever it stands and whatever is
re-declared in front of it or behind it — and these are all the effective declarations -/
theorem mem_effDecls_iff (s : Summary) (d : Decl) :
    d ∈ s.effDecls ↔ ∃ pre post, s.decls = pre ++ d :: post ∧ ∀ e ∈ post, d.sameIdentity e = false := by
  constructor
  · exact last_of_mem_dedupKeepLast
  · rintro ⟨pre, post, heq, hp⟩
    show d ∈ dedupKeepLast s.decls
    rw [heq]
    exact mem_dedupKeepLast_of_last pre d post hp

/-- in a program without re-declarations every declaration is effective, in the order of the text -/
theorem effDecls_eq_decls (s : Summary) (h : s.decls.Pairwise fun d e => d.sameIdentity e = false) :
    s.effDecls = s.decls :=
  dedupKeepLast_eq_self h

/-- relation lookup (`prog_get_relation`: by name, the last one, over ALL declarations) and the dedup agree: the
declaration a rule is resolved against is an effective one -/
theorem findDecl_effDecls (s : Summary) (n : Name) : findDecl s.effDecls n = findDecl s.decls n :=
  findDecl_dedupKeepLast s.decls n

/-- a `#[ds(..)] lattice` that is the last declaration of its identity is rejected, whatever else the program
re-declares: in particular after a duplicated relation (the shape `relation r(..); relation r(..); #[ds(p)] lattice l(..);`) -/
theorem illFormed_dsLattice_lastDecl_rejected (s : Summary) (hr : Reaches s) (pre post : List Decl) (d : Decl)
    (hs : s.decls = pre ++ d :: post) (hlast : ∀ e ∈ post, d.sameIdentity e = false)
    (hlat : d.lat = true) (hds : ∃ a ∈ d.attrs, a.name = "ds") : Rejected s :=
  illFormed_dsLattice_rejected s hr ⟨d, (mem_effDecls_iff s d).2 ⟨pre, post, hs, hlast⟩, hlat, hds⟩

/-- a failure of desugaring (macro expansion) is a rejection as well: together with the theorems above,
a program that reaches compilation and is ill-formed in one of the senses above is rejected whether or
not its macros expand -/
theorem desugar_error_rejected (s : Summary) (hr : Reaches s) (e : Err) (hd : desugar s.macros s.rules = .error e) :
    Rejected s := by
  apply rejected_of_not_compile hr
  intro hc
  obtain ⟨rules, hd', _⟩ := (compile_ok_iff s).1 hc
  rw [hd] at hd'
  cases hd'

/-! ## macros -/

/-- every macro that reaches itself from an invocation is rejected, at any position, for any budget -/
theorem self_referential_macro_rejected (s : Summary) (D : Name → Prop) (hr : Reaches s) (hD : Diverging s.macros D)
    (h : ∃ r ∈ s.rules, ∃ it ∈ r.body, ∃ m, D m ∧ Invokes it m) : Rejected s :=
  self_referential_rejected s D hr hD h

theorem self_referential_head_macro_rejected (s : Summary) (D : Name → Prop) (hr : Reaches s) (hD : HDiverging s.macros D)
    (h : ∃ r ∈ s.rules, ∃ hd ∈ r.heads, ∃ m, D m ∧ HInvokes hd m) : Rejected s :=
  self_referential_head_rejected s D hr hD h

/-- the body of a macro DEFINITION is only parsed when the macro is invoked: every rule that invokes (at any
position, at any depth of disjunctions) a macro from which an empty disjunction is reached — in its own body or
through further invocations — is rejected, whatever the budget -/
theorem illFormed_macroEmptyDisj_rejected (s : Summary) (D : Name → Prop) (hr : Reaches s)
    (hD : ReachesEmptyDisj s.macros D) (h : ∃ r ∈ s.rules, ∃ it ∈ r.body, ∃ m, D m ∧ Invokes it m) : Rejected s :=
  reachesEmptyDisj_rejected s D hr hD h

/-- direct recursion: the body of `m` invokes `m` -/
theorem direct_recursive_macro_rejected (s : Summary) (m : Name) (hr : Reaches s)
    (hself : ∀ d, lookupMacro s.macros m = some d → ∃ it ∈ d.body, Invokes it m)
    (h : ∃ r ∈ s.rules, ∃ it ∈ r.body, Invokes it m) : Rejected s := by
  refine self_referential_rejected s (fun n => n = m) hr ?_ ?_
  · intro n hn d hd
    subst hn
    obtain ⟨it, hit, hinv⟩ := hself d hd
    exact ⟨it, hit, n, rfl, hinv⟩
  · obtain ⟨r, hr', it, hit, hinv⟩ := h
    exact ⟨r, hr', it, hit, m, rfl, hinv⟩

/-- mutual recursion: `a` invokes `b` and `b` invokes `a` -/
theorem mutual_recursive_macro_rejected (s : Summary) (a b : Name) (hr : Reaches s)
    (hab : ∀ d, lookupMacro s.macros a = some d → ∃ it ∈ d.body, Invokes it b)
    (hba : ∀ d, lookupMacro s.macros b = some d → ∃ it ∈ d.body, Invokes it a)
    (h : ∃ r ∈ s.rules, ∃ it ∈ r.body, Invokes it a) : Rejected s := by
  refine self_referential_rejected s (fun n => n = a ∨ n = b) hr ?_ ?_
  · intro n hn d hd
    rcases hn with hn | hn
    · subst hn
      obtain ⟨it, hit, hinv⟩ := hab d hd
      exact ⟨it, hit, b, Or.inr rfl, hinv⟩
    · subst hn
      obtain ⟨it, hit, hinv⟩ := hba d hd
      exact ⟨it, hit, a, Or.inl rfl, hinv⟩
  · obtain ⟨r, hr', it, hit, hinv⟩ := h
    exact ⟨r, hr', it, hit, a, Or.inl rfl, hinv⟩

/-- expansion inside the budget: a finite call tree of depth ≤ 100 in which every disjunction has an alternative
expands (full strength since fix 71f89c5; before it the `flatten_punctuated` panic of finding FM7 was a possible
outcome; since fix 361e42e `Fits` asks for non-empty disjunctions) -/
theorem expandItem_succeeds_within_budget (ms : List MacroDef) (n : Nat) (it : Item) (h : Fits ms n it)
    (hn : n ≤ depthBudget) (σ : Env) (π : List Nat) :
    ∃ its, expandItem ms depthBudget σ π it = .ok its :=
  expandItem_fits ms n it h depthBudget σ π hn

/-! ## well-formed programs are accepted -/

theorem wellFormedCore_accepted (s : Summary) (rules : List CoreRule) (hr : Reaches s)
    (hd : desugar s.macros s.rules = .ok rules) (h : WellFormedCore s rules) : check s = .ok () :=
  wellFormed_accepted s rules hr hd h

/-- and only such programs are accepted (of several attributes with one name the real code inspects the first) -/
theorem accepted_is_wellFormed (s : Summary) (hr : Reaches s) (h : check s = .ok ()) :
    ∃ rules, desugar s.macros s.rules = .ok rules ∧
      (∀ r ∈ rules, ∀ o ∈ r.occurrences, ∃ d, findDecl s.decls o.1 = some d ∧ d.arity = o.2) ∧
      ¬ IllFormedRebind rules ∧ ¬ IllFormedStrat s rules ∧ ¬ IllFormedDsLattice s ∧ ¬ IllFormedTwoDs s ∧
      ¬ IllFormedUnknownAttr s ∧ ¬ IllFormedParOnlyAttr s ∧
      ¬ IllFormedAggBound rules ∧ ¬ IllFormedSig s ∧ ¬ IllFormedEmptyDisj s :=
  accepted_wellFormed s hr h

/-- the stratification test is the declarative condition, and dependency paths give classes -/
theorem stratError_is_illFormedStrat (s : Summary) (rules : List CoreRule) :
    stratError (skeleton s.decls rules) = true ↔ IllFormedStrat s rules := stratError_iff s rules

/-- the breadth-first search behind `sameScc` is complete: rules that reach each other along dependency
paths lie in one class (so `IllFormedStrat` covers every aggregation inside a dependency cycle) -/
theorem dependency_cycle_is_one_class (p : Skel) (i j : Nat) (h1 : Path p i j) (h2 : Path p j i) : sameScc p i j = true :=
  sameScc_of_paths p i j h1 h2

/-! ## panics -/

/-- the model of the macro pipeline NEVER panics: whatever the program, the answer is `ok` or a proper error -/
theorem check_never_panics (s : Summary) (e : Err) (h : check s = .error e) : e.isPanic = false :=
  check_no_panic s e h

theorem leftover_panics_unreachable (s : Summary) : check s ≠ .error .panicLeftover := check_no_leftover s

/-! ## non-vacuity and findings (closed witnesses) -/

instance {α : Type} [DecidableEq α] : DecidableEq (Except Err α)
  | .ok a, .ok b => if h : a = b then isTrue (by rw [h]) else isFalse (by intro hh; cases hh; exact h rfl)
  | .ok _, .error _ => isFalse (by intro h; cases h)
  | .error _, .ok _ => isFalse (by intro h; cases h)
  | .error a, .error b => if h : a = b then isTrue (by rw [h]) else isFalse (by intro hh; cases hh; exact h rfl)

/-- the outcome is this error (decidable without an equality test on the success value) -/
def failsWith {α : Type} (r : Except Err α) (e : Err) : Bool :=
  match r with
  | .error e' => e' == e
  | .ok _ => false

private def x : Var := { name := "x" }
private def y : Var := { name := "y" }
private def rel (n : Name) (k : Nat) : Top := .rel ⟨n, k, false, false, []⟩
private def rule (heads : List HItem) (body : List Item) : Top := .rule 0 ⟨heads, false, body⟩
private def prog (items : List Top) : Summary := { kind := .ascent, attrs := [], sig := none, items := items }

/-- `relation a(i32); relation b(i32); b(x) <-- a(x);` -/
def wGood : Summary := prog [rel "a" 1, rel "b" 1, rule [.clause "b" 1] [.clause "a" [.var x] []]]
theorem wGood_accepted : check wGood = .ok () := by decide

/-- `c(x) <-- a(x);` with `c` undeclared -/
def wUndeclared : Summary := prog [rel "a" 1, rule [.clause "c" 1] [.clause "a" [.var x] []]]
theorem wUndeclared_rejected : check wUndeclared = .error .undefRel := by decide

/-- `b(x) <-- a(x, y);` -/
def wArity : Summary := prog [rel "a" 1, rel "b" 1, rule [.clause "b" 1] [.clause "a" [.var x, .var y] []]]
theorem wArity_rejected : check wArity = .error .arity := by decide

/-- `b(x) <-- a(x), let x = 3;` -/
def wRebind : Summary := prog [rel "a" 1, rel "b" 1, rule [.clause "b" 1] [.clause "a" [.var x] [], .binder ⟨[x], []⟩]]
theorem wRebind_rejected : check wRebind = .error .shadow := by decide

/-- `b(x) <-- a(x), !b(x);` -/
def wStrat : Summary := prog [rel "a" 1, rel "b" 1, rule [.clause "b" 1] [.clause "a" [.var x] [], .neg "b" 1]]
theorem wStrat_rejected : check wStrat = .error .strat := by decide

/-- `b(x) <-- a(x); c(x) <-- b(x); b(x) <-- a(x), agg () = .. in c(x)` : through another rule -/
def wStratMutual : Summary := prog [rel "a" 1, rel "b" 1, rel "c" 1, rule [.clause "c" 1] [.clause "b" [.var x] []],
  rule [.clause "b" 1] [.clause "a" [.var x] [], .neg "c" 1]]
theorem wStratMutual_rejected : check wStratMutual = .error .strat := by decide

private def macroM (body : List Item) : Top := .mac 0 { name := "m", params := ["$p"], trailing := false, isHead := false, body := body, hbody := [] }
private def px : Var := { name := "$p", param := true }

/-- `macro m($p: ident) { a($p), m!($p) }  b(x) <-- m!(x);` -/
def wRecMacro : Summary := prog [rel "a" 1, rel "b" 1, macroM [.clause "a" [.var px] [], .mac "m" [.var px]],
  rule [.clause "b" 1] [.mac "m" [.var x]]]
set_option maxRecDepth 100000 in
theorem wRecMacro_rejected : check wRecMacro = .error .recMacro := by decide

/-- the same macro, never invoked: accepted (macros are expanded on use) -/
def wRecMacroUnused : Summary := prog [rel "a" 1, rel "b" 1, macroM [.clause "a" [.var px] [], .mac "m" [.var px]],
  rule [.clause "b" 1] [.clause "a" [.var x] []]]
theorem wRecMacroUnused_accepted : check wRecMacroUnused = .ok () := by decide

/-- `ascent_source! { s: relation a(i32); include_source!(t); }` -/
def wInclude : Summary := { kind := .source, attrs := [], sig := none, items := [rel "a" 1, .incl 0] }
theorem wInclude_rejected : check wInclude = .error .includeInSource := by decide

/-- `#[ds(p)] lattice a(i32);` and `#[ds(p)] #[ds(q)] relation a(i32);` -/
def wDsLattice : Summary := prog [.rel ⟨"a", 1, true, false, [⟨"ds", .list⟩]⟩]
theorem wDsLattice_rejected : check wDsLattice = .error .dsLattice := by decide
def wTwoDs : Summary := prog [.rel ⟨"a", 1, false, false, [⟨"ds", .list⟩, ⟨"ds", .list⟩]⟩]
theorem wTwoDs_rejected : check wTwoDs = .error .multiDs := by decide

/-- `relation r(i32); relation r(i32); #[ds(p)] lattice l(i32);` — a relation declared twice (identically) in front
of the offending lattice: the dedup removes the first `r`, the `ds` test looks at the attributes of `l` itself.
(The shape on which an implementation that pairs the de-duplicated declarations with attributes collected BEFORE the
dedup accepts the program.) -/
def wDsLatticeAfterDup : Summary := prog [rel "r" 1, rel "r" 1, .rel ⟨"l", 1, true, false, [⟨"ds", .list⟩]⟩]
theorem wDsLatticeAfterDup_rejected : check wDsLatticeAfterDup = .error .dsLattice := by decide

/-- `#[ds(p)] lattice l(i32); lattice l(i32);` — the first declaration is REPLACED by the identical re-declaration
behind it and takes no part in the program (none of its attributes is looked at): accepted.  This is the documented
behaviour of the real code (`dedup_all_keep_last_by`: the last copy is the declaration), observed on the unchanged
macro by the tie (c15: "ds on a replaced lattice declaration").  The program has a declaration that is a lattice with
a `ds` attribute, but it is not ill-formed in the sense of `IllFormedDsLattice`. -/
def wDsLatticeReplaced : Summary :=
  prog [.rel ⟨"l", 1, true, false, [⟨"ds", .list⟩]⟩, .rel ⟨"l", 1, true, false, []⟩]
theorem wDsLatticeReplaced_accepted : check wDsLatticeReplaced = .ok () := by decide
theorem wDsLatticeReplaced_not_illFormed :
    (∃ d ∈ wDsLatticeReplaced.decls, d.lat = true ∧ ∃ a ∈ d.attrs, a.name = "ds") ∧
    ¬ IllFormedDsLattice wDsLatticeReplaced := by
  refine ⟨⟨⟨"l", 1, true, false, [⟨"ds", .list⟩]⟩, by decide, rfl, ⟨"ds", .list⟩, by decide, rfl⟩, ?_⟩
  intro h
  have := illFormed_dsLattice_rejected wDsLatticeReplaced (by constructor <;> decide) h
  obtain ⟨e, he⟩ := this
  rw [wDsLatticeReplaced_accepted] at he
  cases he

/-- non-vacuity of `illFormed_dsLattice_rejected` on a program with a duplicated declaration: `wDsLatticeAfterDup`
satisfies its hypotheses (and those of `illFormed_dsLattice_lastDecl_rejected`: `pre = [r, r]`, `post = []`) -/
example : Reaches wDsLatticeAfterDup ∧ IllFormedDsLattice wDsLatticeAfterDup :=
  ⟨by constructor <;> decide,
   ⟨⟨"l", 1, true, false, [⟨"ds", .list⟩]⟩, by decide, rfl, ⟨"ds", .list⟩, by decide, rfl⟩⟩

example : wDsLatticeAfterDup.decls.length = 3 ∧ wDsLatticeAfterDup.effDecls.length = 2 := by decide

/-- two `ds` attributes on a replaced declaration are not looked at either; on the effective copy they are -/
theorem twoDs_dup :
    check (prog [.rel ⟨"r", 1, false, false, [⟨"ds", .list⟩, ⟨"ds", .list⟩]⟩, rel "r" 1]) = .ok () ∧
    check (prog [rel "r" 1, .rel ⟨"r", 1, false, false, [⟨"ds", .list⟩, ⟨"ds", .list⟩]⟩]) = .error .multiDs := by
  constructor <;> decide

/-- `#![foo]`, and `#![inter_rule_parallelism]` under `ascent!` -/
def wUnknownAttr : Summary := { wGood with attrs := [⟨"foo", .path⟩] }
theorem wUnknownAttr_rejected : check wUnknownAttr = .error .unknownAttr := by decide
def wParOnly : Summary := { wGood with attrs := [⟨"inter_rule_parallelism", .path⟩] }
theorem wParOnly_rejected : check wParOnly = .error .parOnlyAttr := by decide
theorem wParOnly_par_accepted : check { wParOnly with kind := .ascentPar } = .ok () := by decide

/-! ### findings: the full-strength statements are false for the model (= for the real code) -/

/-- FM1 (fixed by f47e99d for its only known source, parenthesised patterns: `pattern_get_vars` now descends
into `Pat::Paren`, and the tie's generator reports such variables as `seen`).  What remains is a statement about
the model only: a variable that a pattern binds WITHOUT `pattern_get_vars` reporting it (`hidden`: e.g. bound by
a macro in pattern position, which no syntactic analysis can see) is not recognised as a rebind -/
def wHidden : Summary := prog [rel "a" 1, rel "b" 1, rule [.clause "b" 1] [.clause "a" [.var x] [], .binder ⟨[], [x]⟩]]
theorem hidden_rebind_accepted :
    check wHidden = .ok () ∧ IllFormedRebindFull [⟨[⟨"b", 1⟩], [.clause "a" [.var x] [], .binder ⟨[], [x]⟩]⟩] := by
  refine ⟨by decide, ⟨_, List.mem_singleton.2 rfl, [.clause "a" [.var x] []], .binder ⟨[], [x]⟩, [], rfl, x, ?_, ?_⟩⟩
  · simp [Ev.binderVars, Ev.hiddenVars]
  · simp [Ev.grounds, Ev.argIdents, Ev.binderVars, Ev.hiddenVars, argVars]

/-- FM2 (fixed by 4509942). `b(y) <-- c(y), agg m = min(y) in a(y);` — the bound argument `y` of the aggregation is
already grounded: rejected like every other rebind (formerly accepted, `y` was shadowed inside the aggregation); the
program is ill-formed in the sense of `IllFormedRebind` -/
def wAggBound : Summary := prog [rel "a" 1, rel "b" 1, rel "c" 1,
  rule [.clause "b" 1] [.clause "c" [.var y] [], .agg "a" [.var y] ⟨[{ name := "m" }], []⟩ [y]]]
theorem aggBound_shadow_rejected :
    check wAggBound = .error .shadow ∧
    IllFormedRebind [⟨[⟨"b", 1⟩], [.clause "c" [.var y] [], .agg "a" [.var y] ⟨[{ name := "m" }], []⟩ [y]]⟩] := by
  refine ⟨by decide, ⟨_, List.mem_singleton.2 rfl, [.clause "c" [.var y] []], .agg "a" [.var y] ⟨[{ name := "m" }], []⟩ [y], [],
    rfl, Or.inr (Or.inr (Or.inr ⟨y, ?_, ?_⟩))⟩⟩
  · simp [Ev.boundVars]
  · simp [Ev.grounds, Ev.argIdents, Ev.binderVars, argVars]

/-- the place of the new test in the `Agg` arm: after the test of the aggregated variables (`c(y), agg m = min(y, z) in a(y)`
is still answered `aggBoundArg`), before the shadowing test of the pattern and before `prog_get_relation`
(`c(y), agg m = min(y) in zz(y)` with `zz` undeclared is answered `shadow`); a repeated bound argument is a rebind as
well (`agg m = f(y, y) in a(y)`) -/
theorem aggBound_shadow_order :
    check (prog [rel "a" 1, rel "b" 1, rel "c" 1, rule [.clause "b" 1]
      [.clause "c" [.var y] [], .agg "a" [.var y] ⟨[{ name := "m" }], []⟩ [y, { name := "z" }]]]) = .error .aggBoundArg ∧
    check (prog [rel "a" 1, rel "b" 1, rel "c" 1, rule [.clause "b" 1]
      [.clause "c" [.var y] [], .agg "zz" [.var y] ⟨[{ name := "m" }], []⟩ [y]]]) = .error .shadow ∧
    check (prog [rel "a" 1, rel "b" 1, rule [.clause "b" 1]
      [.agg "a" [.var y] ⟨[{ name := "m" }], []⟩ [y, y]]]) = .error .shadow := by
  refine ⟨?_, ?_, ?_⟩ <;> decide

/-- the bound arguments stay local to the aggregation: `b(m) <-- agg m = min(y) in a(y), let y = 3;` and
`b(m) <-- agg m = min(y) in a(y), agg k = min(y) in a(y);` are accepted (the name is free again behind the aggregation),
and so is `b(y) <-- agg y = min(y) in a(y);` (the pattern is tested against the variables grounded BEFORE the item) -/
theorem aggBound_local_accepted :
    check (prog [rel "a" 1, rel "b" 1, rule [.clause "b" 1]
      [.agg "a" [.var y] ⟨[{ name := "m" }], []⟩ [y], .binder ⟨[y], []⟩]]) = .ok () ∧
    check (prog [rel "a" 1, rel "b" 1, rule [.clause "b" 1]
      [.agg "a" [.var y] ⟨[{ name := "m" }], []⟩ [y], .agg "a" [.var y] ⟨[{ name := "k" }], []⟩ [y]]]) = .ok () ∧
    check (prog [rel "a" 1, rel "b" 1, rule [.clause "b" 1]
      [.agg "a" [.var y] ⟨[y], []⟩ [y]]]) = .ok () := by
  refine ⟨?_, ?_, ?_⟩ <;> decide

/-- FM4 (fixed by 361e42e). `zz(x) <-- a(x), ();` — the empty disjunction is a parse error of the rule (formerly
the rule disappeared, and the undeclared relation `zz` with it); at any depth: `b(x) <-- a(x), (a(x) | (()));` -/
def wEmptyDisj : Summary := prog [rel "a" 1, rule [.clause "zz" 1] [.clause "a" [.var x] [], .disj []]]
theorem emptyDisj_rejected : check wEmptyDisj = .error .emptyDisj := by decide
def wEmptyDisjDeep : Summary := prog [rel "a" 1, rel "b" 1,
  rule [.clause "b" 1] [.clause "a" [.var x] [], .disj [[.clause "a" [.var x] []], [.disj [[.disj []]]]]]]
theorem emptyDisj_deep_rejected : check wEmptyDisjDeep = .error .emptyDisj := by decide

/-- `macro m($p: ident) { a($p), () }`: rejected where it is invoked (`b(x) <-- m!(x);`), accepted when nothing
invokes it (the body of a macro definition is a token stream) -/
def wEmptyDisjMacro (body : List Item) : Summary := prog [rel "a" 1, rel "b" 1,
  macroM [.clause "a" [.var px] [], .disj []], rule [.clause "b" 1] body]
theorem emptyDisj_in_macro_rejected :
    check (wEmptyDisjMacro [.mac "m" [.var x]]) = .error .emptyDisj ∧
    check (wEmptyDisjMacro [.clause "a" [.var x] []]) = .ok () := by
  constructor <;> decide

/-- FM5 (fixed by 5862f99). `b(x) <-- a(x), agg m = min(z) in a(y);` is an error of the rule compiler (formerly
a panic in code generation); the test comes first in the `Agg` arm: `agg x = min(z) in zz(y)` — which also
rebinds `x` and aggregates over an undeclared relation — gets the same answer -/
def wAggBoundMissing : Summary := prog [rel "a" 1, rel "b" 1,
  rule [.clause "b" 1] [.clause "a" [.var x] [], .agg "a" [.var y] ⟨[{ name := "m" }], []⟩ [{ name := "z" }]]]
theorem aggBoundMissing_rejected : check wAggBoundMissing = .error .aggBoundArg := by decide
def wAggBoundMissingFirst : Summary := prog [rel "a" 1, rel "b" 1,
  rule [.clause "b" 1] [.clause "a" [.var x] [], .agg "zz" [.var y] ⟨[x], []⟩ [{ name := "z" }]]]
theorem aggBoundMissing_first_rejected : check wAggBoundMissingFirst = .error .aggBoundArg := by decide

/-- FM6 (fixed by dfbe0be). `struct Foo; impl Bar;` and `struct Foo<T>; impl<T> Foo<U>;` are errors (formerly
`assert_eq!` panics), reported BEFORE the stratification error (`struct Foo; impl Bar; .. b(x) <-- a(x), !b(x);`) -/
theorem sigMismatch_rejected :
    check { wGood with sig := some ⟨"Foo", some "Bar", true⟩ } = .error .sigName ∧
    check { wGood with sig := some ⟨"Foo", some "Foo", false⟩ } = .error .sigGenerics ∧
    check { wStrat with sig := some ⟨"Foo", some "Bar", true⟩ } = .error .sigName := by
  refine ⟨?_, ?_, ?_⟩ <;> decide

/-- FM7 (fixed by 71f89c5). `macro e() { }  e!(), b(x) <-- a(x);` is accepted: the empty expansion contributes nothing -/
def wEmptyHeadMacro : Summary := prog [rel "a" 1, rel "b" 1,
  .mac 0 { name := "e", params := [], trailing := false, isHead := true, body := [], hbody := [] },
  rule [.mac "e" [], .clause "b" 1] [.clause "a" [.var x] []]]
theorem emptyMacro_accepted : check wEmptyHeadMacro = .ok () := by decide

/-- FM8 (fixed by deae510). `macro h($p: ident) { h!($p), h!($p) }  h!(x) <-- a(x);` — a head macro that invokes
itself twice: expansion stops at the first error, the answer `recursively defined Ascent macro` is reached after 100
steps along the leftmost branch (formerly all 2^100 invocations were expanded first: the kernel could not evaluate the
eager model either) -/
def wBranchHead : Summary := prog [rel "a" 1, rel "b" 1,
  .mac 0 { name := "h", params := ["$p"], trailing := false, isHead := true, body := [], hbody := [.mac "h" [.var px], .mac "h" [.var px]] },
  rule [.mac "h" [.var x]] [.clause "a" [.var x] []]]
set_option maxRecDepth 100000 in
theorem branchingHeadMacro_rejected : check wBranchHead = .error .recMacro := by decide

/-- `macro m($p: ident) { (m!($p) | m!($p)) }  b(x) <-- m!(x);` — the same through a disjunction (an invocation and a
disjunction each cost one unit of the budget: formerly 2^50 expansions) -/
def wBranchDisj : Summary := prog [rel "a" 1, rel "b" 1,
  macroM [.disj [[.mac "m" [.var px]], [.mac "m" [.var px]]]],
  rule [.clause "b" 1] [.mac "m" [.var x]]]
set_option maxRecDepth 100000 in
theorem branchingDisjMacro_rejected : check wBranchDisj = .error .recMacro := by decide

set_option maxRecDepth 100000 in
/-- .. and behind a first alternative / a first head item that expands: `macro m($p: ident) { (a($p) | m!($p)), m!($p) }`,
`macro h($p: ident) { b($p), h!($p), h!($p) }` -/
theorem branchingMacro_later_rejected :
    check (prog [rel "a" 1, rel "b" 1,
      macroM [.disj [[.clause "a" [.var px] []], [.mac "m" [.var px]]], .mac "m" [.var px]],
      rule [.clause "b" 1] [.mac "m" [.var x]]]) = .error .recMacro ∧
    check (prog [rel "a" 1, rel "b" 1,
      .mac 0 { name := "h", params := ["$p"], trailing := false, isHead := true, body := [],
               hbody := [.clause "b" 1, .mac "h" [.var px], .mac "h" [.var px]] },
      rule [.mac "h" [.var x]] [.clause "a" [.var x] []]]) = .error .recMacro := by
  constructor <;> decide

/-- FM9 (fixed by 9d3a18a). `lattice a(i32, i32,);` (well-formed) is accepted; `lattice a();` is still rejected -/
theorem latticeTrailingComma_accepted : check (prog [.rel ⟨"a", 2, true, true, []⟩]) = .ok () := by decide
theorem emptyLattice_rejected : check (prog [.rel ⟨"a", 0, true, false, []⟩]) = .error .emptyLattice := by decide

/-- FM10. the budget counts disjunction nesting: an item below 100 levels of parentheses is reported as a
recursive macro although the program has no macro -/
def nestDisj : Nat → Item → Item
  | 0, it => it
  | n + 1, it => .disj [[nestDisj n it]]
set_option maxRecDepth 100000 in
theorem deepNesting_rejected :
    failsWith (expandItem [] depthBudget Env.top [0] (nestDisj 100 (.clause "a" [] []))) .recMacro = true ∧
    failsWith (expandItem [] depthBudget Env.top [0] (nestDisj 99 (.clause "a" [] []))) .recMacro = false := by
  constructor <;> decide

end AscentVerif.Check

#print axioms AscentVerif.Check.illFormed_undeclared_rejected
#print axioms AscentVerif.Check.illFormed_arity_rejected
#print axioms AscentVerif.Check.illFormed_rebind_rejected
#print axioms AscentVerif.Check.illFormed_stratification_rejected
#print axioms AscentVerif.Check.illFormed_include_rejected
#print axioms AscentVerif.Check.illFormed_dsLattice_rejected
#print axioms AscentVerif.Check.illFormed_twoDs_rejected
#print axioms AscentVerif.Check.illFormed_unknownAttr_rejected
#print axioms AscentVerif.Check.illFormed_parOnlyAttr_rejected
#print axioms AscentVerif.Check.desugar_error_rejected
#print axioms AscentVerif.Check.self_referential_macro_rejected
#print axioms AscentVerif.Check.self_referential_head_macro_rejected
#print axioms AscentVerif.Check.direct_recursive_macro_rejected
#print axioms AscentVerif.Check.mutual_recursive_macro_rejected
#print axioms AscentVerif.Check.expandItem_succeeds_within_budget
#print axioms AscentVerif.Check.wellFormedCore_accepted
#print axioms AscentVerif.Check.accepted_is_wellFormed
#print axioms AscentVerif.Check.stratError_is_illFormedStrat
#print axioms AscentVerif.Check.dependency_cycle_is_one_class
#print axioms AscentVerif.Check.leftover_panics_unreachable
#print axioms AscentVerif.Check.check_never_panics
#print axioms AscentVerif.Check.illFormed_aggBound_rejected
#print axioms AscentVerif.Check.illFormed_signature_rejected
#print axioms AscentVerif.Check.illFormed_emptyDisj_rejected
#print axioms AscentVerif.Check.illFormed_macroEmptyDisj_rejected
#print axioms AscentVerif.Check.hidden_rebind_accepted
#print axioms AscentVerif.Check.aggBound_shadow_rejected
#print axioms AscentVerif.Check.aggBound_shadow_order
#print axioms AscentVerif.Check.aggBound_local_accepted
#print axioms AscentVerif.Check.branchingHeadMacro_rejected
#print axioms AscentVerif.Check.branchingDisjMacro_rejected
#print axioms AscentVerif.Check.branchingMacro_later_rejected
#print axioms AscentVerif.Check.emptyDisj_rejected
#print axioms AscentVerif.Check.emptyDisj_deep_rejected
#print axioms AscentVerif.Check.emptyDisj_in_macro_rejected
#print axioms AscentVerif.Check.aggBoundMissing_rejected
#print axioms AscentVerif.Check.aggBoundMissing_first_rejected
#print axioms AscentVerif.Check.sigMismatch_rejected
#print axioms AscentVerif.Check.deepNesting_rejected
#print axioms AscentVerif.Check.effDecls_sub_decls
#print axioms AscentVerif.Check.mem_effDecls_iff
#print axioms AscentVerif.Check.effDecls_eq_decls
#print axioms AscentVerif.Check.findDecl_effDecls
#print axioms AscentVerif.Check.illFormed_dsLattice_lastDecl_rejected
#print axioms AscentVerif.Check.wDsLatticeAfterDup_rejected
#print axioms AscentVerif.Check.wDsLatticeReplaced_accepted
#print axioms AscentVerif.Check.wDsLatticeReplaced_not_illFormed
#print axioms AscentVerif.Check.twoDs_dup
